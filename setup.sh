#!/bin/bash
# Build the whole Coq development (full .vo), the extracted model engines, and run the hygiene gate.
set -e
cd "$(dirname "$0")"
mkdir -p build/ocaml build/assumptions build/cases evidence replays
# regenerate the translator output (integer lattice kernels) from /repo's current source
if [ -f harness/pyarith_translate.py ]; then
  PYTHONPATH=/verif /venv/bin/python -m harness.pyarith_translate || { echo "translator failed"; exit 1; }
fi
cd coq
coq_makefile -f _CoqProject -o Makefile > /dev/null
timeout 7200 make -j16
cd ..
./build_engines.sh
# hygiene gate
python3 tools/hygiene.py || exit 1
echo "setup ok"
