#!/bin/bash
# Extract each model engine to OCaml and build its line-protocol driver.
set -e
cd "$(dirname "$0")"
mkdir -p build/ocaml
build_one() {
  e="$1"   # e.g. c09
  E=$(echo "$e" | tr a-z A-Z)
  d=build/ocaml/$e
  mkdir -p $d
  ( cd $d && timeout 600 coqc -Q ../../../coq/theories QV ../../../coq/extract/Extract$E.v > extract.log 2>&1 \
    && cp ../../../coq/extract/drv.ml . && sed -e '/(\*#include zconv\*)/{r ../../../coq/extract/zconv.inc' -e 'd}' -e '/(\*#include natconv\*)/{r ../../../coq/extract/natconv.inc' -e 'd}' ../../../coq/extract/drv_$e.ml > drv_$e.ml \
    && ocamlfind ocamlopt -O3 -w -a $e.mli $e.ml drv.ml drv_$e.ml -o ../../qmodel_$e > build.log 2>&1 ) \
    || { echo "engine $e failed"; cat $d/extract.log $d/build.log 2>/dev/null | tail -30; return 1; }
}
pids=()
for f in coq/extract/Extract*.v; do
  b=$(basename $f .v); e=$(echo ${b#Extract} | tr A-Z a-z)
  if [ -n "$1" ] && [ "$1" != "$e" ]; then continue; fi
  build_one $e &
  pids+=($!)
done
rc=0
for p in "${pids[@]}"; do wait $p || rc=1; done
exit $rc
