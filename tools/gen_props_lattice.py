#!/usr/bin/env python3
"""Generate Props/C07.v, C08.v, C15.v: every statement is copied from `Check <lemma>` (so it is exactly the library
lemma's type) and closed by `exact <lemma>`."""
import os, re, subprocess, sys
COQ = '/verif/coq'
HEADER = '''From Coq Require Import ZArith List Bool Arith Lia.
From QV Require Import Core.Bits Core.Pauli Core.Symp Core.Code Core.Span Core.Rank Core.Dist Core.DistCSS Generated.LatticeArith.
From QV Require Import Lattice.Basic Lattice.Planar Lattice.Toric Lattice.PlanarBounded Lattice.ToricBounded Lattice.PlanarAll Lattice.ToricAll Lattice.PlanarRankAll Lattice.ToricPathWeightAll Lattice.PlanarDistAll Lattice.ToricRankAll Lattice.ToricDistAll.
From QV Require Import Lattice.RotPlanar Lattice.RotToric Lattice.Color Lattice.RotPlanarAll Lattice.RotPlanarBounded Lattice.RotToricBounded Lattice.ColorBounded Lattice.RotPlanarValidAll Lattice.RotToricValidAll Lattice.RotToricPathAll Lattice.ColorValidAll Lattice.RotPlanarRankAll Lattice.RotPlanarDistAll Lattice.RotToricRankAll Lattice.RotToricDistAll Lattice.RotToricPathWeightAll Lattice.ColorRankAll Lattice.ColorDistAll Lattice.PathAct.
Import ListNotations.
Open Scope Z_scope.
'''
SPEC = {
 'C07': ('every constructible code is a valid [[n,k]] stabilizer code', [
   ('basic_valid', 'five-qubit and Steane: validate = Ok'), ('basic_rank', 'five-qubit and Steane: ranks n-k and n+k'),
   ('planar_valid_all', 'PLANAR, ALL SIZES rows, cols >= 2: validate = Ok'),
   ('planar_stabilizers_commute', 'planar, all sizes: stabilizers mutually commute'),
   ('planar_logicals_anticommute', 'planar, all sizes: logical X/Z canonical'),
   ('planar_flatten_bijective_all', 'planar, all sizes: flatten is a bijection from in-bounds sites onto [0,n)'),
   ('planar_site_operator_roundtrip', 'planar, all sizes: site/operator agree'),
   ('planar_logical_x_nontrivial', 'planar, all sizes: logical X is not a product of stabilizers'),
   ('planar_logical_z_nontrivial', 'planar, all sizes: logical Z is not a product of stabilizers'),
   ('planar_rank_is_all', 'PLANAR, ALL SIZES: rank of the stabilizers is n-k and the 2k logicals are independent of them'),
   ('planar_stabilizers_logicals_independent', ''), ('planar_stabilizers_count', ''),
   ('toric_valid_all', 'TORIC, ALL SIZES rows, cols >= 2: validate = Ok'),
   ('toric_flatten_bijective_all', 'toric, all sizes: flatten bijection'),
   ('toric_rank_is_all', 'TORIC, ALL SIZES: rank of the stabilizers is n-k = n-2 and stabilizers with the 4 logicals have rank n+2'), ('toric_rank_all', 'the same with n, k read off the translated n_k_d formula'),
   ('toric_sublattice_products_identity', 'toric, all sizes: the two dependencies (product of all primal / all dual generators is the identity)'),
   ('toric_reduced_independent', ''), ('toric_stab_in_reduced_span', ''),
   ('planar_ctor_ok_iff', 'planar/toric constructor acceptance = documented range'), ('toric_ctor_ok_iff', ''),
   ('planar_ctor_type_error_iff', ''), ('toric_ctor_type_error_iff', ''),
   ('planar_valid_upto8_spec', 'planar <= 8x8 (vm_compute)'), ('planar_shapes_upto8_spec', 'planar <= 8x8: n, k = matrix shapes'),
   ('planar_flatten_bijective_upto8_spec', ''), ('planar_rank_upto6_spec', 'planar <= 6x6: rank n-k, logicals independent'),
   ('toric_valid_upto8_spec', 'toric <= 8x8'), ('toric_shapes_upto8_spec', ''), ('toric_flatten_bijective_upto8_spec', ''),
   ('toric_rank_upto6_spec', 'toric <= 6x6: rank n-k (two dependent generators)'),
   ('rotplanar_valid_all', 'ROTATED PLANAR, ALL SIZES rows, cols >= 3: validate = Ok'), ('rotplanar_valid_all_conditions', ''),
   ('rottoric_valid_all', 'ROTATED TORIC, ALL EVEN SIZES >= 2: validate = Ok'), ('rottoric_valid_all_conditions', ''),
   ('color_valid_all', 'COLOUR 6.6.6, ALL ODD SIZES >= 3: validate = Ok'), ('color_valid_all_conditions', ''),
   ('color_flatten_injective_all', 'colour, all sizes: flatten injective on in-bounds sites, range within [0,n)'), ('color_flatten_range_all', ''),
   ('rotplanar_rank_is_all', 'ROTATED PLANAR, ALL SIZES: rank n-1, with the two logicals n+1'), ('rotplanar_rank_nkd', ''), ('rotplanar_stabilizers_count_all', ''), ('rotplanar_valid_shape_all', 'rotated planar, all sizes: validate = Ok and n, k = matrix shapes'),
   ('rottoric_rank_is_all', 'ROTATED TORIC, ALL EVEN SIZES: rank n-2, with the four logicals n+2'), ('rottoric_rank_all', ''), ('rottoric_valid_shape_all', ''),
   ('color_rank_all', 'COLOUR 6.6.6, ALL ODD SIZES: rank n-1, with the two logicals n+1'), ('color_flatten_all', 'colour, all sizes: flatten is a bijection from in-bounds sites onto [0,n)'), ('color_valid_all_full', 'colour, all sizes: validate = Ok and n, k = matrix shapes'),
   ('rotplanar_valid_upto_9', 'rotated planar 3..9'), ('rotplanar_shapes_upto_9', ''), ('rotplanar_rank_upto_9', ''),
   ('rp_flatten_range', 'rotated planar, ALL SIZES: flatten bijection'), ('rp_flatten_injective', ''), ('rp_flatten_surjective', ''),
   ('rp_ctor_ok_iff', 'constructor acceptance = documented range (all argument values)'), ('rp_ctor_type_error_iff', ''),
   ('rottoric_valid_upto_10', 'rotated toric even 2..10'), ('rottoric_shapes_upto_10', ''), ('rottoric_rank_upto_10', ''),
   ('rt_flatten_range', 'rotated toric, ALL SIZES: flatten bijection'), ('rt_flatten_injective', ''), ('rt_flatten_surjective', ''),
   ('rt_ctor_ok_iff', ''), ('rt_ctor_type_error_iff', ''),
   ('color_valid_upto_11', 'colour 6.6.6 odd 3..11'), ('color_shapes_upto_11', ''), ('color_rank_upto_11', ''),
   ('color_flatten_upto_21', 'colour: flatten bijection to size 21'), ('c6_flatten_q_eq', 'colour flatten: rational reading = integer form'),
   ('c6_ctor_ok_iff', ''), ('c6_ctor_type_error_iff', ''),
 ]),
 'C08': ('the advertised d is the true minimum distance', [
   ('basic_distance', 'five-qubit and Steane: d = 3 exactly'),
   ('planar_distance_upper', 'PLANAR, ALL SIZES: d = min(rows, cols) = weight of the lighter supplied logical; none lighter'),
   ('planar_logical_x_nontrivial', 'planar, all sizes: the supplied logicals are non-trivial, so d_true <= d'),
   ('planar_logical_z_nontrivial', ''),
   ('planar_is_distance_all', 'PLANAR, ALL SIZES: min(rows, cols) IS the minimum distance (upper and lower bound)'),
   ('planar_is_distance_nkd', 'the same with n and d read off the translated n_k_d formula'),
   ('planar_centralizer', 'planar, all sizes: an operator commuting with all stabilizers and both logicals is a stabilizer product'),
   ('planar_anticommute_z_weight', ''), ('planar_anticommute_x_weight', ''),
   ('toric_distance_upper', 'TORIC, ALL SIZES: d = min(rows, cols) attained by a supplied logical'),
   ('toric_is_distance_all', 'TORIC, ALL SIZES: min(rows, cols) IS the minimum distance (upper and lower bound)'), ('toric_is_distance_nkd', ''),
   ('toric_distance_lower_all', 'toric, all sizes: every non-trivial normalizer element has weight >= min(rows, cols)'),
   ('toric_centralizer', 'toric, all sizes: an operator commuting with all stabilizers and all four logicals is a stabilizer product'),
   ('toric_distance_lower_partial', ''), ('toric_anticommute_z1_weight', ''), ('toric_anticommute_x1_weight', ''), ('toric_logical_weights', ''),
   ('planar_distance_upto5_spec', 'planar <= 5x5 except 5x5: is_distance (exhaustive CSS search in the kernel)'),
   ('toric_distance_upto5_spec', 'toric <= 5x5 except 5x5'),
   ('rotplanar_is_distance_all', 'ROTATED PLANAR, ALL SIZES: min(rows, cols) IS the minimum distance'), ('rotplanar_is_distance_nkd', ''), ('rotplanar_distance_lower_all', ''), ('rotplanar_centralizer', 'rotated planar, all sizes: centralizer lemma'), ('rotplanar_logicals_nontrivial', ''),
   ('rottoric_is_distance_all', 'ROTATED TORIC, ALL EVEN SIZES: min(rows, cols) IS the minimum distance'), ('rottoric_is_distance_nkd', ''), ('rottoric_distance_lower_all', ''), ('rottoric_centralizer', 'rotated toric, all sizes: centralizer lemma'),
   ('color_distance_all', 'COLOUR 6.6.6, ALL ODD SIZES: d = size IS the minimum distance'), ('color_distance_lower_all', ''), ('color_distance_upper_all', ''), ('color_centralizer_all', 'colour, all sizes: centralizer lemma'), ('color_logical_weights_all', ''), ('tri_lower', 'combinatorial core: even overlap with every hexagon and odd bottom-row parity force weight >= 2j+1'),
   ('rotplanar_distance_upto_6x5', 'rotated planar 3..6 with min <= 5'), ('rp_logical_weights_all', 'rotated planar, all sizes: lighter logical weighs d'),
   ('rottoric_distance_small', 'rotated toric small sizes'), ('rt_logical_weights_all', ''),
   ('color_distance_upto_5', 'colour 3, 5'), ('color_logical_weights_upto_21', ''),
 ]),
 'C15': ('lattice paths connect exactly their endpoints', [
   ('planar_path_syndrome_all', 'PLANAR, ALL SIZES, all same-type pairs in the strip incl. virtual: syndrome(path a b) = indicator{a,b}'),
   ('planar_path_syndrome_bit', ''), ('planar_path_weight_le', 'planar, all sizes: weight <= distance'),
   ('planar_path_weight_real', 'planar, all sizes: weight = distance for real pairs'),
   ('planar_virtual_nearest', 'planar, all sizes: virtual plaquette just outside the nearer boundary, ties north/west'),
   ('planar_virtual_props', ''), ('planar_paths_upto7_spec', 'planar <= 7x7, all ordered pairs (vm_compute)'),
   ('planar_plaquette_support_upto7', ''), ('syndrome_bit_maps_back', 'syndrome bit i maps back to plaquette i'),
   ('toric_path_syndrome_all', 'TORIC, ALL SIZES, arbitrary (wrapping) indices on one lattice: syndrome(path a b) = indicator{a mod shape, b mod shape}'),
   ('toric_path_syndrome_bit', ''), ('toric_path_weight_le', 'toric, all sizes: weight <= distance'),
   ('toric_path_weight_eq', 'TORIC, ALL SIZES: weight of the path = decoder distance'), ('translation_short', 'toric translation is a shortest one'),
   ('toric_paths_upto7_spec', 'toric <= 7x7 all ordered pairs incl. wrap'), ('toric_plaquette_support_upto7', ''), ('tsyndrome_bit_maps_back', ''),
   ('rottoric_path_syndrome_all', 'ROTATED TORIC, ALL EVEN SIZES, arbitrary (wrapping) same-type indices: syndrome(path a b) = indicator{a, b} modulo the lattice'),
   ('rottoric_path_bsp_all', ''), ('rottoric_path_weight_le_all', 'rotated toric, all sizes: weight <= max(|dx|,|dy|)'),
   ('rottoric_path_weight_all', 'ROTATED TORIC, ALL SIZES: weight of a path = max(|tx|, |ty|) of its translation'), ('rottoric_path_syndrome_weight_all', ''), ('rottoric_paths_all', 'rotated toric, all sizes, all integer index pairs: the full path property'),
   ('planar_path_acts_by_xor', 'ALL SIZES, any Pauli: path(a, b) acts by XOR with the path operator of the identity Pauli; applied twice it restores the Pauli'), ('planar_path_twice', ''), ('toric_path_acts_by_xor', ''), ('toric_path_twice', ''), ('rottoric_path_acts_by_xor', ''), ('rottoric_path_twice', ''),
   ('rottoric_paths_upto_8', 'rotated toric even <= 8x8 all ordered pairs'), ('rottoric_paths_wrapping_upto_6', ''),
   ('rt_translation_target', 'rotated toric, ALL SIZES: translation leads from a to b modulo the period'), ('rt_translation_defined', ''),
   ('rt_path_indices_defined', ''),
 ]),
}
def check_types(names):
    src = HEADER + 'Set Printing Width 100000.\nSet Printing Depth 100000.\n' + ''.join('Check %s.\n' % n for n in names)
    open('/tmp/gp/ck.v', 'w').write(src)
    p = subprocess.run(['coqc', '-Q', 'theories', 'QV', '/tmp/gp/ck.v'], cwd=COQ, capture_output=True, text=True)
    if p.returncode:
        print(p.stdout[-2000:], p.stderr[-2000:]); sys.exit(1)
    out = {}
    cur = None
    for line in p.stdout.split('\n'):
        m = re.match(r'^(\w+)$', line)
        if m and m.group(1) in names:
            cur = m.group(1); out[cur] = ''
        elif cur is not None:
            out[cur] += line.strip()[2:] if line.strip().startswith(': ') else ' ' + line.strip()
    return out
for pid, (title, items) in SPEC.items():
    names = [n for n, _ in items]
    types = check_types(names)
    body = ['(* Props/%s.v — %s.  GENERATED by tools/gen_props_lattice.py: every statement is the type reported by' % (pid, title),
            '   `Check` for the library lemma it is closed with; bounds and "all sizes" are in the statements. *)', HEADER]
    used = set()
    for n, note in items:
        tn = '%s_%s' % (pid.lower(), n)
        if tn in used: continue
        used.add(tn)
        if note: body.append('(* %s *)' % note)
        body.append('Theorem %s : %s.\nProof. exact %s. Qed.\n' % (tn, types[n].strip(), n))
    body.append('\n'.join('Print Assumptions %s_%s.' % (pid.lower(), n) for n, _ in items))
    open(os.path.join(COQ, 'theories', 'Props', pid + '.v'), 'w').write('\n'.join(body) + '\n')
    print(pid, len(items), 'theorems')
