#!/usr/bin/env python3
"""Hygiene gate over the Coq development: no Admitted/admit/Axiom/Parameter/Conjecture, no guard or universe
switches, and no Variable/Hypothesis/Context outside a Section."""
import os, re, sys
bad = []
root = os.path.join(os.path.dirname(os.path.dirname(os.path.abspath(__file__))), 'coq')
for d, _, fs in os.walk(root):
    for f in fs:
        if not f.endswith('.v') or '/cases' in d:
            continue
        p = os.path.join(d, f)
        src = open(p).read()
        # strip comments (nested)
        out, depth, i = [], 0, 0
        while i < len(src):
            if src.startswith('(*', i): depth += 1; i += 2; continue
            if src.startswith('*)', i) and depth: depth -= 1; i += 2; continue
            if depth == 0: out.append(src[i])
            elif src[i] == '\n': out.append('\n')
            i += 1
        code = ''.join(out)
        sec = 0
        for n, line in enumerate(code.split('\n'), 1):
            s = line.strip()
            if re.match(r'^(Section|Module)\s+\w+', s) and not re.match(r'^Module\s+\w+\s*:=', s): sec += 1
            if re.match(r'^End\s+\w+\s*\.', s): sec = max(0, sec - 1)
            if re.search(r'\b(Admitted|Abort All)\b|\badmit\b|^\s*(Axiom|Axioms|Parameter|Parameters|Conjecture)\b|Unset Guard|bypass_check|type-in-type|Admit Obligations|Unset Universe Checking|Unset Positivity', line):
                bad.append('%s:%d: %s' % (p, n, s[:100]))
            if sec == 0 and re.match(r'^(Variable|Variables|Hypothesis|Hypotheses|Context)\b', s):
                bad.append('%s:%d: %s outside a Section' % (p, n, s[:80]))
if bad:
    print('\n'.join(bad)); print('hygiene gate FAILED'); sys.exit(1)
print('hygiene gate ok')
