#!/usr/bin/env python3
"""Append re-exports of library theorems to a hand-written Props file: every statement is the type `Check` reports
for the library lemma and is closed by `exact`.  Idempotent.
  tools/reexport.py <Cxx> "<extra From ... Require Import line>" name [name ...]"""
import os, re, subprocess, sys, tempfile
COQ = '/verif/coq'
pid, imp, names = sys.argv[1], sys.argv[2], sys.argv[3:]
path = os.path.join(COQ, 'theories', 'Props', pid + '.v')
text = open(path).read()
head = re.split(r'^(?:Theorem|Definition|Example|Lemma|Section)\b', re.sub(r'\(\*.*?\*\)', '', text, flags=re.S), maxsplit=1, flags=re.M)[0]
names = [n for n in names if ('%s_%s ' % (pid.lower(), n)) not in text and ('%s_%s:' % (pid.lower(), n)) not in text]
if not names:
    print('nothing to add'); sys.exit(0)
d = tempfile.mkdtemp()
src = text + '\n' + imp + '\nSet Printing Width 100000.\nSet Printing Depth 100000.\n' + ''.join('Check %s.\n' % n for n in names)
open(d + '/ck.v', 'w').write(src)
p = subprocess.run(['coqc', '-Q', 'theories', 'QV', d + '/ck.v'], cwd=COQ, capture_output=True, text=True)
if p.returncode:
    print(p.stdout[-2000:], p.stderr[-2000:]); sys.exit(1)
out, cur = {}, None
for line in p.stdout.split('\n'):
    m = re.match(r'^(\w+)$', line)
    if m and m.group(1) in names:
        cur = m.group(1); out[cur] = ''
    elif cur is not None:
        out[cur] += line.strip()[2:] if line.strip().startswith(': ') else ' ' + line.strip()
add = ['', '(* ---- re-exported by tools/reexport.py: statements copied from `Check`, closed by `exact` ---- *)']
if imp not in text:
    add.append(imp)
for n in names:
    add.append('Theorem %s_%s : %s.\nProof. exact %s. Qed.' % (pid.lower(), n, out[n].strip(), n))
add.append('\n'.join('Print Assumptions %s_%s.' % (pid.lower(), n) for n in names))
open(path, 'a').write('\n'.join(add) + '\n')
print(pid, 'added', len(names))
