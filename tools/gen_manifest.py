#!/usr/bin/env python3
"""Regenerate /verif/MANIFEST.json from tools/manifest_table.json (claimed checks) —
properties without an entry are listed under not_applicable with the reason given there."""
import json, os
V = os.path.dirname(os.path.dirname(os.path.abspath(__file__)))
tab = json.load(open(os.path.join(V, 'tools', 'manifest_table.json')))
props = [json.loads(l) for l in open(os.path.join(V, 'properties.jsonl'))]
checks, na = [], []
for p in props:
    pid = p['id']
    e = tab['checks'].get(pid)
    if e is None:
        na.append({'property_id': pid, 'reason': tab['not_applicable'].get(pid, 'check not built yet in this development (no claim made)')})
        continue
    checks.append({
        'property_id': pid,
        'quick_cmd': './check %s --tier quick' % pid,
        'thorough_cmd': './check %s --tier thorough' % pid,
        'evidence_file': '/verif/evidence/%s.json' % pid,
        'replay_cmd_template': './check %s --replay {path}' % pid,
        'engine': e.get('engine', 'coq+qmodel'),
        'level_claimed': {'category': 'proof', 'text': e['text'], 'design_ref': e.get('design_ref', 'DESIGN.md section 5 ' + pid)},
        'level_note': e['note'],
        'technique': e['technique'],
    })
m = {
    'version': 1,
    'setup_cmd': './setup.sh',
    'hooks': {'guard': 'QECSIM_VERIF', 'enable': 'no source hooks: observation is through the public API and recording proxies installed by the harness process; QECSIM_VERIF=1 is exported by ./check but read by nothing in /repo',
              'baseline_off_cmd': 'cd /repo && /venv/bin/python -m pytest -ra -q -p no:cacheprovider --timeout=900 --continue-on-collection-errors',
              'source_commits': tab.get('hook_commits', []), 'add_only': True},
    'engines': tab.get('engines', []),
    'checks': checks,
    'notes': tab.get('notes', '') + ' Fix commits in /repo: ' + '; '.join(tab.get('fix_commits', [])),
    'not_applicable': na,
}
json.dump(m, open(os.path.join(V, 'MANIFEST.json'), 'w'), indent=1)
print('claimed', len(checks), 'not_applicable', len(na))
