#!/usr/bin/env python3
"""Confirm a seeded change and run our check against it, on a scratch copy of /repo (never /repo itself):
  tools/try_seed.py <seed_dir> [Cxx ...]
seed_dir holds patch.diff, demo.py, meta.json.  Prints: demo on clean tree, demo with patch, each check's verdict."""
import json, os, shutil, subprocess, sys, tempfile
seed = os.path.abspath(sys.argv[1])
meta = json.load(open(os.path.join(seed, 'meta.json')))
pids = sys.argv[2:] or [meta['property']]
tmp = tempfile.mkdtemp(prefix='seedtry_')
try:
    subprocess.run(['git', '-C', '/repo', 'worktree', 'add', '-q', '--detach', tmp + '/wt', 'HEAD'], check=True)
    wt = tmp + '/wt'
    env = dict(os.environ, PYTHONPATH=wt + '/src')
    def demo():
        p = subprocess.run(['/venv/bin/python', '-W', 'ignore', os.path.join(seed, 'demo.py')], env=env, cwd=tmp, capture_output=True, text=True, timeout=900)
        return p.returncode, (p.stdout + p.stderr)[-300:]
    rc0, _ = demo()
    a = subprocess.run(['git', '-C', wt, 'apply', os.path.join(seed, 'patch.diff')], capture_output=True, text=True)
    if a.returncode:
        print('PATCH DOES NOT APPLY', a.stderr); sys.exit(2)
    rc1, out1 = demo()
    print('demo clean rc=%d, with patch rc=%d' % (rc0, rc1))
    res = {}
    for pid in pids:
        p = subprocess.run(['./check', pid], cwd='/verif', env=dict(os.environ, VERIF_REPO=wt), capture_output=True, text=True, timeout=3600)
        lines = [l for l in p.stdout.split('\n') if l.startswith('VIOLATION') or l.startswith(pid)]
        kinds = []
        for l in lines:
            if l.startswith('VIOLATION'):
                rp = l.split('replay=')[1].split()[0]
                try:
                    d = json.load(open(rp)); kinds.append(d.get('key') or d.get('kind'))
                except Exception: pass
        res[pid] = {'exit': p.returncode, 'violation_lines': sum(1 for l in lines if l.startswith('VIOLATION')),
                    'no_failing_input': any('no-failing-input-found' in l for l in lines), 'keys': kinds, 'summary': lines[-1] if lines else p.stderr[-300:]}
        print(pid, json.dumps(res[pid]))
    json.dump({'demo_clean_rc': rc0, 'demo_patched_rc': rc1, 'checks': res}, open(os.path.join(seed, 'our_result.json'), 'w'), indent=1)
finally:
    subprocess.run(['git', '-C', '/repo', 'worktree', 'remove', '--force', tmp + '/wt'], capture_output=True)
    shutil.rmtree(tmp, ignore_errors=True)
