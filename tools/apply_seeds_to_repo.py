#!/usr/bin/env python3
"""Run our checks against seeded changes applied to /repo ITSELF (the way the checks are registered in MANIFEST.json):
  git -C /repo apply <patch>; ./check Cxx; git -C /repo checkout -- .   (always undone, also on error)
Sequential by necessity (/repo is one tree): run only when nothing else is using /repo.
  tools/apply_seeds_to_repo.py [seed ids ...]      writes seeded/<id>/repo_result.json"""
import json, os, subprocess, sys
V = '/verif'
ids = sys.argv[1:] or sorted(d for d in os.listdir(V + '/seeded') if os.path.isdir(V + '/seeded/' + d))
def clean():
    return subprocess.run(['git', '-C', '/repo', 'status', '--porcelain'], capture_output=True, text=True).stdout.strip() == ''
assert clean(), '/repo has local changes: refusing to start'
for sid in ids:
    d = V + '/seeded/' + sid
    pid = sid[:3]
    res = {}
    try:
        a = subprocess.run(['git', '-C', '/repo', 'apply', d + '/patch.diff'], capture_output=True, text=True)
        if a.returncode:
            res = {'error': 'patch does not apply: ' + a.stderr[:200]}
        else:
            p = subprocess.run(['./check', pid], cwd=V, capture_output=True, text=True, timeout=3600)
            lines = [l for l in p.stdout.split('\n') if l.startswith('VIOLATION') or l.startswith(pid + ' tier=')]
            res = {'exit': p.returncode, 'violation_lines': sum(1 for l in lines if l.startswith('VIOLATION')),
                   'no_failing_input': any('no-failing-input-found' in l for l in lines), 'summary': lines[-1] if lines else p.stderr[-300:]}
    finally:
        subprocess.run(['git', '-C', '/repo', 'checkout', '--', '.'], capture_output=True)
        subprocess.run(['git', '-C', '/repo', 'clean', '-fdq', 'src'], capture_output=True)
    assert clean(), '/repo not restored after ' + sid
    json.dump(res, open(d + '/repo_result.json', 'w'), indent=1)
    print(sid, json.dumps(res)[:300], flush=True)
