#!/usr/bin/env python3
"""Regenerate the table of DESIGN.md section 10 from seeded/*/{meta,our_result,confirm}.json and seeded/strengthened.json."""
import glob, json, os, re
V = '/verif'
notes = json.load(open(V + '/seeded/strengthened.json'))
rows = []
dirs = sorted(d for d in glob.glob(V + '/seeded/C??-?') if os.path.isdir(d))
caught = conf = 0
for d in dirs:
    sid = os.path.basename(d)
    m = json.load(open(d + '/meta.json'))
    def txt(*keys):
        for k in keys:
            if m.get(k):
                v = m[k]
                return re.sub(r'\s+', ' ', v if isinstance(v, str) else json.dumps(v)).replace('|', '/')
        return ''
    what, needs = txt('what_changed', 'what', 'change', 'description')[:150], txt('needs_to_manifest', 'needs', 'trigger')[:130]
    verdict = 'not run'
    if os.path.exists(d + '/our_result.json'):
        r = json.load(open(d + '/our_result.json'))
        ch = r['checks'][sid[:3]]
        if ch['exit'] == 1 and ch['violation_lines'] and not ch['no_failing_input']:
            verdict = 'VIOLATION: ' + ', '.join(sorted(set(k for k in ch['keys'] if k))); caught += 1
        elif ch['exit'] == 1:
            verdict = 'VIOLATION ... no-failing-input-found'
        else:
            verdict = 'MISSED'
    c = ''
    if os.path.exists(d + '/confirm.json'):
        cj = json.load(open(d + '/confirm.json')); conf += 1 if (cj.get('compiles') and cj.get('demo_rc_clean') == 0 and cj.get('demo_rc_patched') and not cj.get('stable_pass_failing_with_patch')) else 0
    rows.append('| %s | %s | %s | %s | %s |' % (sid, what, needs, verdict, notes.get(sid, '')))
head = ('| seed | change | needs | verdict (violation keys) | check strengthened |\n|---|---|---|---|---|\n')
s = open(V + '/DESIGN.md').read()
i = s.index('| seed | change | needs |'); j = s.index('False alarms found and corrected')
s = s[:i] + head + '\n'.join(rows) + '\n\n' + s[j:]
open(V + '/DESIGN.md', 'w').write(s)
print(len(rows), 'seeds;', caught, 'caught with a concrete failing input;', conf, 'confirmed;', len([r for r in rows if notes.get(r.split('|')[1].strip())]), 'needed strengthening')
