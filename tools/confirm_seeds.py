#!/usr/bin/env python3
"""For every seeded change: scratch worktree of /repo (outside /repo and /verif), apply patch, run the pinned test
suite and check that every BASELINE stable_pass test still passes; run the demo with and without the patch.
Writes seeded/<id>/confirm.json.  Worktrees are removed afterwards."""
import json, os, shutil, subprocess, sys, tempfile, xml.etree.ElementTree as ET
from concurrent.futures import ThreadPoolExecutor
SEEDS = sorted(d for d in os.listdir('/verif/seeded') if os.path.isdir('/verif/seeded/' + d))
if len(sys.argv) > 1: SEEDS = sys.argv[1:]
stable = set(json.load(open('/root/.vp/BASELINE.json'))['stable_pass'])
def one(sid):
    seed = '/verif/seeded/' + sid
    tmp = tempfile.mkdtemp(prefix='seedconf_')
    wt = tmp + '/wt'
    try:
        subprocess.run(['git', '-C', '/repo', 'worktree', 'add', '-q', '--detach', wt, 'HEAD'], check=True, capture_output=True)
        env = dict(os.environ, PYTHONPATH=wt + '/src')
        def demo():
            p = subprocess.run(['/venv/bin/python', '-W', 'ignore', seed + '/demo.py'], env=env, cwd=tmp, capture_output=True, text=True, timeout=1800)
            return p.returncode
        clean = demo()
        a = subprocess.run(['git', '-C', wt, 'apply', seed + '/patch.diff'], capture_output=True, text=True)
        if a.returncode: return sid, {'error': 'patch does not apply: ' + a.stderr[:200]}
        patched = demo()
        comp = subprocess.run(['/venv/bin/python', '-m', 'compileall', '-q', wt + '/src/qecsim'], capture_output=True, text=True)
        j = tmp + '/junit.xml'
        t = subprocess.run(['/venv/bin/python', '-m', 'pytest', '-q', '-p', 'no:cacheprovider', '--timeout=900', '--continue-on-collection-errors', '--junitxml=' + j],
                           cwd=wt, env=env, capture_output=True, text=True, timeout=3600)
        res = {}
        for tc in ET.parse(j).iter('testcase'):
            res[(tc.get('classname') + '::' + tc.get('name')).replace(wt, '/repo')] = not any(c.tag in ('failure', 'error', 'skipped') for c in tc)
        failing = sorted(s for s in stable if not res.get(s, False))
        out = {'repo_commit': subprocess.run(['git', '-C', '/repo', 'log', '--format=%h', '-1'], capture_output=True, text=True).stdout.strip(),
               'compiles': comp.returncode == 0, 'demo_rc_clean': clean, 'demo_rc_patched': patched,
               'stable_pass_tests': len(stable), 'stable_pass_failing_with_patch': failing, 'pytest_summary': t.stdout.strip().split('\n')[-1]}
        json.dump(out, open(seed + '/confirm.json', 'w'), indent=1)
        return sid, out
    finally:
        subprocess.run(['git', '-C', '/repo', 'worktree', 'remove', '--force', wt], capture_output=True)
        shutil.rmtree(tmp, ignore_errors=True)
with ThreadPoolExecutor(max_workers=6) as ex:
    for sid, out in ex.map(one, SEEDS):
        print(sid, json.dumps({k: v for k, v in out.items() if k != 'stable_pass_tests'})[:300], flush=True)
