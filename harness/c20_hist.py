"""C20 helpers: codes DEFINED BY PAULI STRINGS under caller histories.

A BasicCode (FiveQubitCode, SteaneCode) is given its operators as Pauli strings; what it validates and publishes must be
decided by those strings alone.  The arrays that paulitools.pauli_to_bsf / ibsf hand to a caller are the caller's: the
caller may overwrite them in place (compose errors with ^=, assign elements, write through views) before, between and
after the construction / first use of codes that contain the same strings.

A history is a list of explicit steps (replayable by `play`):
  ('conv1', s, how, t)        a = pt.pauli_to_bsf(s); overwrite a in place so that it holds the operator t
                              how in xor / assign / elem / halves (writes through the hsplit views) / zero-then-xor
  ('convL', [s..], container, how, [t..])
                              M = pt.pauli_to_bsf(list or tuple of strings); rows overwritten with the operators t
                              how in rows-xor / rows-assign / whole (M[...] = matrix) / iterate (for row in M: row ^= ..)
  ('ibsf', n, {s: t})         for b in pt.ibsf(n): if b is the operator s of the map: b[:] = t
After every overwrite the caller's own array is converted back with pt.bsf_to_pauli and must read t.
The targets t come from the corruption kinds of the C20 harness (single-qubit corruption of one operator and its
inverse, swapped / duplicated / exchanged / identity logicals, random stabilizers, another valid code), so that a
conversion that leaked the caller's writes into a code would turn a valid code invalid or an invalid one valid.

Expected values: the model engine (`basic` request: Core/CodeP.code_of converts the strings, validate, logicals) and
the code conditions evaluated at letter level directly on the strings given.  Nothing here uses the implementation to
say what is right: strings <-> bits conversions below are this module's own.
"""
import numpy as np

MSG = {'Stabilizers do not mutually commute.': 'ErrStab', 'Stabilizers do not commute with logicals.': 'ErrStabLog',
       'Logicals do not commute as expected.': 'ErrLog'}


# ---------------------------------------------------------------- own conversions and ground truth on strings
def str_bsf(s):
    return np.array([1 if c in 'XY' else 0 for c in s] + [1 if c in 'ZY' else 0 for c in s], dtype=int)


def bsf_str(b):
    b = [int(v) for v in b]
    n = len(b) // 2
    return ''.join('IXZY'[b[i] + 2 * b[n + i]] for i in range(n))


def strs_of(M):
    return tuple(bsf_str(r) for r in M)


def str_anti(p, q):
    return sum(1 for a, b in zip(p, q) if a != 'I' and b != 'I' and a != b) % 2


def conditions_str(ps, px, pz):
    c1 = all(str_anti(a, b) == 0 for a in ps for b in ps)
    c2 = all(str_anti(a, b) == 0 for a in ps for b in tuple(px) + tuple(pz))
    k = len(px)
    c3 = len(px) == len(pz) and all(
        str_anti(px[i], px[j]) == 0 and str_anti(pz[i], pz[j]) == 0 and str_anti(px[i], pz[j]) == (1 if i == j else 0)
        for i in range(k) for j in range(k))
    return c1, c2, c3


def rows01(M):
    M = np.atleast_2d(np.asarray(M))
    rows = [''.join('1' if int(v) else '0' for v in r) or '-' for r in M]
    return ','.join(rows) if rows else '-'


def want_rows(strings):
    return ','.join(''.join(str(int(v)) for v in str_bsf(s)) for s in strings) if len(strings) else '-'


# ---------------------------------------------------------------- histories
ONE_HOW = ('xor', 'assign', 'elem', 'halves', 'zero-xor')
LIST_HOW = ('rows-xor', 'rows-assign', 'whole', 'iterate')


def make_history(rng, C, T, style=None, only_changed=True):
    """steps that convert the strings of C = (ps, px, pz) and overwrite the results with the operators of T (same shape)"""
    pairs = [(s, t) for g, h in zip(C, T) for s, t in zip(g, h)]
    if only_changed and any(s != t for s, t in pairs) and rng.random() < 0.7:
        single = [(s, t) for s, t in pairs if s != t]
    else:
        single = list(pairs)
    style = style or rng.choice(('single', 'single', 'groups', 'all', 'mixed', 'ibsf'))
    n = len(pairs[0][0]) if pairs else 0
    if style == 'ibsf' and not (1 <= n <= 4):
        style = 'mixed'
    steps = []
    if style in ('single', 'mixed'):
        for s, t in single:
            steps.append(('conv1', s, rng.choice(ONE_HOW), t))
    if style in ('groups', 'mixed'):
        for g, h in zip(C, T):
            if len(g):
                steps.append(('convL', list(g), rng.choice(('list', 'tuple')), rng.choice(LIST_HOW), list(h)))
    if style == 'all':
        steps.append(('convL', [s for s, _ in pairs], rng.choice(('list', 'tuple')), rng.choice(LIST_HOW),
                      [t for _, t in pairs]))
        for s, t in single[:2]:
            steps.append(('conv1', s, rng.choice(ONE_HOW), t))
    if style == 'ibsf':
        steps.append(('ibsf', n, dict(single)))
    return steps


def play(pt, steps, problems):
    """execute the caller's steps on the implementation; problems: list receiving (what, detail) about the caller's own
    view (a conversion that is not the bsf of its string; an array that does not read back what the caller wrote)"""
    for st in steps:
        if st[0] == 'conv1':
            _, s, how, t = st
            a = pt.pauli_to_bsf(s)
            if not (getattr(a, 'shape', None) == (2 * len(s),) and bsf_str(a) == s):
                problems.append(('pauli_to_bsf(%r) is not the bsf of its string' % s, rows01(a)))
            want = str_bsf(t)
            if not a.flags.writeable:
                a = a.copy()  # a read-only result cannot be scribbled on; the caller works on a copy
            if how == 'xor':
                a ^= (str_bsf(s) ^ want)
            elif how == 'assign':
                a[:] = want
            elif how == 'elem':
                for i in range(len(want)):
                    if int(a[i]) != int(want[i]):
                        a[i] = want[i]
            elif how == 'halves':
                xs, zs = np.hsplit(a, 2)
                xs[...] = want[:len(s)]
                zs[...] = want[len(s):]
            else:
                a[:] = 0
                a ^= want
            if pt.bsf_to_pauli(a) != t:
                problems.append(('caller array overwritten with %r reads back differently' % t, str(pt.bsf_to_pauli(a))))
        elif st[0] == 'convL':
            _, ss, container, how, ts = st
            M = pt.pauli_to_bsf(list(ss) if container == 'list' else tuple(ss))
            if not (getattr(M, 'shape', None) == (len(ss), 2 * len(ss[0])) and list(strs_of(M)) == list(ss)):
                problems.append(('pauli_to_bsf(%r) is not the bsf of its strings' % (ss,), rows01(M)))
            W = np.array([str_bsf(t) for t in ts])
            if not M.flags.writeable:
                M = M.copy()
            if how == 'rows-xor':
                for i in range(len(ss)):
                    M[i] ^= (str_bsf(ss[i]) ^ W[i])
            elif how == 'rows-assign':
                for i in range(len(ss)):
                    M[i] = W[i]
            elif how == 'whole':
                M[...] = W
            else:
                for row, s, w in zip(M, ss, W):
                    row ^= (str_bsf(s) ^ w)
            if list(pt.bsf_to_pauli(M)) != list(ts):
                problems.append(('caller matrix overwritten with %r reads back differently' % (ts,), str(pt.bsf_to_pauli(M))))
        elif st[0] == 'ibsf':
            _, n, repl = st
            for b in pt.ibsf(n):
                s = bsf_str(b)
                if s in repl:
                    if not b.flags.writeable:
                        continue
                    b[:] = str_bsf(repl[s])
                    if pt.bsf_to_pauli(b) != repl[s]:
                        problems.append(('caller array from ibsf overwritten with %r reads back differently' % repl[s],
                                         str(pt.bsf_to_pauli(b))))
        else:
            raise RuntimeError('harness: unknown history step %r' % (st,))


def steps_json(steps):
    out = []
    for st in steps:
        if st[0] == 'conv1':
            out.append({'caller': "a = pt.pauli_to_bsf(%r); overwrite a in place (%s) with the operator %r; "
                                  "pt.bsf_to_pauli(a)" % (st[1], st[2], st[3])})
        elif st[0] == 'convL':
            out.append({'caller': "M = pt.pauli_to_bsf(%s(%r)); overwrite M in place (%s) with the operators %r; "
                                  "pt.bsf_to_pauli(M)" % (st[2], st[1], st[3], st[4])})
        else:
            out.append({'caller': "for b in pt.ibsf(%d): if b is one of the keys: b[:] = operator of the value" % st[1],
                        'map': st[2]})
    return out


def touches(steps, strings):
    """the steps of an earlier history that converted one of the given strings"""
    S = set(strings)
    keep = []
    for st in steps:
        if st[0] == 'conv1' and st[1] in S:
            keep.append(st)
        elif st[0] == 'convL' and S & set(st[1]):
            keep.append(st)
        elif st[0] == 'ibsf' and S & set(st[2]):
            keep.append(('ibsf', st[1], {s: t for s, t in st[2].items() if s in S}))
    return keep


# ---------------------------------------------------------------- observation of a string-defined code
def observe(code, QecsimError, exc_class):
    """(validate outcome twice, matrices) as the canonical string of the engine's `basic` reply"""
    rs = []
    for _ in range(2):
        try:
            code.validate()
            rs.append('Ok')
        except QecsimError as e:
            rs.append(MSG.get(str(e), 'QecsimError:' + str(e)))
        except ValueError:
            rs.append('ErrSplit')
        except Exception as e:  # noqa
            rs.append('ERR ' + exc_class(e))
    try:
        mats = [rows01(code.stabilizers), rows01(code.logical_xs), rows01(code.logical_zs), rows01(code.logicals)]
    except Exception as e:  # noqa
        mats = ['ERR ' + exc_class(e)] * 4
    return rs, mats


def target_codes(rng, V, random_valid, others):
    """(kind, T) for a base code V = (S, X, Z) matrices: same-shape operator sets from the corruption kinds of C20"""
    S, X, Z = V
    n, k = S.shape[1] // 2, len(X)
    out = []

    def corrupt(which):
        S2, X2, Z2 = S.copy(), X.copy(), Z.copy()
        M = {'S': S2, 'X': X2, 'Z': Z2}[which]
        if not len(M):
            return None
        row, q, p = rng.randrange(len(M)), rng.randrange(n), rng.randint(1, 3)
        if p & 1:
            M[row, q] ^= 1
        if p & 2:
            M[row, n + q] ^= 1
        return S2, X2, Z2
    for which in 'SXZ':
        c = corrupt(which)
        if c is not None:
            out.append(('corrupt-1q-' + which, c))
    if k >= 2:
        X3 = X.copy()
        X3[[0, 1]] = X3[[1, 0]]
        out.append(('swap-logical', (S, X3, Z)))
        Z3 = Z.copy()
        Z3[1] = Z3[0]
        out.append(('dup-logical', (S, X, Z3)))
    out.append(('xz-exchanged', (S, Z.copy(), X.copy())))
    out.append(('same-logical', (S, X, X.copy())))
    out.append(('identity-logical', (S, np.zeros_like(X), Z)))
    out.append(('random-stabs', (np.array([[rng.randint(0, 1) for _ in range(2 * n)] for _ in range(len(S))]).reshape(S.shape),
                                 X, Z)))
    out.append(('complement', (1 - S, 1 - X, 1 - Z)))
    if others is not None:
        out.append(('other-valid-code', others))
    return out


# ---------------------------------------------------------------- the check
FIVE = (('XZZXI', 'IXZZX', 'XIXZZ', 'ZXIXZ'), ('XXXXX',), ('ZZZZZ',))
STEANE = (('IIIXXXX', 'IXXIIXX', 'XIXIXIX', 'IIIZZZZ', 'IZZIIZZ', 'ZIZIZIZ'), ('XXXXXXX',), ('ZZZZZZZ',))


def mats_of(C):
    return tuple(np.array([str_bsf(s) for s in g]) for g in C)


def run(ctx, req, exp, random_valid, exc_class, kern):
    """string-defined codes under caller histories; appends `basic` requests to req/exp (compared by the caller with
    the model engine) and items (C, outcome) to kern for the in-kernel shard"""
    from qecsim.error import QecsimError
    from qecsim.models.basic import BasicCode, FiveQubitCode, SteaneCode
    from qecsim import paulitools as pt
    rng = ctx.rng
    log = []                      # every caller step of this section so far, in order
    state = {'case': 0, 'replays': 0}

    def replay_for(C, tag, kind, **kw):
        strings = [s for g in C for s in g]
        state['replays'] += 1
        d = {'stabilizers': C[0], 'logical_xs': C[1], 'logical_zs': C[2], 'code object': tag, 'target kind': kind,
             'caller steps of this process that converted one of these strings, in order (each conversion result is '
             'the caller\'s own array)': steps_json(touches(log, strings)) if state['replays'] <= 40 else 'omitted'}
        d.update(kw)
        return d

    def check(code, C, tag, kind, style):
        ps, px, pz = C
        rs, mats = observe(code, QecsimError, exc_class)
        line = 'basic %s %s %s' % (','.join(ps), ','.join(px), ','.join(pz))
        req.append(line)
        exp.append(('string-defined code under a caller history', '|'.join([rs[0]] + mats)))
        ctx.count((line, tag, kind, style, state['case']), True, 'history-' + kind)
        c = conditions_str(ps, px, pz)
        want_ok = all(c)
        first = 'Ok' if want_ok else ('ErrStab' if not c[0] else ('ErrStabLog' if not c[1] else 'ErrLog'))
        if rs[0] != rs[1]:
            ctx.violation('history-validate', 'validate() twice on a string-defined code gives different outcomes',
                          replay_for(C, tag, kind, first=rs[0], second=rs[1]))
        if want_ok != (rs[0] == 'Ok'):
            ctx.violation('history-validate', 'validate() of a code defined by Pauli strings does not decide the code '
                          'conditions of its strings after the caller overwrote its own conversion results',
                          replay_for(C, tag, kind, validate=rs[0], conditions_of_the_strings=list(c)))
        elif rs[0] != first:
            ctx.violation('history-validate-which', 'wrong check reported for a string-defined code after a caller history',
                          replay_for(C, tag, kind, validate=rs[0], want=first))
        want = [want_rows(ps), want_rows(px), want_rows(pz), want_rows(tuple(px) + tuple(pz))]
        if mats != want:
            names = ('stabilizers', 'logical_xs', 'logical_zs', 'logicals')
            bad = {nm: {'published': m, 'bsf of the strings': w} for nm, m, w in zip(names, mats, want) if m != w}
            ctx.violation('history-matrices', 'a code defined by Pauli strings publishes operators that are not the '
                          'conversion of its strings in order (logicals = Xs then Zs) after the caller overwrote its '
                          'own conversion results', replay_for(C, tag, kind, wrong=bad))
        if len(kern) < 24 and rs[0] in ('Ok', 'ErrStab', 'ErrStabLog', 'ErrLog') and rng.random() < 0.1:
            kern.append((C, rs[0]))
        return rs[0], mats

    def do_history(C, T, style=None):
        steps = make_history(rng, C, T, style)
        problems = []
        log.extend(steps)
        play(pt, steps, problems)
        for what, detail in problems[:3]:
            ctx.violation('history-conversion', what + ' (after the earlier caller steps of this process)',
                          {'observed': detail, 'steps of this history': steps_json(steps),
                           'earlier caller steps on the same strings': steps_json(touches(
                               log[:-len(steps)], [s for st in steps for s in ([st[1]] if st[0] == 'conv1' else st[1]
                                                                                if st[0] == 'convL' else list(st[2]))]))
                           if state['replays'] < 40 else 'omitted'})
            state['replays'] += 1
        return steps

    def case(C, T, kind, make=None):
        """C: strings of the code under test; T: same-shape strings the caller writes into its conversion results"""
        state['case'] += 1
        i = state['case']
        ps, px, pz = C
        pre = rng.choice(('none', 'lazy', 'read'))
        code0 = None
        if make is None:
            nkd = rng.choice((None, (len(ps[0]), len(px), None), (len(ps[0]), len(px), 3)))
            make = lambda tag: BasicCode(ps, px, pz, nkd, tag)   # noqa: E731
            if pre != 'none':
                code0 = make('hist %d before' % i)
                if pre == 'read':
                    check(code0, C, 'built and read before the caller history', kind, 'quiet')
        steps = do_history(C, T)
        style = steps[0][0] + ':' + str(steps[0][2]) if steps else 'none'
        code1 = make('hist %d after' % i)
        _, m1 = check(code1, C, 'built after the caller history', kind, style)
        if code0 is not None:
            _, m0 = check(code0, C, 'built before the caller history (%s), read after it' % pre, kind, style)
            if m0 != m1:
                ctx.violation('history-before-after', 'two codes built from equal strings before and after the caller '
                              'history publish different matrices',
                              replay_for(C, 'before / after', kind, before=m0, after=m1))
        # the caller goes on scribbling after the code was used; the code and later equal codes must not notice
        T2 = T if rng.random() < 0.5 else tuple(tuple(bsf_str(1 - str_bsf(s)) for s in g) for g in C)
        steps2 = do_history(C, T2)
        style2 = steps2[0][0] + ':' + str(steps2[0][2]) if steps2 else 'none'
        check(code1, C, 'read again after a second caller history', kind, style2)
        check(BasicCode(ps, px, pz), C, 'built (default label) after two caller histories', kind, style2)

    # library codes: the first construction in this process comes after the caller handled the same strings
    for cls, C in ((FiveQubitCode, FIVE), (SteaneCode, STEANE)):
        tg = target_codes(rng, mats_of(C), random_valid, None)
        rng.shuffle(tg)
        tg.sort(key=lambda kt: all(conditions_str(*(strs_of(M) for M in kt[1]))))  # invalid targets first
        kind, T = tg[0]
        T = tuple(strs_of(M) for M in T)
        state['case'] += 1
        steps = do_history(C, T, rng.choice(('single', 'all', 'mixed')))
        check(cls(), C, '%s() first constructed after the caller history' % cls.__name__, kind, steps[0][0])
        do_history(C, T, 'groups')
        check(cls(), C, '%s() constructed again after a second caller history' % cls.__name__, kind, 'groups')

    bases = [mats_of(FIVE), mats_of(STEANE)]
    nmax = ctx.pick(8, 10)
    for _ in range(ctx.pick(40, 400)):
        n = rng.randint(2, nmax)
        k = rng.randint(1, min(3, n - 1))
        bases.append(random_valid(rng, n, k))
    for bi, V in enumerate(bases):
        n, k = V[0].shape[1] // 2, len(V[1])
        other = random_valid(rng, n, k) if len(V[0]) == n - k else None
        tg = target_codes(rng, V, random_valid, other)
        if bi >= 2:
            tg = rng.sample(tg, min(len(tg), ctx.pick(4, 6)))
        C = tuple(strs_of(M) for M in V)
        for kind, T in tg:
            T = tuple(strs_of(M) for M in T)
            case(C, T, kind)                 # the code of the strings C (valid); the caller writes T
            case(T, C, kind + '-inverse')    # the code of the strings T (mostly invalid); the caller repairs to C
    ctx.extra['caller_histories'] = {'cases': state['case'], 'caller_steps': len(log)}
