"""C03 — fault-tolerant decoding returns to the code space under measurement noise.
The real app.run_once_ftp is driven with the two SMWPM decoders behind a recording proxy; the verified checker
recovery_ok_ftp (Decoders/Checker.v) decides "syndrome of the recovery = XOR of all syndrome rows"; the time-parity
decision of the rotated-toric decoder is compared with its Gallina model (Decoders/TParity.v)."""
import json
import logging

import numpy as np

from harness import decoder_zoo as zoo
from harness.common import bitstr, rowsstr, coq_bits, coq_list, Ctx

PS = (0.0, 1e-3, 0.05, 0.3, 0.9)
QS = (None, 0.0, 1e-3, 0.2, 0.5, 1.0)
EM_SPECS = (('BitPhaseFlipErrorModel', ()), ('DepolarizingErrorModel', ()), ('BiasedDepolarizingErrorModel', (10, 'Y')),
            ('BiasedDepolarizingErrorModel', (0.5, 'Y')), ('BiasedDepolarizingErrorModel', (300, 'Y')),
            ('BiasedDepolarizingErrorModel', (3, 'X')), ('BiasedYXErrorModel', (2,)), ('BitFlipErrorModel', ()),
            ('PhaseFlipErrorModel', ()), ('CenterSliceErrorModel', ((0, 0, 1), 0.5)))
ETAS = (None, None, None, 0.1, 1, 10, 300)
WARN = 'RECOVERY DOES NOT RETURN TO CODESPACE'


class _Capture(logging.Handler):
    def __init__(self):
        super().__init__(level=logging.WARNING)
        self.msgs = []

    def emit(self, record):
        self.msgs.append(record.getMessage()[:120])


def _install_tparity_recorders(rec):
    from qecsim.models.rotatedtoric import RotatedToricSMWPMDecoder as D
    if getattr(D, '_verif_wrapped', False):
        D._verif_rec = rec
        return
    D._verif_rec = rec
    o1 = D._recovery_tparities.__func__
    o2 = D._cluster_recovery_tparities.__func__
    o3 = D._measurement_error_tparities.__func__

    def w1(cls, code, T, clusters):
        r = o1(cls, code, T, clusters)
        D._verif_rec['sym'] = (int(r[1]), int(r[2]))
        return r

    def w2(cls, code, T, matches):
        r = o2(cls, code, T, matches)
        D._verif_rec['clu'] = (int(r[1]), int(r[2]))
        return r

    def w3(cls, code, me):
        r = o3(cls, code, me)
        D._verif_rec['mea'] = (int(r[0]), int(r[1]))
        return r
    D._recovery_tparities = classmethod(w1)
    D._cluster_recovery_tparities = classmethod(w2)
    D._measurement_error_tparities = classmethod(w3)
    D._verif_wrapped = True


def run_ftp_job(job):
    """job = dict(id, code, decoder, runs=[dict(T, p, q, em | scripted, seed)]) -> per-run records"""
    from qecsim import app, paulitools as pt
    from qecsim.model import Decoder, DecoderFTP, DecodeResult
    from harness.proxies import ScriptedErrorModel, ScriptedRng
    import signal

    class Recording(Decoder, DecoderFTP):
        def __init__(self, inner):
            self.inner, self.calls, self.result = inner, [], None

        def decode(self, code, syndrome, **kw):
            raise AssertionError('decode called in ftp mode')

        def decode_ftp(self, code, time_steps, syndrome, **kw):
            self.calls.append((time_steps, np.array(syndrome).copy(), kw))
            self.result = self.inner.decode_ftp(code, time_steps, syndrome, **kw)
            return self.result

        @property
        def label(self):
            return self.inner.label

        def __repr__(self):
            return repr(self.inner)

    code = zoo._code(job['code'])
    cap = _Capture()
    lg = logging.getLogger('qecsim')
    # logging configuration is part of the run configuration: most jobs at WARNING (the codespace warning is captured),
    # some at DEBUG (every guarded debug statement executes) and some at ERROR (warnings disabled)
    lg.setLevel({'DEBUG': logging.DEBUG, 'ERROR': logging.ERROR}.get(job.get('loglevel'), logging.WARNING))
    lg.propagate = False
    lg.addHandler(cap)
    trec = {}
    if job['decoder'][0] == 'RotatedToricSMWPMDecoder':
        _install_tparity_recorders(trec)
    out = []
    shared_inner = zoo.make_decoder(job['decoder']) if job.get('share_decoder') else None
    try:
        for run in job['runs']:
            cap.msgs.clear()
            trec.clear()
            if job['decoder'][0] == 'RotatedToricSMWPMDecoder':
                from qecsim.models.rotatedtoric import RotatedToricSMWPMDecoder as D
                D._verif_rec = trec
            dec = Recording(shared_inner if shared_inner is not None else zoo.make_decoder(job['decoder']))
            T, p, q = run['T'], run['p'], run['q']
            if 'scripted' in run:
                errs = [np.array([int(c) for c in s]) for s in run['scripted']['errors']]
                flips = [np.array([int(c) for c in s]) for s in run['scripted']['flips']]
                em = ScriptedErrorModel(errs)
                rng = ScriptedRng(flips)
            else:
                em = zoo.make_error_model(run['em'])
                rng = np.random.default_rng(run['seed'])
            rec = {}
            try:
                signal.alarm(zoo.DECODE_TIMEOUT)
                try:
                    data = app.run_once_ftp(code, T, em, dec, p, q, rng)
                finally:
                    signal.alarm(0)
                rec['outcome'] = 'ok'
                rec['success'] = bool(data['success'])
                cv = data['custom_values']
                rec['custom_values'] = None if cv is None else [int(x) for x in np.asarray(cv).ravel().tolist()]
                rec['cv_shape'] = None if cv is None else list(np.asarray(cv).shape)
            except zoo._Timeout:
                rec['outcome'] = 'ERR Timeout'
            except MemoryError:
                rec['outcome'] = 'ERR MemoryError'
            except Exception as ex:  # noqa
                rec['outcome'] = 'ERR %s: %s' % (type(ex).__name__, str(ex)[:160])
            rec['warnings'] = list(cap.msgs)
            if dec.calls:
                Tt, syn, kw = dec.calls[0]
                rec['rows'] = [bitstr(r) for r in syn]
                rec['time_steps'] = int(Tt)
                rec['step_errors'] = [bitstr(e) for e in kw.get('step_errors', [])]
                rec['step_flips'] = [bitstr(e) for e in kw.get('step_measurement_errors', [])]
                rec['q_eff'] = kw.get('measurement_error_probability')
            r = dec.result
            if r is not None:
                if isinstance(r, DecodeResult):
                    rec['dr'] = True
                    rec['dr_success'] = r.success
                    rec['dr_lc_none'] = r.logical_commutations is None
                    rcv = r.custom_values
                    rec['dr_cv'] = None if rcv is None else [int(x) for x in np.asarray(rcv).ravel().tolist()]
                    rr = r.recovery
                else:
                    rec['dr'] = False
                    rr = r
                if rr is not None:
                    a = np.asarray(rr)
                    rec['recovery'] = zoo.digits(a) if a.ndim == 1 and a.dtype != object else None
                    rec['dtype'] = str(a.dtype)
            rec['tparity'] = dict(trec)
            out.append(rec)
    finally:
        lg.removeHandler(cap)
    return {'id': job['id'], 'results': out}


def run(ctx):
    logging.getLogger('qecsim').setLevel(logging.CRITICAL)
    rng = ctx.rng
    quick = ctx.quick
    Tmax = ctx.pick(6, 10)
    ctx.rule = ('real run_once_ftp with RotatedPlanarSMWPMDecoder / RotatedToricSMWPMDecoder(itp in {False,True}); sizes '
                'square/non-square/minimal; T in 1..%d; p in %r x q in %r (every corner: p=0 with q>0, q=0, q=1, q '
                'defaulted); eta given or derived from the context model (infinite bias => the model generates Y-only '
                'errors); scripted flip sequences (single flip at t=T-1, the same flip at every t, flips at t=0 and '
                't=T-1); one decoder object reused over histories of 2-4 runs with different context models (bias re-derived each time); logging level of the qecsim loggers DEBUG / WARNING / ERROR per job. nontrivial = T >= 2 with at least one flip and one non-zero syndrome row' % (Tmax, PS, QS))
    ctx.props_obligations()
    jobs, meta = [], {}
    codes = {}
    mat_lines = []
    fams = [('rotatedplanar', 'RotatedPlanarSMWPMDecoder'), ('rotatedtoric', 'RotatedToricSMWPMDecoder')]
    runs_per_cfg = ctx.pick(8, 32)
    for fam, dname in fams:
        for sz in zoo.sizes(fam, quick):
            cs = (fam, tuple(sz))
            code = zoo.make_code(cs)
            n = code.n_k_d[0]
            m = code.stabilizers.shape[0]
            codes[cs] = (code, n, zoo.code_name(cs), zoo.stab_letter_codes(code.stabilizers))
            mat_lines.append('mat %s %s' % (zoo.code_name(cs), rowsstr(code.stabilizers)))
            big = n > 30
            # ---- the (p, q) grid, every corner, random T / model / eta ----
            for p in PS:
                for q in QS:
                    heavy = p >= 0.3 and n > 20       # dense defect sets: the matcher is cubic in their number
                    for rep in range(max(1, runs_per_cfg // 8) if heavy else (runs_per_cfg if not big else max(1, runs_per_cfg // 2))):
                        eta = rng.choice(ETAS)
                        ds = (dname, (eta,)) if fam == 'rotatedplanar' else (dname, (rng.choice([False, False, True]), eta))
                        dec = zoo.make_decoder(ds)
                        ems = rng.choice(EM_SPECS)
                        try:
                            dec._bias(zoo.make_error_model(ems))
                        except ValueError:
                            ctx.hist['out-of-domain context (documented ValueError), redrawn'] += 1
                            ems = ('BiasedDepolarizingErrorModel', (10, 'Y'))
                        T = rng.choice([1, 1, 2, 2, 3]) if rep == 0 else rng.randint(1, 4 if heavy else (Tmax if not big else min(Tmax, 5)))
                        jid = len(jobs)
                        jobs.append({'id': jid, 'code': cs, 'decoder': ds,
                                     'runs': [{'T': T, 'p': p, 'q': q, 'em': ems, 'seed': rng.getrandbits(32)}]})
                        meta[jid] = 'grid'
            # ---- scripted flip sequences stressing the periodic wrap ----
            for rep in range(ctx.pick(24, 120)):
                T = rng.randint(2, Tmax if not big else min(Tmax, 5))
                eta = rng.choice([0.5, 10, None])
                ds = (dname, (eta,)) if fam == 'rotatedplanar' else (dname, (rng.choice([False, True]), eta))
                kind = rng.choice(['last-step', 'every-step', 'first-and-last', 'two-bits-last'])
                f = np.zeros(m, dtype=int)
                f[rng.randrange(m)] = 1
                if kind == 'two-bits-last':
                    f[rng.randrange(m)] = 1
                z = np.zeros(m, dtype=int)
                if kind in ('last-step', 'two-bits-last'):
                    flips = [z] * (T - 1) + [f]
                elif kind == 'every-step':
                    flips = [f] * T
                else:
                    flips = [f] + [z] * (T - 2) + [f] if T >= 2 else [f]
                errs = []
                for t in range(T):
                    e = np.zeros(2 * n, dtype=int)
                    for _ in range(rng.choice([0, 0, 1, 2])):
                        qb = rng.randrange(n)
                        e[qb] ^= 1
                        e[n + qb] ^= 1        # Y errors (inside every noise domain)
                        if eta is not None and rng.random() < 0.5:
                            e[rng.choice([qb, n + qb])] ^= 1   # turn it into X or Z
                    errs.append(e)
                jid = len(jobs)
                jobs.append({'id': jid, 'code': cs, 'decoder': ds,
                             'runs': [{'T': T, 'p': rng.choice([0.05, 0.3]), 'q': rng.choice([0.05, 0.2, None]),
                                       'scripted': {'errors': [bitstr(e) for e in errs], 'flips': [bitstr(x) for x in flips]},
                                       'kind': kind}]})
                meta[jid] = 'scripted/' + kind
            # ---- one decoder object reused over a history of runs with different context models / T / p / q ----
            for rep in range(ctx.pick(10, 40) if not big else ctx.pick(3, 10)):
                eta = rng.choice([None, None, None, 10])
                ds = (dname, (eta,)) if fam == 'rotatedplanar' else (dname, (rng.choice([False, True]), eta))
                probe = zoo.make_decoder(ds)
                runs = []
                for _ in range(rng.randint(2, 4)):
                    ems = rng.choice(EM_SPECS)
                    try:
                        probe._bias(zoo.make_error_model(ems))
                    except ValueError:
                        ems = ('BitPhaseFlipErrorModel', ())
                    runs.append({'T': rng.randint(1, min(Tmax, 4)), 'p': rng.choice([0.05, 0.1, 0.3]),
                                 'q': rng.choice([None, 0.0, 0.1, 0.2]), 'em': ems, 'seed': rng.getrandbits(32)})
                jid = len(jobs)
                jobs.append({'id': jid, 'code': cs, 'decoder': ds, 'share_decoder': True, 'runs': runs})
                meta[jid] = 'shared-decoder-history'
    # ---- periodic time axis of the matching-graph distance (metamorphic: invariant under a time shift mod T) ----
    from qecsim.models.rotatedplanar import RotatedPlanarSMWPMDecoder as RP
    from qecsim.models.rotatedtoric import RotatedToricSMWPMDecoder as RTD
    for D, cs in ((RP, ('rotatedplanar', (4, 5))), (RTD, ('rotatedtoric', (4, 6)))):
        code = zoo.make_code(cs)
        plaqs = [tuple(i) for i in code._plaquette_indices]
        if cs[0] == 'rotatedplanar':
            plaqs = [i for i in plaqs if code.is_in_plaquette_bounds(i)]
        for T in range(2, ctx.pick(6, 9)):
            for _ in range(ctx.pick(40, 200)):
                (ax, ay), (bx, by) = rng.choice(plaqs), rng.choice(plaqs)
                at, bt = rng.randrange(T), rng.randrange(T)
                is_row = rng.random() < 0.5
                kw = dict(error_probability=0.1, measurement_error_probability=0.2, eta=10)

                def dist(t1, t2):
                    try:
                        return repr(float(D._distance(code, T, ((t1, ax, ay), is_row), ((t2, bx, by), is_row), **kw)))
                    except ValueError as ex:
                        return 'ValueError'
                d0 = dist(at, bt)
                d1 = dist((at + 1) % T, (bt + 1) % T)
                ctx.cmp('%s._distance: invariant under a time shift modulo T' % D.__name__,
                        {'code': zoo.code_name(cs), 'T': T, 'a': [at, ax, ay], 'b': [bt, bx, by], 'is_row': is_row}, d1, d0)
                ctx.count(None, False, 'distance-periodicity')
    for job in jobs:
        r_ = rng.random()
        job['loglevel'] = 'DEBUG' if r_ < 0.25 else ('ERROR' if r_ < 0.4 else 'WARNING')
        ctx.hist['loglevel=' + job['loglevel']] += 1
    results = zoo.run_pool(run_ftp_job, jobs)

    # ---- model requests ------------------------------------------------------------------------------
    req = []
    look = {}
    flat = [(job, i, res['results'][i]) for job, res in zip(jobs, results) for i in range(len(job['runs']))]
    for job, ri, r in flat:
        cs = job['code']
        code, n, cname, _ = codes[cs]
        if r.get('recovery') is not None and r.get('rows'):
            look[(job['id'], ri, 'rok')] = len(req)
            req.append('rokftp %s %d %s %s' % (cname, n, r['recovery'] or '-', ','.join(r['rows'])))
        tp = r.get('tparity') or {}
        if 'sym' in tp and 'clu' in tp:
            itp = job['decoder'][1][0]
            mea = tp.get('mea', (0, 0))
            look[(job['id'], ri, 'tpd')] = len(req)
            req.append('tpd %d %d %d %d %d %d %d %d %d' % (1 if itp else 0, job['runs'][ri]['T'],
                                                          1 if r.get('step_flips') else 0,
                                                          tp['sym'][0], tp['sym'][1], tp['clu'][0], tp['clu'][1], mea[0], mea[1]))
    # _tparity on a grid
    from qecsim.models.rotatedtoric import RotatedToricSMWPMDecoder as RT
    tp_cases = [(T, a, b) for T in range(1, 9) for a in range(-2, T + 2) for b in range(-2, T + 2)]
    tp_base = len(req)
    for T, a, b in tp_cases:
        req.append('tp %d %d %d' % (T, a, b))
    out = zoo.model_parallel(ctx, 'dec', req, prefix=mat_lines)
    for i, (T, a, b) in enumerate(tp_cases):
        impl = str(int(RT._tparity(T, a, b)))
        ctx.cmp('_tparity', (T, a, b), impl, out[tp_base + i])
        ctx.count(('tp', T, a, b), False, 'tparity-grid')
        if T == 1 and impl != '0':
            ctx.violation('tparity-T1', '_tparity reports a crossing with a single time step', {'T': T, 'a': a, 'b': b})

    kern = []
    for job, ri, r in flat:
        cs = job['code']
        code, n, cname, scodes = codes[cs]
        ds = job['decoder']
        run_ = job['runs'][ri]
        T = run_['T']
        kind = meta[job['id']]
        rep = {'code': [cs[0], list(cs[1])], 'decoder': [ds[0], list(ds[1])], 'T': T, 'p': run_['p'], 'q': run_['q'],
               'loglevel': job.get('loglevel'),
               'error_model': list(run_['em']) if 'em' in run_ else 'scripted', 'seed': run_.get('seed'),
               'scripted': run_.get('scripted'), 'step_errors': [zoo.bsf_to_letters([int(c) for c in e]) for e in r.get('step_errors', [])],
               'step_flips': r.get('step_flips'), 'rows': r.get('rows'), 'outcome': r['outcome'],
               'recovery': r.get('recovery'), 'dr_success': r.get('dr_success'), 'dr_cv': r.get('dr_cv')}
        if job.get('share_decoder'):
            rep['history'] = {'share_decoder': True, 'index': ri,
                              'runs': [dict(x, em=list(x['em'])) for x in job['runs'][:ri + 1]]}
        flips_any = any('1' in f for f in (r.get('step_flips') or []))
        rows_any = any('1' in f for f in (r.get('rows') or []))
        pq = 'p=%r,q=%r' % (run_['p'], run_['q'])
        ctx.count((zoo.code_name(cs), zoo.dec_name(ds), T, pq, run_.get('seed'), json.dumps(run_.get('scripted')), job['id'] if job.get('share_decoder') else None),
                  T >= 2 and flips_any and rows_any, '%s/%s' % (ds[0], kind),
                  {'code': cname, 'decoder': zoo.dec_name(ds), 'T': T, 'p': run_['p'], 'q': run_['q'], 'rows': r.get('rows'),
                   'recovery': r.get('recovery'), 'custom_values': r.get('dr_cv')} if (T == 3 and flips_any and rows_any and n <= 16) else None)
        ctx.hist[pq] += 1
        ctx.hist['T=%d' % T] += 1
        if 'em' in run_:
            ctx.hist['model/' + run_['em'][0]] += 1
        ctx.hist['eta=%r' % (ds[1][-1],)] += 1
        if r['outcome'] != 'ok':
            ctx.violation('raised', 'run_once_ftp raised: ' + r['outcome'], rep)
            continue
        if any(WARN in w for w in r['warnings']):
            ctx.violation('warning', "the 'RECOVERY DOES NOT RETURN TO CODESPACE' warning fired", rep)
        if r.get('recovery') is None:
            ctx.violation('shape', 'decode_ftp returned no 1-d recovery (dtype %s)' % r.get('dtype'), rep)
            continue
        # verified checker: syndrome(recovery) = XOR of all rows
        v = out[look[(job['id'], ri, 'rok')]]
        rec = r['recovery']
        rows = np.array([[int(c) for c in row] for row in r['rows']])
        xr = np.bitwise_xor.reduce(rows, axis=0)
        ok = len(rec) == 2 * n and set(rec) <= {'0', '1'}
        if ok:
            ra = np.array([int(c) for c in rec])
            ok = np.array_equal(zoo.letter_syndrome(scodes, ra), xr)
        ctx.cmp('recovery_ok_ftp vs independent letter-level', '%s T=%d' % (cname, T), '1' if ok else '0', v)
        if v != '1' or not ok:
            ctx.violation('syndrome', 'recovery syndrome is not the XOR of all syndrome rows (verified checker '
                          'recovery_ok_ftp = %s)' % v, rep)
        # the XOR of the rows is the syndrome of the total error (c03_target_equiv's premise, C01)
        tot = np.bitwise_xor.reduce(np.array([[int(c) for c in e] for e in r['step_errors']]), axis=0)
        if not np.array_equal(zoo.letter_syndrome(scodes, tot), xr):
            ctx.violation('row-parity', 'XOR of the syndrome rows is not the syndrome of the total error', rep)
        if len(r['rows']) != T or r.get('time_steps') != T:
            ctx.violation('rows', 'decoder did not receive T rows', rep)
        # rotated toric: time-parity vector
        if ds[0] == 'RotatedToricSMWPMDecoder':
            cv, su = r.get('dr_cv'), r.get('dr_success')
            if not r.get('dr') or cv is None or len(cv) != 2 or not set(cv) <= {0, 1}:
                ctx.violation('tparity-shape', 'custom_values is not a two-element 0/1 vector: %r' % (cv,), rep)
            else:
                if su not in (None, False):
                    ctx.violation('tparity-shape', 'decoder reported success=%r' % (su,), rep)
                if cv != [0, 0] and su is not False:
                    ctx.violation('tparity-zero', 'non-zero time parity %r without a declared time-like failure' % (cv,), rep)
                if su is False and cv == [0, 0]:
                    ctx.violation('tparity-zero', 'time-like failure declared with zero time parity', rep)
                if T == 1 and (su is not None or cv != [0, 0]):
                    ctx.violation('tparity-single-step', 'single-step decoding declared a time-like failure', rep)
                if ds[1][0] and (su is not None or cv != [0, 0]):
                    ctx.violation('tparity-itp', 'itp=True but a time-like failure was declared', rep)
                if r['custom_values'] != cv or (su is False and r['success'] is not False):
                    ctx.violation('tparity-passthrough', 'run data does not carry the decoder\'s verdict', rep)
            if (job['id'], ri, 'tpd') in look:
                m_ = out[look[(job['id'], ri, 'tpd')]]
                impl = ('_' if su is None else ('1' if su else '0')) + ' ' + (''.join(map(str, cv)) if cv is not None else '?')
                ctx.cmp('time-parity decision', req[look[(job['id'], ri, 'tpd')]], impl, m_)
        else:
            if r.get('dr') or r['custom_values'] is not None:
                pass  # rotated planar returns a bare recovery; nothing promised about custom values
        if len(kern) < 40 and n <= 16 and T >= 2 and rows_any and v == '1' and job['id'] % 5 == 0:
            kern.append((cs, rec, r['rows']))
    ctx.extra['runs'] = len(flat)
    ctx.notes.append('contexts whose derived bias is zero (BitFlip/PhaseFlip with eta=None) raise the documented ValueError '
                     'and are outside the stated noise domain: redrawn, counted in input_distribution')
    ctx.notes.append('Blossom V backend absent: NetworkX matching only')

    items = []
    for cs, rec, rows in kern:
        code, n, cname, _ = codes[cs]
        st = coq_list([coq_bits(row.tolist()) for row in code.stabilizers])
        items.append('(recovery_ok_ftp %s %d %s %s)' % (st, n, coq_list(['%s%%Z' % c for c in rec]),
                                                        coq_list([coq_bits([c == '1' for c in row]) for row in rows])))
    text = ('From Coq Require Import List Bool Arith NArith ZArith.\nFrom QV Require Import Core.Bits Core.Pauli Core.Symp '
            'Decoders.Checker.\nImport ListNotations.\n'
            'Definition checks : list bool :=\n [' + ';\n  '.join(items) + '].\n'
            'Example corr : forallb (fun b => b) checks = true.\nProof. vm_compute. reflexivity. Qed.\n')
    ctx.kernel_cases('sample', text)
    ctx.extra['kernel_cases'] = len(items)


_run_main = run


def run(ctx):   # noqa: F811
    """... then the recovery construction of RotatedPlanarSMWPMDecoder (_path_operator, _recovery) against the model of
    Decoders/SmwpmPath.v (engine build/qmodel_smp): harness/c03_path.py"""
    _run_main(ctx)
    from harness import c03_path
    import time
    t0 = time.time()
    main_violations = list(ctx.violations)   # Ctx.violation keeps at most 200: make room for the new phase
    del ctx.violations[:]
    try:
        c03_path.run_extra(ctx)
    finally:
        ctx.extra.setdefault('phase_seconds', {})['smwpm_path'] = round(time.time() - t0, 1)
        ctx.violations[:] = main_violations + ctx.violations
    # Ctx.finish prints the first five violations only: put one representative of every distinct key first
    seen, first, rest = set(), [], []
    for v in ctx.violations:
        (rest if v['key'] in seen else first).append(v)
        seen.add(v['key'])
    ctx.violations[:] = first + rest


def replay(path):
    d = json.load(open(path))
    r = d.get('replay', {})
    print(json.dumps(d, indent=1)[:3000])
    if str(r.get('kind', '')).startswith('smwpm-'):
        from harness import c03_path
        return c03_path.replay(r)
    if 'code' not in r:
        return 0
    cs = (r['code'][0], tuple(r['code'][1]))
    ds = (r['decoder'][0], tuple(r['decoder'][1]))
    run_ = {'T': r['T'], 'p': r['p'], 'q': r['q']}
    if r.get('scripted'):
        run_['scripted'] = r['scripted']
    else:
        em = r['error_model']
        run_['em'] = (em[0], tuple(tuple(x) if isinstance(x, list) else x for x in em[1]))
        run_['seed'] = r['seed']
    zoo._init_worker()
    if r.get('history'):
        runs = [dict(x, em=(x['em'][0], tuple(tuple(y) if isinstance(y, list) else y for y in x['em'][1]))) for x in r['history']['runs']]
        res = run_ftp_job({'id': 0, 'code': cs, 'decoder': ds, 'share_decoder': True, 'runs': runs, 'loglevel': r.get('loglevel')})['results'][-1]
    else:
        res = run_ftp_job({'id': 0, 'code': cs, 'decoder': ds, 'runs': [run_], 'loglevel': r.get('loglevel')})['results'][0]
    print('outcome now:', {k: res.get(k) for k in ('outcome', 'rows', 'recovery', 'dr_success', 'dr_cv', 'warnings')})
    code = zoo.make_code(cs)
    bad = 1
    if res.get('recovery') is not None and res.get('rows'):
        ctx = Ctx('C03', 'quick', 0)
        o = ctx.model('dec', ['mat c ' + rowsstr(code.stabilizers),
                              'rokftp c %d %s %s' % (code.n_k_d[0], res['recovery'], ','.join(res['rows']))])
        print('recovery_ok_ftp =', o[1])
        bad = 0 if (o[1] == '1' and res['outcome'] == 'ok' and not res['warnings']) else 1
    print('REPRODUCED' if bad else 'not reproduced (syndrome/raise/warning clauses)')
    return bad
