"""C10, network correspondence: the tensor network that PlanarMPSDecoder.TNC.create_tn(prob_dist, sample_pauli) really
builds, compared SITE BY SITE (shape and every entry, exactly) with the Gallina network `planar_network` of
Tensor/CosetNetwork.v, for which Props/C10.v proves - for all sizes - that its value, its column sweep in both directions,
every split and the transposed network's sweep equal the coset probability (c10_planar_network_value, _sweep, _split,
_transposed_sweep, _mixed_split).  Engine: build/qmodel_c10n (coq/extract/ExtractC10N.v, model data Tensor/PlanarNetZ.v).

* create_tn of PlanarMPSDecoder: array shape, every site's shape (n, e, s, w) and every entry.  The model runs over the
  integers: the distribution is passed as numerators over the common power-of-two denominator D of the four floats, so a
  qubit node (row + col even) must carry exactly numerator / D in every entry, a stabilizer node (row + col odd) exactly
  0 / 1; the model value is then the numerator of the coset probability over D^n.
* tt.mps2d.contract of that network (step None / 1 / -1), of the transposed network, the decoder's split (all columns but
  the last, inner product with the last) on both, and _coset_probabilities (modes c, r, a; chi, tol, stp unset, in rotation
  over the documented spellings of 'unset' of harness/c10_spell.py: omitted / None / 0 / 0.0, keyword / positional / CLI) of
  PlanarMPSDecoder and PlanarRMPSDecoder against the model's sweep value: EXACTLY when the distribution consists of powers
  of two and the lattice is small enough for every float intermediate to be exact, to 1e-9 relative otherwise.
* model value = exact coset sum computed independently by c10.GroupOracle (Python integers) on sizes with n <= 18.
* PlanarRMPSDecoder.TNC.create_tn is NOT the rotated arrangement of the same nodes: it has one node per qubit only, with
  the delta (stabilizer) tensors multiplied into the qubit nodes and pairs of legs fused to dimension 4, at rotated array
  positions.  There is no Gallina model of that network.  What is compared: every site of the real network against the
  MODEL's qubit-node tensor at that qubit (from the engine) fused by a harness-side rule (leg patterns below, independent of
  numpy.einsum), None exactly at the array positions that are not the image of a qubit; and its contraction value."""
import time
from fractions import Fraction

import numpy as np

from harness.common import bitstr
from harness import c10 as c10m

REL = Fraction(1, 10 ** 9)


# ---------------------------------------------------------------------------------------------------------------
def dist_ints(dist):
    return c10m.dist_ints(dist)


def hexz(v):
    return hex(int(v))


def entry_int(x, D):
    """float entry -> integer numerator over D (None if it is not one)"""
    key = (float(x), D)
    if key not in _ENTRY:
        fr = Fraction(float(x)) * D          # exact: a float is a dyadic rational
        _ENTRY[key] = int(fr) if fr.denominator == 1 else None
    return _ENTRY[key]


_ENTRY = {}


def site_string(t, D):
    """canonical string of an implementation site: '_' or 'n.e.s.w:v,v,...' (C order, integer numerators, hex)"""
    if t is None:
        return '_'
    t = np.asarray(t)
    if t.ndim != 4:
        return 'ndim%d' % t.ndim
    vals = []
    for x in t.flatten(order='C'):
        v = entry_int(x, D)
        vals.append('frac(%r)' % float(x) if v is None else hexz(v))
    return '%d.%d.%d.%d:%s' % (tuple(t.shape) + (','.join(vals),))


def parse_site(s):
    if s == '_':
        return None
    dims, vals = s.split(':')
    shape = tuple(int(x) for x in dims.split('.'))
    return np.array([int(v, 16) for v in vals.split(',')], dtype=object).reshape(shape)


def is_pow2(x):
    fr = Fraction(float(x))
    return fr == 0 or (fr.numerator == 1 or fr.denominator == 1) and (fr.numerator & (fr.numerator - 1)) == 0


def exact_floats(dist, n):
    """True when every intermediate of any contraction order is exactly representable: all entries are powers of two
    (or 0), every intermediate is a non-negative integer multiple of 2^(-m n) (m = largest negative exponent) and is
    bounded by 2^(n-1) max(1, largest entry)^n (one free bit per stabilizer node)."""
    if not all(is_pow2(p) for p in dist):
        return False
    nz = [Fraction(float(p)) for p in dist if p]
    m = max([0] + [f.denominator.bit_length() - 1 for f in nz])
    hi = max([0] + [f.numerator.bit_length() - 1 for f in nz])
    return m * n + (n - 1) + hi * n <= 53


# ---- PlanarRMPSDecoder: leg patterns of the fused nodes (north, east, south, west); n e s w are the bare node's own
# indices, i j k l I J K L the delta legs with  n = I = j,  e = J = k,  s = K = l,  w = L = i  (create_h_node / create_v_node)
RMPS_H = {
    'n': (['n'], [], ['e', 'K'], ['l', 'w']),
    'ne': (['n'], ['e'], [], ['s', 'w']),
    'e': (['i', 'n'], ['e'], [], ['s', 'L']),
    'se': (['w', 'n'], ['e'], ['s'], []),
    's': (['w', 'I'], ['j', 'e'], ['s'], []),
    'sw': ([], ['n', 'e'], ['s'], ['w']),
    'w': ([], ['n', 'J'], ['k', 's'], ['w']),
    'nw': (['n'], [], ['e', 's'], ['w']),
    '': (['i', 'I'], ['j', 'J'], ['k', 'K'], ['l', 'L']),
}
RMPS_V = (['I', 'i'], ['J', 'j'], ['K', 'k'], ['L', 'l'])
CLASS = {'n': 0, 'I': 0, 'j': 0, 'e': 1, 'J': 1, 'k': 1, 's': 2, 'K': 2, 'l': 2, 'w': 3, 'L': 3, 'i': 3}


def fuse(bare, pattern):
    """the fused node: entry at the (merged) leg indices = bare[n, e, s, w] if all symbols of each class carry the same
    value, else 0; a leg merges its symbols in C order; a bare index of dimension 1 is 0"""
    bshape = bare.shape
    symdim = {}
    for leg in pattern:
        for sy in leg:
            symdim[sy] = bshape['nesw'.index(sy)] if sy in 'nesw' else 2
    legdims = [int(np.prod([symdim[sy] for sy in leg])) if leg else 1 for leg in pattern]
    out = np.zeros(legdims, dtype=object)
    for idx in np.ndindex(*legdims):
        vals = [None, None, None, None]
        ok = True
        for leg, li in zip(pattern, idx):
            rem = li
            for sy in reversed(leg):
                v = rem % symdim[sy]
                rem //= symdim[sy]
                c = CLASS[sy]
                if vals[c] is None:
                    vals[c] = v
                elif vals[c] != v:
                    ok = False
        if ok:
            b = tuple(0 if v is None else v for v in vals)
            if all(b[k] < bshape[k] for k in range(4)):
                out[idx] = bare[b]
            else:
                out[idx] = 0
    return out


def rmps_expected(code, sites):
    """expected PlanarRMPSDecoder network (2-d list of None / object arrays of ints) from the model's sites"""
    rows, cols = code.size
    bR, bC = code.bounds
    shape = (rows + cols - 1, rows + cols - 1)   # _rotate_q_index: (r/2 + c/2, rows - 1 - r/2 + c/2)
    out = [[None] * shape[1] for _ in range(shape[0])]
    for r in range(bR + 1):
        for c in range(bC + 1):
            if (r % 2, c % 2) == (0, 0):
                direction = {0: 'n', bR: 's'}.get(r, '') + {0: 'w', bC: 'e'}.get(c, '')
                pat = RMPS_H[direction]
            elif (r % 2, c % 2) == (1, 1):
                pat = RMPS_V
            else:
                continue
            tr, tc = (r + c) // 2, rows - 1 + (c - r) // 2
            out[tr][tc] = fuse(sites[r][c], pat)
    return shape, out


def int_site_string(t):
    if t is None:
        return '_'
    return '%d.%d.%d.%d:%s' % (tuple(t.shape) + (','.join(hexz(v) for v in t.flatten(order='C')),))


# ---------------------------------------------------------------------------------------------------------------
DISTS = [
    ('pow2 1/2,1/4,1/8,1/8', (0.5, 0.25, 0.125, 0.125)),
    ('pow2 distinct 1,1/2,1/4,0', (1.0, 0.5, 0.25, 0.0)),
    ('pow2 distinct 1/2,1/4,1,2', (0.5, 0.25, 1.0, 2.0)),
    ('dyadic distinct 5/8,3/16,1/8,1/16', (0.625, 0.1875, 0.125, 0.0625)),
    ('ratio distinct .7,.1,.15,.05', (0.7, 0.1, 0.15, 0.05)),
    ('depolarizing 0.1', (0.9, 0.1 / 3, 0.1 / 3, 0.1 / 3)),
    ('bit-flip 1/4', (0.75, 0.25, 0.0, 0.0)),
    ('biased Z', (0.8, 0.01, 0.01, 0.18)),
]


def rand_dyadic(rng):
    v = rng.sample(range(1, 256), 4)
    return ('random dyadic /256', tuple(x / 256.0 for x in v))


def samples_for(ctx, code, dec_cls, k_random):
    """structured and random sample Paulis: identity, sample_recovery of random syndromes, the same times logicals,
    uniformly random Paulis, all-Y, a single letter on one qubit"""
    rng = ctx.rng
    n = code.n_k_d[0]
    m = code.stabilizers.shape[0]
    LX, LZ = code.logical_xs[0], code.logical_zs[0]
    out = [('identity', np.zeros(2 * n, dtype=int))]
    for _ in range(k_random):
        syn = np.array([rng.random() < rng.choice([0.15, 0.5]) for _ in range(m)], dtype=int)
        f = dec_cls.sample_recovery(code, syn).to_bsf()
        out.append(('sample_recovery', f))
        lg = rng.choice([LX, LZ, LX ^ LZ])
        out.append(('sample_recovery x logical', f ^ lg))
    for _ in range(k_random):
        out.append(('random', np.array([rng.randrange(2) for _ in range(2 * n)], dtype=int)))
    out.append(('all-Y', np.ones(2 * n, dtype=int)))
    one = np.zeros(2 * n, dtype=int)
    q = rng.randrange(n)
    lt = rng.choice('XYZ')
    one[q] = int(lt in 'XY')
    one[n + q] = int(lt in 'ZY')
    out.append(('single ' + lt, one))
    out.append(('logical X', LX.copy()))
    return out


def contract_level(ctx, code, di, si, exact, big_d=False):
    """which of the generated networks are also contracted (the exact sweep costs 4^columns, and the model engine works
    with integers of n log2(D) bits: distributions that are not dyadic have D near 2^56): (engine command or None, whether
    the four candidates' values are compared with _coset_probabilities)"""
    rows, cols = code.size
    n = code.n_k_d[0]
    big = 2 * max(rows, cols) - 1
    if big_d:
        if big <= 5:
            if not ctx.quick:
                return 'sweep', True
            if n > 8:       # 3x3
                return ('sweep' if si == 1 else None), False
            return ('sweep' if si < 2 else None), si == 1
        if big <= 7 and n <= 13 and not ctx.quick:
            return ('sweep' if si < 2 else None), False
        return None, False
    if big <= 5:        # 2x2 .. 3x3
        if not ctx.quick:
            return 'vals', True
        return ('vals' if si < 4 else 'sweep'), (exact or si in (1, 2))
    if big <= 7 and n <= 13:      # 2x4, 4x2
        if not ctx.quick:
            return ('vals' if si < 3 else 'sweep'), (exact or si < 3)
        return (('vals' if (di == 0 and si == 1) else 'sweep' if (si < 3 and (di < 3 or exact)) else None),
                ((exact and si < 3) or (si == 1 and di < 2)))
    if big <= 7 and n <= 18:      # 3x4, 4x3
        if not ctx.quick:
            return ('vals' if (di == 0 and si == 1) else 'sweep' if si < 4 else None), ((exact and si < 4) or si == 1)
        return ('sweep' if si == 1 and (di < 2 or exact) else None), (exact and si == 1)
    if big <= 7 and not ctx.quick:    # 4x4
        return ('sweep' if si == 1 and di < 2 else None), False
    return None, False


def frac_of(x):
    return c10m.to_frac(x)


def run_extra(ctx):
    import logging
    logging.getLogger('qecsim').setLevel(logging.CRITICAL)
    from qecsim.models.planar import PlanarCode, PlanarMPSDecoder, PlanarRMPSDecoder
    from qecsim import tensortools as tt
    rng = ctx.rng
    t0 = time.time()
    sizes = [(r, c) for r in range(2, 5) for c in range(2, 5)] + [(5, 5), (2, 5), (5, 3)]
    if not ctx.quick:
        sizes = [(r, c) for r in range(2, 6) for c in range(2, 6)] + [(6, 6), (2, 7), (7, 3)]
    req, exp = [], []                      # engine requests / (kind, payload)
    cases = []
    for (rows, cols) in sizes:
        code = PlanarCode(rows, cols)
        n = code.n_k_d[0]
        k = min(len(DISTS), ctx.pick(3, 5))
        start = rng.randrange(len(DISTS))
        dists = [DISTS[(start + 3 * i) % len(DISTS)] for i in range(k)] + [rand_dyadic(rng)]
        if contract_level(ctx, code, 0, 1, True)[0] and not any(exact_floats(d[1], n) for d in dists):
            dists.insert(0, DISTS[1])
        for di, (dname, dist) in enumerate(dists):
            a, D = dist_ints(dist)
            smp = samples_for(ctx, code, PlanarMPSDecoder, ctx.pick(1, 3))
            for si, (sname, f) in enumerate(smp):
                level, cands = contract_level(ctx, code, di, si, exact_floats(dist, n), D > 2 ** 16)
                cases.append((code, dname, dist, a, D, sname, np.asarray(f, dtype=int), (level, cands)))
    # ---- requests -------------------------------------------------------------------------------------------------
    for ci, (code, dname, dist, a, D, sname, f, contract) in enumerate(cases):
        rows, cols = code.size
        tail = '%d %d %s %s' % (rows, cols, bitstr(f), ' '.join(hexz(v) for v in a))
        req.append('net ' + tail)
        exp.append(('net', ci))
        if contract[0]:
            n = code.n_k_d[0]
            req.append(contract[0] + ' ' + tail)
            exp.append(('vals', ci))
            LX, LZ = code.logical_xs[0], code.logical_zs[0]
            if contract[1]:
                for lg in (LX, LX ^ LZ, LZ):
                    req.append('sweep %d %d %s %s' % (rows, cols, bitstr(f ^ lg), ' '.join(hexz(v) for v in a)))
                    exp.append(('cand', ci))
            if n <= 5:
                req.append('value ' + tail)
                exp.append(('value', ci))
                req.append('coset ' + tail)
                exp.append(('coset', ci))
    t1 = time.time()
    out = ctx.model('c10n', req, timeout=3000)
    t_engine = time.time() - t1
    replies = {}
    for (kind, ci), o in zip(exp, out):
        replies.setdefault(ci, {}).setdefault(kind, []).append(o)
    # ---- comparison -----------------------------------------------------------------------------------------------
    tnc = PlanarMPSDecoder.TNC()
    rtnc = PlanarRMPSDecoder.TNC()
    from harness import c10_spell
    builder = c10_spell.Builder()
    cycle = c10_spell.SpellCycle(builder)     # documented spellings of 'chi / stp / tol unset', round-robin
    oracles = {}
    kern_cand = {}
    first_bad = []
    kern_val = {}
    n_sites = n_rsites = n_contr = n_exact = 0
    for ci, (code, dname, dist, a, D, sname, f, contract) in enumerate(cases):
        rows, cols = code.size
        n = code.n_k_d[0]
        rep0 = {'check': 'c10_net', 'code': repr(code), 'dist': [float(p).hex() for p in dist], 'sample': bitstr(f),
                'sample_kind': sname, 'dist_kind': dname}
        pauli = code.new_pauli(f)
        toks = replies[ci]['net'][0].split(' ')
        R, C = int(toks[0]), int(toks[1])
        model_sites = [[toks[2 + r * C + c] for c in range(C)] for r in range(R)]
        try:
            tn = tnc.create_tn(tuple(dist), pauli)
        except Exception as e:  # noqa
            ctx.violation('exception', 'create_tn raised ' + c10m.exc_class(e), rep0)
            continue
        nontriv = bool(f.any()) and len(set(dist)) == 4
        ctx.count(('net', repr(code), bitstr(f), tuple(dist)), nontriv, 'network %dx%d' % (rows, cols),
                  {'code': repr(code), 'dist': list(dist), 'sample': bitstr(f), 'sites': R * C} if ci == 5 else None)
        ctx.cmp('create_tn array shape', rep0, '%d %d' % tuple(tn.shape) if getattr(tn, 'ndim', 0) == 2 else repr(getattr(tn, 'shape', None)),
                '%d %d' % (R, C))
        if getattr(tn, 'shape', None) != (R, C):
            ctx.violation('network-node', 'create_tn returns an array of shape %r, the model network has %d x %d sites'
                          % (getattr(tn, 'shape', None), R, C), rep0)
            continue
        bad = None
        for r in range(R):
            for c in range(C):
                got = site_string(tn[r, c], D if (r + c) % 2 == 0 else 1)
                n_sites += 1
                if not ctx.cmp('create_tn site', dict(rep0, site=[r, c]), got, model_sites[r][c]) and bad is None:
                    bad = (r, c, got)
        ctx.count(None, False, 'site tensors compared', n=R * C - 1)
        if bad is not None:
            r, c, got = bad
            first_bad.append({'code': repr(code), 'site': [r, c], 'expected': model_sites[r][c], 'got': got, 'sample': bitstr(f),
                              'dist': [float(p).hex() for p in dist]})
            ctx.violation('network-node', 'site (%d, %d) of the network built by PlanarMPSDecoder.TNC.create_tn for the %dx%d code '
                          'differs from the model network (shape n.e.s.w : entries over the common denominator)' % (r, c, rows, cols),
                          dict(rep0, size=[rows, cols], site=[r, c], expected=model_sites[r][c], got=got, denominator=hexz(D)))
        if n <= 13 and f.any() and len(set(dist)) == 4 and bad is None and sname != 'all-Y' and len(kern_cand.get((rows, cols), [])) < 6:
            kern_cand.setdefault((rows, cols), []).append((ci, a, f, tn, D))
        # ---- PlanarRMPSDecoder network: fused qubit nodes at rotated positions -------------------------------------
        if ci % ctx.pick(3, 1) == 0 or n <= 5:
            try:
                rtn = rtnc.create_tn(tuple(dist), pauli)
            except Exception as e:  # noqa
                ctx.violation('exception', 'PlanarRMPSDecoder create_tn raised ' + c10m.exc_class(e), rep0)
                rtn = None
            if rtn is not None:
                shape, want = rmps_expected(code, [[parse_site(model_sites[r][c]) for c in range(C)] for r in range(R)])
                ctx.count(None, False, 'rmps network %dx%d' % (rows, cols))
                if tuple(rtn.shape) != shape:
                    ctx.violation('network-node-rmps', 'PlanarRMPSDecoder create_tn returns an array of shape %r, expected %r'
                                  % (tuple(rtn.shape), shape), rep0)
                else:
                    rbad = None
                    for r in range(shape[0]):
                        for c in range(shape[1]):
                            got = site_string(rtn[r, c], D)
                            w = int_site_string(want[r][c])
                            n_rsites += 1
                            if not ctx.cmp('PlanarRMPSDecoder create_tn site (model qubit node fused with deltas)',
                                           dict(rep0, site=[r, c]), got, w) and rbad is None:
                                rbad = (r, c, got, w)
                    ctx.count(None, False, 'rmps site tensors compared', n=shape[0] * shape[1] - 1)
                    if rbad is not None:
                        r, c, got, w = rbad
                        ctx.violation('network-node-rmps', 'site (%d, %d) of the network built by PlanarRMPSDecoder.TNC.create_tn for '
                                      'the %dx%d code differs from the model qubit node fused with its delta tensors' % (r, c, rows, cols),
                                      dict(rep0, size=[rows, cols], site=[r, c], expected=w[:400], got=got[:400], denominator=hexz(D)))
        # ---- contraction values ------------------------------------------------------------------------------------
        if not contract[0]:
            continue
        vals = replies[ci]['vals'][0].split(' ')
        if any(v != vals[0] for v in vals) or vals[0] == 'None':
            ctx.cmp('model: every contraction order gives one number', rep0, ' '.join(vals), ' '.join([vals[0]] * len(vals)))
            continue
        mv = int(vals[0], 16)
        Dn = Fraction(D) ** n
        exact = exact_floats(dist, n)
        if n <= 5:
            ctx.cmp('model: Net.value = sweep', rep0, replies[ci]['value'][0], hexz(mv))
            ctx.cmp('model: coset_prob = sweep', rep0, replies[ci]['coset'][0], hexz(mv))
        if n <= 18:
            key = repr(code)
            if key not in oracles:
                oracles[key] = c10m.GroupOracle(code)
            ctx.cmp('model sweep value vs exact group sum (Python integers)', rep0, hexz(oracles[key].coset_int(f, a)), hexz(mv))
        # implementation: full contractions, transposed, splits
        impl = {}
        try:
            impl['contract'] = tt.mps2d.contract(tn)
            impl['contract step=1'] = tt.mps2d.contract(tn, step=1)
            impl['contract step=-1'] = tt.mps2d.contract(tn, step=-1)
            ttn = tt.mps2d.transpose(tn)
            impl['contract transposed'] = tt.mps2d.contract(ttn)
            bra, mult = tt.mps2d.contract(tn, stop=-1)
            impl['split last column'] = tt.mps.inner_product(bra, tn[:, -1]) * mult
            bra, mult = tt.mps2d.contract(ttn, stop=-1)
            impl['split last row'] = tt.mps.inner_product(bra, ttn[:, -1]) * mult
            if ci % ctx.pick(3, 1) == 0 or n <= 5:
                impl['rmps network contract'] = tt.mps2d.contract(rtnc.create_tn(tuple(dist), pauli))
        except Exception as e:  # noqa
            ctx.violation('exception', 'contraction of the network raised ' + c10m.exc_class(e), rep0)
            continue
        n_contr += 1
        n_exact += int(exact)
        ctx.count(('contract', repr(code), bitstr(f), tuple(dist)), nontriv, 'contraction %s' % ('exact' if exact else '1e-9'))
        fr0 = frac_of(impl['contract'])
        if exact and fr0 is not None and (fr0 * Dn).denominator == 1:
            kern_val[ci] = int(fr0 * Dn)      # the IMPLEMENTATION's number, re-checked in the kernel
        want = Fraction(mv) / Dn
        for name, v in impl.items():
            fr = frac_of(v)
            if exact:
                ok = ctx.cmp('network ' + name, rep0, 'None' if fr is None else hexz(fr * Dn) if (fr * Dn).denominator == 1 else str(fr * Dn),
                             hexz(mv))
            else:
                ok = fr is not None and abs(fr - want) <= REL * want
            if not ok:
                ctx.violation('network-contraction', '%s of the network built by create_tn is %s, the model network contracts to %s%s'
                              % (name, None if fr is None else float(fr), float(want), ' (exact comparison)' if exact else ''),
                              dict(rep0, what=name, got=str(v), expected=str(float(want)), expected_numerator=hexz(mv), denominator=hexz(D)))
                break
        # _coset_probabilities, chi = tol = stp = None
        if 'cand' in replies[ci]:
            cand = [mv] + [int(x, 16) for x in replies[ci]['cand']]
            for dcls in (PlanarMPSDecoder, PlanarRMPSDecoder):
                for mode in (('a',) if (dcls is PlanarRMPSDecoder and ctx.quick) else ('c', 'r', 'a')):
                    # the decoder "with chi, tol, stp unset" in one of the documented equivalent spellings (omitted / None / 0 /
                    # 0.0; keyword / positional / command-line constructor string), in rotation
                    sp = cycle.next(dcls.__name__, mode)
                    repc = dict(rep0, construct=sp.record())
                    try:
                        dec = builder.construct(repc['construct'])
                    except Exception as e:  # noqa
                        ctx.violation('unset-spelling-constructor', 'a documented spelling of unset parameters is rejected: '
                                      '%s raised %s' % (sp.text, c10m.exc_class(e)), repc)
                        continue
                    try:
                        ps, _ = dec._coset_probabilities(tuple(dist), pauli.copy())
                    except Exception as e:  # noqa
                        ctx.violation('exception', '_coset_probabilities raised ' + c10m.exc_class(e), dict(repc, decoder=repr(dec)))
                        continue
                    ctx.count(None, False, '%s._coset_probabilities mode=%s vs model network' % (dcls.__name__, mode))
                    for k in range(4):
                        fr = frac_of(ps[k])
                        wk = Fraction(cand[k]) / Dn
                        if exact:
                            ok = ctx.cmp('%s._coset_probabilities[%s] mode=%s' % (dcls.__name__, 'IXYZ'[k], mode), repc,
                                         'None' if fr is None else hexz(fr * Dn) if (fr * Dn).denominator == 1 else str(fr * Dn), hexz(cand[k]))
                        else:
                            ok = fr is not None and abs(fr - wk) <= REL * wk
                        if not ok:
                            ctx.violation('network-coset-probability', '%s mode=%s (constructed as %s): coset %s probability %s, the '
                                          'model network of that candidate contracts to %s'
                                          % (dcls.__name__, mode, sp.text, 'IXYZ'[k], ps[k], float(wk)),
                                          dict(repc, decoder=repr(dec), coset='IXYZ'[k], got=str(ps[k]), expected=str(float(wk))))
                            break
    ctx.extra['network_correspondence'] = {
        'engine_requests': len(req), 'networks': len(cases), 'site_tensors_compared': n_sites,
        'rmps_site_tensors_compared': n_rsites, 'networks_contracted': n_contr, 'of_which_float_exact': n_exact,
        'engine_seconds': round(t_engine, 1), 'seconds': round(time.time() - t0, 1),
        'networks_with_a_differing_site': len(first_bad), 'first_differing_site': first_bad[0] if first_bad else None}
    ctx.trusted.append('c10_net: the rule fusing a qubit node with its delta tensors for PlanarRMPSDecoder (leg patterns RMPS_H / RMPS_V) '
                       'is harness code; PlanarMPSDecoder networks are compared with the Gallina network directly')
    # ---- in-kernel shard: the implementation's tensors = the Gallina network, by vm_compute -----------------------------
    from harness.common import coq_bits
    ex = []
    kern = []
    for (rows, cols), cl in sorted(kern_cand.items()):
        withval = [x for x in cl if x[0] in kern_val]
        kern.append(((rows, cols),) + (withval or cl)[0])
    kern = kern[:ctx.pick(3, 6)]
    for i, ((rows, cols), kci, a, f, tn, D) in enumerate(kern):
        mv = kern_val.get(kci)
        sites = [[site_string(tn[r, c], D if (r + c) % 2 == 0 else 1) for c in range(tn.shape[1])] for r in range(tn.shape[0])]
        def lit(s):
            if s == '_':
                return 'None'
            dims, vals = s.split(':')
            return 'Some ((%s)%%nat, [%s]%%Z)' % (', '.join(dims.split('.')), '; '.join(str(int(v, 16)) for v in vals.split(',')))
        body = '[' + ';\n   '.join('[' + '; '.join(lit(s) for s in row) + ']' for row in sites) + ']'
        av = '(%d, %d, %d, %d)%%Z' % tuple(a)
        ex.append('Example net%d : planar_sitesZ %s %d %d %s =\n  %s.\nProof. vm_compute. reflexivity. Qed.\n'
                  % (i, av, rows, cols, coq_bits(list(map(int, f))), body))
        if mv is not None:
            ex.append('Example sweep%d : planar_sweepZ %s %d %d %s None = Some (%d)%%Z.\nProof. vm_compute. reflexivity. Qed.\n'
                      % (i, av, rows, cols, coq_bits(list(map(int, f))), mv))
    text = ('From Coq Require Import List Bool Arith NArith ZArith.\nFrom QV Require Import Core.Bits Tensor.Sums Tensor.PlanarNetZ.\n'
            'Import ListNotations.\nOpen Scope Z_scope.\n' + '\n'.join(ex))
    ctx.kernel_cases('network', text)
    ctx.extra['network_correspondence']['kernel_examples'] = len(ex)
    ctx.extra['network_correspondence']['seconds'] = round(time.time() - t0, 1)


# ---------------------------------------------------------------------------------------------------------------
def replay_dict(rep):
    """re-run one recorded network comparison (PlanarMPSDecoder.TNC.create_tn against the model engine)"""
    import logging
    logging.getLogger('qecsim').setLevel(logging.CRITICAL)
    from harness.common import Ctx
    from qecsim.models.planar import PlanarCode, PlanarMPSDecoder, PlanarRMPSDecoder  # noqa
    from qecsim import tensortools as tt
    code = eval(rep['code'])
    dist = tuple(float.fromhex(h) for h in rep['dist'])
    f = np.array([int(ch) for ch in rep['sample']], dtype=int)
    a, D = dist_ints(dist)
    rows, cols = code.size
    n = code.n_k_d[0]
    ctx = Ctx('C10', 'quick', 0)
    tail = '%d %d %s %s' % (rows, cols, bitstr(f), ' '.join(hexz(v) for v in a))
    lines = ['net ' + tail] + (['sweep ' + tail] if n <= 25 else [])
    out = ctx.model('c10n', lines)
    toks = out[0].split(' ')
    R, C = int(toks[0]), int(toks[1])
    pauli = code.new_pauli(f)
    bad = False
    tn = PlanarMPSDecoder.TNC().create_tn(dist, pauli)
    if tuple(tn.shape) != (R, C):
        print('array shape', tn.shape, 'model', (R, C))
        bad = True
    else:
        for r in range(R):
            for c in range(C):
                got, want = site_string(tn[r, c], D if (r + c) % 2 == 0 else 1), toks[2 + r * C + c]
                if got != want:
                    print('site', (r, c), 'MISMATCH\n  implementation', got, '\n  model         ', want)
                    bad = True
    model_sites = [[parse_site(toks[2 + r * C + c]) for c in range(C)] for r in range(R)]
    rtn = PlanarRMPSDecoder.TNC().create_tn(dist, pauli)
    shape, want = rmps_expected(code, model_sites)
    if tuple(rtn.shape) != shape:
        print('rmps array shape', rtn.shape, 'expected', shape)
        bad = True
    else:
        for r in range(shape[0]):
            for c in range(shape[1]):
                if site_string(rtn[r, c], D) != int_site_string(want[r][c]):
                    print('rmps site', (r, c), 'MISMATCH')
                    bad = True
    if len(out) > 1 and tuple(tn.shape) == (R, C):
        mv = Fraction(int(out[1], 16)) / Fraction(D) ** n
        for name, v in (('PlanarMPSDecoder network', tt.mps2d.contract(tn)), ('PlanarRMPSDecoder network', tt.mps2d.contract(rtn))):
            fr = frac_of(v)
            ok = fr is not None and abs(fr - mv) <= REL * mv
            print(name, 'contracts to', v, 'model', float(mv), 'OK' if ok else 'MISMATCH')
            bad = bad or not ok
    if rep.get('construct') and n <= 25:     # _coset_probabilities of the decoder in the recorded spelling of 'unset'
        from harness import c10_spell
        dec = c10_spell.Builder().construct(rep['construct'])
        print('decoder constructed as', rep['construct']['text'], '=', repr(dec))
        LX, LZ = code.logical_xs[0], code.logical_zs[0]
        cands = [f, f ^ LX, f ^ LX ^ LZ, f ^ LZ]
        mvs = ctx.model('c10n', ['sweep %d %d %s %s' % (rows, cols, bitstr(c), ' '.join(hexz(v) for v in a)) for c in cands])
        ps, _ = dec._coset_probabilities(dist, pauli.copy())
        for k in range(4):
            wk = Fraction(int(mvs[k], 16)) / Fraction(D) ** n
            fr = frac_of(ps[k])
            ok = fr is not None and abs(fr - wk) <= REL * wk
            print('coset', 'IXYZ'[k], 'impl', ps[k], 'model network', float(wk), 'OK' if ok else 'MISMATCH')
            bad = bad or not ok
    print('REPRODUCED' if bad else 'not reproduced')
    return 1 if bad else 0
