"""C19 (extra) — HISTORIES of CLI merges: "CLI outputs merge back losslessly" and "merge emits JSON equal to the API
result" hold for every data list app.merge supports, not only for fresh outputs of run / run-ftp.

Explored class: trees of `qecsim merge` invocations of depth 1..3 over leaf files that are (a) fresh CLI outputs of
run / run-ftp, (b) data files in the record formats of every era app.merge documents (0.10/0.15 files without
time_steps / measurement_error_probability, pre-1.0b6 files without n_logical_commutations / custom_totals, files
written by an earlier merge i.e. without error_weight_pvar, current files), (c) malformed files (not JSON, JSON that
is not data, missing).  Every internal node is a real CLI invocation whose inputs are the files the CLI itself wrote
in earlier steps (through -o, through captured stdout, or recovered from the error log when -o named an existing
file).  Decided by: app.merge on the same parsed inputs (field-for-field, wall time included), the extracted model of
the command (`mergecmd` of engine c19 = Cli/MergeCmd.merge_cmd over App/Merge.merge: exit class, where the data go,
integer fields, arrays, rates), the flat model merge of all leaves (theorem c19_merge_history: a merge of merges equals
the merge of everything, rows in the same order), and conservation of the totals evaluated directly on the output."""
import hashlib
import itertools
import json
import math
import os
from concurrent.futures import ThreadPoolExecutor
from fractions import Fraction

from harness.common import exc_class, coq_list

GRP = ('code', 'n_k_d', 'error_model', 'decoder', 'error_probability', 'time_steps', 'measurement_error_probability')
SCAL = ('n_run', 'n_fail', 'n_success', 'error_weight_total', 'wall_time')
ARR = ('n_logical_commutations', 'custom_totals')
TOTALS = ('n_run', 'n_fail', 'n_success', 'error_weight_total')
UNIT = 2 ** 20

# record formats by era (which keys a file of that era carries); see the notes in app.merge
BASE_KEYS = ('code', 'n_k_d', 'error_model', 'decoder', 'error_probability', 'n_run', 'n_success', 'n_fail',
             'error_weight_total', 'logical_failure_rate', 'physical_error_rate', 'wall_time')
ERAS = {
    'v0.10-run': BASE_KEYS + ('error_weight_pvar',),
    'v0.10-merge': BASE_KEYS,
    'v0.16-run': BASE_KEYS + ('error_weight_pvar', 'time_steps', 'measurement_error_probability'),
    'v0.16-merge': BASE_KEYS + ('time_steps', 'measurement_error_probability'),
    'v1.0-run': BASE_KEYS + ('error_weight_pvar', 'time_steps', 'measurement_error_probability') + ARR,
    'v1.0-merge': BASE_KEYS + ('time_steps', 'measurement_error_probability') + ARR,
}
# group shapes (labels as they appear in data files of the respective versions); arrays: lengths or None
GROUPS = [
    dict(code='Toric 3x3', n_k_d=[18, 2, 3], error_model='Bit-flip', decoder='Toric MWPM', error_probability=0.1,
         time_steps=1, measurement_error_probability=0.0, arrays=(None, None)),
    dict(code='Toric 15x15', n_k_d=[450, 2, 15], error_model='Bit-flip', decoder='Toric MWPM', error_probability=0.095,
         time_steps=1, measurement_error_probability=0.0, arrays=(None, None)),
    dict(code='Toric 3x3', n_k_d=[18, 2, 3], error_model='Bit-flip', decoder='Toric MWPM', error_probability=0.2,
         time_steps=1, measurement_error_probability=0.0, arrays=(None, None)),
    dict(code='Steane', n_k_d=[7, 1, 3], error_model='Phase-flip', decoder='Naive', error_probability=0.2,
         time_steps=2, measurement_error_probability=0.01, arrays=(None, None)),
    dict(code='Steane', n_k_d=[7, 1, 3], error_model='Phase-flip', decoder='Naive', error_probability=0.2,
         time_steps=1, measurement_error_probability=0.0, arrays=(None, None)),
    dict(code='Rotated planar 13x13', n_k_d=[169, 1, 13], error_model='Depolarizing',
         decoder='Rotated planar RMPS (chi=16, mode=c)', error_probability=0.3,
         time_steps=1, measurement_error_probability=0.0, arrays=(2, 1)),
    dict(code='5-qubit', n_k_d=[5, 1, 3], error_model='Depolarizing', decoder='Naive', error_probability=0.1,
         time_steps=1, measurement_error_probability=0.0, arrays=(2, None)),
]


def norm(v):
    return tuple(v) if isinstance(v, list) else v


def ulps(a, b):
    return 0 if a == b else abs(a - b) / math.ulp(max(abs(a), abs(b)))


class Ids:
    """per-field equivalence ids of the 7 key fields under Python == (after list->tuple normalisation)"""

    def __init__(self):
        self.vals = [[] for _ in GRP]

    def get(self, i, v):
        v = norm(v)
        for j, w in enumerate(self.vals[i]):
            if w == v and (w is None) == (v is None):
                return j
        self.vals[i].append(v)
        return len(self.vals[i]) - 1


def ints(a):
    if a is None:
        return '_'
    a = [int(x) for x in a]
    return ','.join(map(str, a)) if a else '-'


def is_record(r):
    return isinstance(r, dict) and all(k in r for k in ('code', 'n_k_d', 'error_model', 'decoder', 'error_probability')
                                       + SCAL) and isinstance(r['n_k_d'], (list, tuple)) and len(r['n_k_d']) >= 1


def dyadic(w):
    return (Fraction(w) * UNIT).denominator == 1


def enc_record(ids, r, wall_exact):
    ks = [str(ids.get(i, r[k])) if k in r else '_' for i, k in enumerate(GRP)]
    n = int(norm(r['n_k_d'])[0])
    tv = str(int(r['time_steps'])) if 'time_steps' in r else '_'
    wall = int(Fraction(r['wall_time']) * UNIT) if wall_exact else 0
    return '%s:%d:%s:%d:%d:%d:%d:%d:%s:%s' % (
        ','.join(ks), n, tv, r['n_run'], r['n_fail'], r['n_success'], r['error_weight_total'], wall,
        ints(r['n_logical_commutations']) if 'n_logical_commutations' in r else 'A',
        ints(r['custom_totals']) if 'custom_totals' in r else 'A')


def enc_rows(ids, rows, wall_exact):
    """implementation rows in the model's reply format (first 8 fields)"""
    out = []
    for r in rows:
        if not isinstance(r, dict) or any(k not in r for k in GRP + SCAL + ARR):
            out.append('MALFORMED-ROW')
            continue
        try:
            ks = ','.join(str(ids.get(i, r[k])) for i, k in enumerate(GRP))
            out.append('%s:%d:%d:%d:%d:%d:%s:%s' % (ks, r['n_run'], r['n_fail'], r['n_success'], r['error_weight_total'],
                                                    int(Fraction(r['wall_time']) * UNIT) if wall_exact else 0,
                                                    ints(r['n_logical_commutations']), ints(r['custom_totals'])))
        except Exception:  # noqa
            out.append('MALFORMED-ROW')
    return ';'.join(out) if out else '-'


def enc_files(contents, wall_exact_hint=True):
    """contents: per input file '?' (missing) | '!' (unparsable) | parsed JSON list of records.
    Returns (ids, dT, dq, wall_exact, files-token) or None when some input is JSON but not a list of records."""
    recs = []
    for c in contents:
        if c in ('?', '!'):
            continue
        if not isinstance(c, list) or not all(is_record(r) for r in c):
            return None
        recs += c
    try:
        wall_exact = wall_exact_hint and all(dyadic(r['wall_time']) for r in recs)
        ids = Ids()
        dT, dq = ids.get(5, 1), ids.get(6, 0.0)
        toks = []
        for c in contents:
            toks.append(c if c in ('?', '!') else (';'.join(enc_record(ids, r, wall_exact) for r in c) if c else '-'))
    except Exception:  # noqa
        return None
    return ids, dT, dq, wall_exact, '|'.join(toks)


# ---------------------------------------------------------------------------------------------------- generators
def gen_record(rng, g, era, mismatch=False):
    nr = rng.randint(1, 60)
    nf = rng.randint(0, nr)
    ewt = rng.randint(0, 400)
    lcs, cvs = g['arrays']
    if mismatch:   # a record whose arrays cannot be summed with the others of its group
        lcs = rng.choice([x for x in (None, 1, 2, 3) if x != lcs])
    full = {k: v for k, v in g.items() if k != 'arrays'}
    full.update({'n_run': nr, 'n_fail': nf, 'n_success': nr - nf, 'error_weight_total': ewt,
                 'error_weight_pvar': rng.randint(0, 4000) / 64.0, 'logical_failure_rate': nf / nr,
                 'physical_error_rate': ewt / g['n_k_d'][0] / g['time_steps'] / nr,
                 'wall_time': rng.randint(0, 5000) / 1024.0 if rng.random() < 0.8 else rng.random() * 10,
                 'n_logical_commutations': None if lcs is None else [rng.randint(0, nr) for _ in range(lcs)],
                 'custom_totals': None if cvs is None else [rng.randint(0, 30) for _ in range(cvs)]})
    return {k: full[k] for k in ERAS[era]}


def era_ok(g, era):
    """whether a record of group g can be written in this era's format without changing its meaning"""
    keys = ERAS[era]
    if 'time_steps' not in keys and (g['time_steps'] != 1 or g['measurement_error_probability'] != 0.0):
        return False
    if 'custom_totals' not in keys and g['arrays'] != (None, None):
        return False
    return True


def gen_file(rng, era=None, groups=None, mismatch=False):
    era = era or rng.choice(sorted(ERAS))
    groups = [g for g in (groups or GROUPS) if era_ok(g, era)]
    rows = []
    for g in rng.sample(groups, rng.randint(1, min(3, len(groups)))):
        rows.append(gen_record(rng, g, era))
        if rng.random() < 0.25:
            rows.append(gen_record(rng, g, era))          # the same group twice in one file
    if mismatch:
        if 'custom_totals' in ERAS[era]:
            # two records of one group whose arrays cannot be summed
            g = rng.choice(GROUPS)
            rows += [gen_record(rng, g, era), gen_record(rng, g, era, mismatch=True)]
        else:
            # an array-carrying group written in a format without arrays: reads back as None, which cannot be summed
            # with the records of that group in a current-format file
            g = rng.choice([g for g in GROUPS if g['arrays'] != (None, None)])
            full = gen_record(rng, g, 'v1.0-run')
            rows.append({k: full[k] for k in ERAS[era]})
    rng.shuffle(rows)
    return era, rows


# ---------------------------------------------------------------------------------------------------- histories
class Histories:
    def __init__(self, ctx, tmp, runner, qc, app, run_cli):
        self.ctx, self.tmp, self.runner, self.qc, self.app, self.run_cli = ctx, tmp, runner, qc, app, run_cli
        self.nfile = itertools.count(1)
        self.pending = []     # (request, impl string, rows, replay, kind) for the model engine
        self.leaf_files = {}  # name -> content marker or parsed rows

    # -- files
    def new_name(self, stem):
        return 'h%d_%s.json' % (next(self.nfile), stem)

    def write_leaf(self, stem, text):
        name = self.new_name(stem)
        with open(os.path.join(self.tmp, name), 'w') as f:
            f.write(text)
        return name

    def content(self, name):
        p = os.path.join(self.tmp, name)
        if not os.path.exists(p):
            return '?'
        try:
            with open(p) as f:
                return json.load(f)
        except ValueError:
            return '!'

    # -- one CLI invocation
    def invoke(self, inputs, mode, out_name, subprocess_):
        """mode: 'stdout' | 'file' | 'existing'. Returns dict(exit, rows, stdout, stderr, file_state)"""
        args = ['merge'] + (['-o', out_name] if mode != 'stdout' else []) + list(inputs)
        outp = os.path.join(self.tmp, out_name)
        before = open(outp).read() if os.path.exists(outp) else None
        if subprocess_:
            rc, so, se = self.run_cli(args, self.tmp)
            exc = None
        else:
            res = self.runner.invoke(self.qc.cli, args)
            rc, so, se = res.exit_code, res.output, ''
            try:
                se = res.stderr
            except Exception:  # noqa  (stderr not separately captured)
                pass
            exc = None if res.exception is None or isinstance(res.exception, SystemExit) else exc_class(res.exception)
        after = open(outp).read() if os.path.exists(outp) else None
        rows, where = None, None
        if mode == 'stdout':
            lines = [l for l in so.split('\n') if l.startswith('[')]
            if lines:
                try:
                    rows, where = json.loads(lines[-1]), 'stdout'
                except ValueError:
                    pass
        elif before is None and after is not None:
            try:
                rows, where = json.loads(after), 'file'
            except ValueError:
                pass
        if rows is None and 'recovered data' in se:
            tail = se.split('recovered data:', 1)[1]
            for l in tail.split('\n'):
                if l.startswith('['):
                    try:
                        rows, where = json.loads(l), 'errlog'
                    except ValueError:
                        pass
                    break
        stdout_json = any(l.startswith('[') for l in so.split('\n'))
        return {'args': args, 'exit': rc, 'rows': rows, 'where': where, 'stdout_json': stdout_json,
                'stderr': (se or so)[-400:], 'exception': exc,
                'file_state': 'none' if after is None else ('old' if after == before else 'new'),
                'traceback': 'Traceback' in se}

    # -- one step of a history: CLI vs API vs model
    def step(self, inputs, mode='stdout', subprocess_=False, hist=None):
        ctx, app = self.ctx, self.app
        out_name = self.new_name('out')
        if mode == 'existing':
            with open(os.path.join(self.tmp, out_name), 'w') as f:
                f.write('PRECIOUS ' + out_name)
        snapshot = {n: (open(os.path.join(self.tmp, n)).read() if os.path.exists(os.path.join(self.tmp, n)) else None)
                    for n in inputs}
        contents = [self.content(n) for n in inputs]
        r = self.invoke(inputs, mode, out_name, subprocess_)
        # API on the same parsed inputs
        if '?' in contents:
            api, want = 'missing', None
        elif '!' in contents:
            api, want = 'unparsable', None
        else:
            try:
                want = json.loads(json.dumps(app.merge(*contents)))
                api = 'ok'
            except Exception as e:  # noqa
                api, want = 'ERR ' + exc_class(e), None
        rep = {'history': hist, 'step_args': r['args'], 'inputs': {n: c for n, c in zip(inputs, contents)},
               'output_mode': mode, 'subprocess': subprocess_, 'api': api if want is None else want,
               'cli': {k: r[k] for k in ('exit', 'rows', 'where', 'stderr', 'exception', 'file_state')}}
        ctx.count(('merge-step', hashlib.sha1(json.dumps([r['args'][1:], contents], sort_keys=True, default=str).encode()).hexdigest()),
                  True, 'merge-step-%s-%s' % (mode, api.split(' ')[0]))
        ok = True
        for n in inputs:
            p = os.path.join(self.tmp, n)
            now = open(p).read() if os.path.exists(p) else None
            if now != snapshot[n]:
                ctx.violation('cli-merge-input-modified', 'merge modified one of its DATA_FILEs', rep)
                ok = False
        if api == 'ok':
            want_exit = 0 if mode != 'existing' else 1
            want_where = {'stdout': 'stdout', 'file': 'file', 'existing': 'errlog'}[mode]
            if r['rows'] is None or (mode != 'existing' and r['exit'] != 0):
                ctx.violation('cli-merge-history-rejected',
                              'CLI merge fails / emits nothing for data files that app.merge merges', rep)
                ok = False
            elif r['rows'] != want:
                ctx.violation('cli-merge-history-vs-api', 'CLI merge result differs from app.merge of the same parsed files', rep)
                ok = False
            elif r['where'] != want_where or (r['exit'] == 0) != (want_exit == 0) or \
                    (mode == 'existing' and r['file_state'] != 'old'):
                ctx.violation('cli-merge-history-output', 'merged data emitted in the wrong place / wrong exit status / '
                              'existing file modified', rep)
                ok = False
        else:
            if r['exit'] == 0 or r['stdout_json'] or r['file_state'] == 'new' or r['rows'] is not None:
                ctx.violation('cli-merge-accepts-invalid', 'CLI merge succeeds / emits data where app.merge (or reading '
                              'the files) fails', rep)
            if api == 'missing' and (r['exit'] != 2 or r['traceback']):
                ctx.violation('usage-error', 'missing DATA_FILE does not end in a usage error', rep)
            ok = False
        # model of the command on the same parsed inputs
        enc = enc_files(contents)
        if enc is not None:
            ids, dT, dq, wall_exact, ftok = enc
            req = 'mergecmd %d 1 %s %d %d %s' % (1 if mode == 'existing' else 0, '-' if mode == 'stdout' else 'f', dT, dq, ftok)
            impl = 'exit=%d file=%s where=%s rows=%s' % (
                r['exit'], r['file_state'], r['where'], '_' if r['rows'] is None else enc_rows(ids, r['rows'], wall_exact))
            self.pending.append((req, impl, r['rows'], rep, 'step'))
        return (out_name if ok and mode != 'existing' else None), r, ok

    def materialise(self, r, out_name, mode):
        """make the CLI's emitted data available as a file for the next step, the way a user would: -o wrote it;
        stdout is redirected to a file; recovered data are copied from the error log"""
        if mode == 'file':
            return out_name
        name = self.new_name('redir' if mode == 'stdout' else 'recovered')
        with open(os.path.join(self.tmp, name), 'w') as f:
            f.write(json.dumps(r['rows'], sort_keys=True))
        return name

    # -- a whole tree
    def run_tree(self, tree, leaves, subprocess_=False, allow_existing=False, label=''):
        """tree: ('leaf', i) | ('merge', [subtrees], mode). Returns file name of the root output or None."""
        ctx = self.ctx
        hist = {'label': label, 'tree': tree, 'leaves': {n: self.content(n) for n in leaves}}
        order = []

        def go(t):
            if t[0] == 'leaf':
                order.append(leaves[t[1]])
                return leaves[t[1]]
            ins = []
            for c in t[1]:
                f = go(c)
                if f is None:
                    return None
                ins.append(f)
            mode = t[2]
            out_name, r, ok = self.step(ins, mode, subprocess_, hist)
            if not ok:
                return None
            return self.materialise(r, out_name, mode)
        root = go(tree)
        ctx.count(('merge-history', label, hashlib.sha1(json.dumps([tree, hist['leaves']], sort_keys=True, default=str).encode()).hexdigest()),
                  depth(tree) >= 2, 'merge-history-depth%d' % depth(tree),
                  {'history': tree, 'leaves': list(leaves)} if depth(tree) >= 2 and len(ctx.samples) < 5 else None)
        if root is None:
            return None
        rows = self.content(root)
        leaf_contents = [self.content(n) for n in order]
        rep = {'history': hist, 'root_rows': rows}
        # conservation over the whole history, evaluated directly on the output
        for k in TOTALS:
            try:
                tin = sum(r[k] for c in leaf_contents for r in c)
                tout = sum(r[k] for r in rows)
            except Exception:  # noqa
                tin, tout = 0, 1
            if tin != tout:
                ctx.violation('cli-merge-history-lossy', 'a history of CLI merges does not conserve %s' % k, rep)
                break
        enc = enc_files(leaf_contents)
        if enc is not None:
            ids, dT, dq, wall_exact, ftok = enc
            req = 'mergecmd 0 1 - %d %d %s' % (dT, dq, ftok)
            impl = 'exit=0 file=none where=stdout rows=%s' % enc_rows(ids, rows, wall_exact)
            self.pending.append((req, impl, rows, rep, 'history'))
        return root

    # -- the model decides
    def flush(self):
        ctx = self.ctx
        out = ctx.model('c19', [p[0] for p in self.pending])
        self.kernel_shard([p[0] for p in self.pending], out)
        for (req, impl, rows, rep, kind), m in zip(self.pending, out):
            f = dict(t.split('=', 1) for t in m.split(' ')) if m.startswith('exit=') else {}
            if not f:
                ctx.cmp('merge_cmd', req[:600], impl, m)
                continue
            where = 'stdout' if f['stdout'] == '1' else 'errlog' if f['errlog'] == '1' else 'file' if f['file'] == 'new' else 'None'
            mrows = f['rows']
            core = mrows if mrows in ('_', '-') else ';'.join(':'.join(r.split(':')[:8]) for r in mrows.split(';'))
            model = 'exit=%s file=%s where=%s rows=%s' % (f['exit'], f['file'], where, core)
            if impl != model:
                if kind == 'history':
                    ctx.violation('cli-merge-history-grouping', 'the result of a history of CLI merges differs from the model '
                                  'merge of all its leaf files (theorem c19_merge_history)',
                                  dict(rep, model=model, cli=impl))
                else:
                    i_exit, i_rows = impl.split(' ')[0], impl.split(' rows=')[1]
                    if (i_exit != 'exit=0' and f['exit'] == '0') or (i_rows == '_' and core != '_'):
                        ctx.violation('cli-merge-history-rejected', 'CLI merge fails / emits nothing where the model of the '
                                      'command (Cli/MergeCmd over App/Merge) emits the merged data', dict(rep, model=model))
                    elif (i_exit == 'exit=0' and f['exit'] != '0') or (i_rows != '_' and core == '_'):
                        ctx.violation('cli-merge-accepts-invalid', 'CLI merge succeeds / emits data where the model of the '
                                      'command fails', dict(rep, model=model))
                    elif i_rows != core:
                        ctx.violation('cli-merge-history-vs-model', 'CLI merge emits other data than the model of the command',
                                      dict(rep, model=model, cli=impl))
                    else:
                        ctx.cmp('merge_cmd', req[:600], impl, model)
                continue
            if rows and mrows not in ('_', '-'):
                for r, mr in zip(rows, mrows.split(';')):
                    fr, pr = (Fraction(int(t.split('/')[0]), int(t.split('/')[1])) for t in mr.split(':')[8:10])
                    if r['logical_failure_rate'] != float(fr) or ulps(r['physical_error_rate'], float(pr)) > 4:
                        ctx.violation('cli-merge-history-rates', 'rates in merged CLI output not recomputed from the sums',
                                      dict(rep, row=r, model_rates=[str(fr), str(pr)]))
        self.pending = []


    # -- in-kernel shard: a sample of the same requests evaluated by vm_compute on Cli/MergeCmd.merge_cmd_records
    def kernel_shard(self, reqs, replies, limit=48):
        def oz(t, absent):
            return 'None' if t in absent else 'Some ' + coq_list(['(%s)%%Z' % x for x in (t.split(',') if t != '-' else [])])

        def on(t):
            return 'None' if t == '_' else '(Some %s)' % t

        def raw(tok):
            ks, n, tv, run_, fail, succ, ewt, wall, lc, cv = tok.split(':')
            k = ks.split(',')
            return ('mkRaw %s %s %s %s %s %s %s (%s)%%Z %s (mkPay (%s)%%Z (%s)%%Z (%s)%%Z (%s)%%Z (%s)%%Z (%s) (%s)) %s %s'
                    % (k[0], k[1], k[2], k[3], k[4], on(k[5]), on(k[6]), n, 'None' if tv == '_' else '(Some (%s)%%Z)' % tv,
                       run_, fail, succ, ewt, wall, oz(lc, ('_', 'A')), oz(cv, ('_', 'A')),
                       'false' if lc == 'A' else 'true', 'false' if cv == 'A' else 'true'))
        items, seen, per_class = [], set(), {}
        for req, m in zip(reqs, replies):
            if len(items) >= limit:
                break
            if not m.startswith('exit=') or req in seen or req.count(':') > 9 * 8:
                continue
            seen.add(req)
            _, ex, _dir, outf, dt, dq, files = req.split(' ')
            cls = (m.split(' ')[0], ex, outf, m.endswith('rows=_'), '!' in files, '?' in files, files.count('|') > 1)
            per_class[cls] = per_class.get(cls, 0) + 1
            if per_class[cls] > 4:
                continue
            fl = []
            for t in files.split('|'):
                fl.append('None' if t == '?' else 'Some JBad' if t == '!' else
                          'Some (JData %s)' % ('[]' if t == '-' else coq_list([raw(x) for x in t.split(';')])))
            f = dict(t.split('=', 1) for t in m.split(' '))
            if f['rows'] == '_':
                want = 'None'
            else:
                rows = []
                for r in (f['rows'].split(';') if f['rows'] != '-' else []):
                    x = r.split(':')
                    rows.append('(%s, mkPay (%s)%%Z (%s)%%Z (%s)%%Z (%s)%%Z (%s)%%Z (%s) (%s))'
                                % (coq_list(x[0].split(',')), x[1], x[2], x[3], x[4], x[5], oz(x[6], ('_',)), oz(x[7], ('_',))))
                want = 'Some ' + coq_list(rows)
            items.append('(chk %s %s %s %s %s %s (%s))' % (dt, dq, 'true' if ex == '1' else 'false',
                                                          'false' if outf == '-' else 'true', coq_list(fl), f['exit'], want))
        if not items:
            return
        text = ('From Coq Require Import List Bool Arith ZArith.\nFrom QV Require Import App.Merge Cli.WriteData Cli.MergeCmd.\n'
                'Import ListNotations.\n'
                'Definition olz_eqb (a b : option (list Z)) := match a, b with None, None => true | Some x, Some y => '
                'if list_eq_dec Z.eq_dec x y then true else false | _, _ => false end.\n'
                'Definition pay_eqb (a b : payload) := Z.eqb (p_run a) (p_run b) && Z.eqb (p_fail a) (p_fail b) && '
                'Z.eqb (p_succ a) (p_succ b) && Z.eqb (p_ewt a) (p_ewt b) && Z.eqb (p_wall a) (p_wall b) && '
                'olz_eqb (p_lc a) (p_lc b) && olz_eqb (p_cv a) (p_cv b).\n'
                'Fixpoint rows_eqb (a b : list (key * payload)) := match a, b with [], [] => true | (k, p) :: a\', (k2, p2) :: b\' '
                '=> key_eqb k k2 && pay_eqb p p2 && rows_eqb a\' b\' | _, _ => false end.\n'
                'Definition res_eqb (a b : option (list (key * payload))) := match a, b with None, None => true | Some x, Some y '
                '=> rows_eqb x y | _, _ => false end.\n'
                'Definition data_of (o : outcome nat jfile) : option (list (key * payload)) :=\n'
                '  let rows c := match c with JRows r => Some (map (fun r => (row_key r, row_pay r)) r) | _ => None end in\n'
                '  match o_stdout _ _ o, o_errlog _ _ o, o_fs _ _ o 0 with\n'
                '  | d :: _, _, _ => rows d | _, d :: _, _ => rows d | _, _, Some c => rows c | _, _, _ => None end.\n'
                'Definition chk (dT dq : nat) (ex out : bool) (files : list (option jfile)) (e : nat) '
                '(want : option (list (key * payload))) : bool :=\n'
                '  let f := fun p => match p with 0 => if ex then Some JBad else None | S i => nth i files None end in\n'
                '  let o := merge_cmd_records dT dq (fun _ => true) f (seq 1 (length files)) (if out then Some 0 else None) in\n'
                '  Nat.eqb (o_exit _ _ o) e && res_eqb (data_of o) want.\n'
                'Definition checks : list bool :=\n [' + ';\n  '.join(items) + '].\n'
                'Example corr : forallb (fun b => b) checks = true.\nProof. vm_compute. reflexivity. Qed.\n')
        self.ctx.kernel_cases('mergecmd', text)
        self.ctx.extra['kernel_cases'] = len(items)
        self.ctx.notes.append('in-kernel shard re-evaluates Cli/MergeCmd.merge_cmd_records on a sample of the merge-history '
                              'requests and compares with the extracted engine output that was compared with the CLI')


def depth(t):
    return 0 if t[0] == 'leaf' else 1 + max(depth(c) for c in t[1])


def random_tree(rng, idxs, max_depth, modes):
    """random grouping of the leaf indices (in order) into a tree of merge nodes of depth <= max_depth"""
    def node(ix, d):
        if len(ix) == 1 and (d == 0 or rng.random() < 0.7):
            return ('leaf', ix[0])
        if d == 0:
            return None
        if len(ix) == 1:
            return ('merge', [node(ix, d - 1) or ('leaf', ix[0])], rng.choice(modes))
        k = rng.randint(2, min(3, len(ix))) if d > 1 else len(ix)
        cuts = sorted(rng.sample(range(1, len(ix)), k - 1)) if k > 1 else []
        parts = [ix[a:b] for a, b in zip([0] + cuts, cuts + [len(ix)])]
        kids = []
        for p in parts:
            c = node(p, d - 1)
            if c is None:     # cannot nest deeper: flatten
                kids += [('leaf', i) for i in p]
            else:
                kids.append(c)
        return ('merge', kids, rng.choice(modes))
    t = node(list(idxs), max_depth)
    if t[0] == 'leaf':
        t = ('merge', [t], rng.choice(modes))
    return t


def merge_histories(ctx, tmp, rng, qc, app, runner, fresh_files, run_cli):
    H = Histories(ctx, tmp, runner, qc, app, run_cli)
    modes = ['stdout', 'file']
    L = lambda i: ('leaf', i)   # noqa
    M = lambda kids, mode='file': ('merge', kids, mode)   # noqa

    # ---- 1. fixed shapes over fresh CLI outputs of run / run-ftp
    fresh = [os.path.basename(f) for f in fresh_files]
    if len(fresh) >= 3:
        for rep_ in range(ctx.pick(2, 6)):
            a, b, c, d = (rng.choice(fresh) for _ in range(4))
            if rep_ == 0:
                b = a                       # the same file twice: groups certainly collide
            leaves = [a, b, c, d]
            shapes = [
                ('((a b) c)', M([M([L(0), L(1)], 'file'), L(2)], 'stdout')),
                ('(a (b c))', M([L(0), M([L(1), L(2)], 'stdout')], 'file')),
                ('((a b))', M([M([L(0), L(1)], 'file')], 'stdout')),
                ('(((a b) c) d)', M([M([M([L(0), L(1)], 'stdout'), L(2)], 'file'), L(3)], 'stdout')),
                ('((a b) (c d))', M([M([L(0), L(1)], 'file'), M([L(2), L(3)], 'file')], 'file')),
                ('(((a)))', M([M([M([L(0)], 'file')], 'stdout')], 'file')),
                ('(a b c d)', M([L(0), L(1), L(2), L(3)], 'stdout')),
            ]
            for label, t in shapes:
                H.run_tree(t, leaves, label='fresh ' + label)

    # ---- 2. every era alone, merged with itself, and with every other era (fixed), then in histories
    era_files = {}
    for era in sorted(ERAS):
        _, rows = gen_file(rng, era, groups=GROUPS[:3])
        _, rows2 = gen_file(rng, era, groups=GROUPS[:3])
        era_files[era] = (H.write_leaf(era.replace('.', '_'), json.dumps(rows, sort_keys=rng.random() < 0.5)),
                          H.write_leaf(era.replace('.', '_'), json.dumps(rows2)))
    eras = sorted(ERAS)
    for i, e1 in enumerate(eras):
        a, a2 = era_files[e1]
        H.run_tree(M([L(0)], 'stdout'), [a], label='era %s alone' % e1)
        H.run_tree(M([M([L(0), L(1)], 'file'), L(0)], 'stdout'), [a, a2], label='era %s ((a a2) a)' % e1)
        for e2 in eras[i + 1:]:
            b = era_files[e2][0]
            H.run_tree(M([L(0), L(1)], rng.choice(modes)), [a, b], label='eras %s + %s' % (e1, e2))
    # ---- 3. random histories over all kinds of leaves
    for it in range(ctx.pick(40, 400)):
        leaves = []
        bad = rng.random() < 0.15
        for _ in range(rng.randint(1, 6)):
            u = rng.random()
            if u < 0.25 and fresh:
                leaves.append(rng.choice(fresh))
            elif u < 0.35 and leaves:
                leaves.append(rng.choice(leaves))
            else:
                era, rows = gen_file(rng, mismatch=bad and rng.random() < 0.5)
                txt = json.dumps(rows, sort_keys=rng.random() < 0.5) if rng.random() < 0.9 else json.dumps(rows, indent=1)
                leaves.append(H.write_leaf(era.replace('.', '_'), txt))
        t = random_tree(rng, range(len(leaves)), rng.randint(1, 3), modes)
        H.run_tree(t, leaves, label='random %d' % it)

    # ---- 4. malformed data files: alone, before and after a good file (API decides; model for the modelled kinds)
    good = era_files['v1.0-run'][0]
    malformed = [('notjson', '{'), ('trunc', '[{"code": "Steane", '), ('empty', ''), ('obj', '{}'), ('objdata', '{"a": 1}'),
                 ('nums', '[1, 2]'), ('str', '"abc"'), ('null', 'null'), ('nested', '[[{"a": 1}]]'), ('emptylist', '[]'),
                 ('partial', json.dumps([{'code': 'Steane', 'n_run': 3}]))]
    for stem, text in malformed:
        name = H.write_leaf('bad_' + stem, text)
        H.step([name], 'stdout', hist={'label': 'malformed ' + stem})
        H.step([good, name], 'file', hist={'label': 'malformed good+' + stem})
        H.step([name, good], 'stdout', hist={'label': 'malformed ' + stem + '+good'})
    H.step(['h_missing.json'], 'stdout', hist={'label': 'missing'})
    H.step([good, 'h_missing.json'], 'file', hist={'label': 'good+missing'})

    # ---- 5. real processes: histories through -o, stdout and the recovered-data log of an existing output file
    jobs = []
    if len(fresh) >= 3:
        a, b, c = rng.sample(fresh, 3)
        jobs.append(('proc fresh ((a b) c)', M([M([L(0), L(1)], 'file'), L(2)], 'stdout'), [a, b, c]))
        jobs.append(('proc fresh ((a b -> existing, recovered) a)', M([M([L(0), L(1)], 'existing'), L(0)], 'file'), [a, b]))
    la, lb = era_files['v0.10-run']
    jobs.append(('proc legacy ((a b) a)', M([M([L(0), L(1)], 'stdout'), L(0)], 'file'), [la, lb]))
    jobs.append(('proc legacy+current (a (b c))', M([L(0), M([L(1), L(2)], 'existing')], 'stdout'),
                 [era_files['v0.16-merge'][0], era_files['v1.0-merge'][0], era_files['v0.10-merge'][1]]))
    for it in range(ctx.pick(0, 12)):
        leaves = [H.write_leaf('p', json.dumps(gen_file(rng)[1])) for _ in range(rng.randint(2, 4))]
        jobs.append(('proc random %d' % it, random_tree(rng, range(len(leaves)), rng.randint(2, 3), modes + ['existing']), leaves))
    with ThreadPoolExecutor(max_workers=8) as ex:
        list(ex.map(lambda j: H.run_tree(j[1], j[2], subprocess_=True, label=j[0]), jobs))
    H.flush()
