"""Extra C12 check added after a seeded change was missed: MPS whose total norm leaves the binary64 range (many sites,
each scaled by 1e-7 or 1e+7).  The returned norm (an mpmath mpf) times the normalised result must still represent the
input: norm == scale^L * norm(unscaled MPS) to 1e-9 relative, tensors equal to those of the unscaled run."""
import numpy as np


def run(ctx):
    import mpmath
    from mpmath import mp
    from qecsim.tensortools import mps as ttmps
    rng = ctx.rng
    nprng = np.random.default_rng(ctx.seed + 12)
    for trial in range(ctx.pick(12, 80)):
        L = rng.randint(40, 70)
        scale = rng.choice([1e-7, 1e7, 1e-6, 1e6])
        bonds = [1] + [rng.randint(2, 3) for _ in range(L - 1)] + [1]   # every inner bond exceeds chi = 1 below
        base = [nprng.normal(size=(bonds[i], 1, bonds[i + 1], rng.randint(1, 2))) for i in range(L)]
        scaled = [t * scale for t in base]
        for name, f in (('lcf_qr', lambda m: ttmps.left_canonical_form(m, qr=True, normalise=True)),
                        ('lcf_svd', lambda m: ttmps.left_canonical_form(m, normalise=True)),
                        ('rcf_svd', lambda m: ttmps.right_canonical_form(m, normalise=True)),
                        ('truncate', lambda m: ttmps.truncate(m, chi=1))):
            rep = {'function': name, 'sites': L, 'site_scale': scale, 'bonds': bonds[:8]}
            try:
                out0, norm0 = f([t.copy() for t in base])
                out1, norm1 = f([t.copy() for t in scaled])
            except Exception as e:  # noqa
                ctx.violation('exception', '%s raised %s on a long scaled MPS' % (name, type(e).__name__), rep)
                continue
            ctx.count(('c12-extreme', trial, name), True, 'extreme-norm',
                      dict(rep, norm=str(norm1)) if len(ctx.samples) < 8 else None)
            want = mp.mpf(norm0) * mp.mpf(scale) ** L
            got = mp.mpf(norm1)
            if want == 0 or not mpmath.isfinite(got) or abs(got - want) > mp.mpf('1e-9') * abs(want):
                ctx.violation('norm-range', '%s: returned norm %s does not represent the input (expected %s): the state is '
                              'non-zero but its norm lies outside the binary64 range' % (name, mpmath.nstr(got, 6), mpmath.nstr(want, 6)),
                              dict(rep, got=mpmath.nstr(got, 12), want=mpmath.nstr(want, 12)))
                continue
            # normalised tensors must agree with those of the unscaled run (up to sign conventions: compare |entries|)
            for a, b in zip(out0, out1):
                if a.shape != b.shape or not np.allclose(np.abs(a), np.abs(b), rtol=1e-7, atol=1e-9):
                    ctx.violation('normalised-tensors', '%s: normalised tensors depend on the overall scale' % name, rep)
                    break
