"""Rotated toric family for C07 / C08 / C15 (called from harness/c07.py, c08.py, c15.py).

check_c07(ctx): exact matrices for every even size, lattice-Pauli API (indices taken modulo the lattice),
constructor stream, and the property evaluated directly on the implementation's matrices
(the stabilizer matrix has rows*cols rows, two of them dependent: rank n-k = rows*cols-2).
check_c08(ctx): advertised d against an exhaustive CSS search on the implementation's matrices.
check_c15(ctx): path / translation for every ordered pair of same-type plaquettes (also wrapping indices)."""
import itertools

import numpy as np

from harness.common import bitstr, rowsstr, exc_class
from harness.lat_rotplanar import (ENGINE, guard, direct_code_checks, direct_flatten_checks, direct_distance_check,
                                   ctor_args, ctor_result, int_like, kernel_code_items, kernel_shard, idxs,
                                   coq_rows, anti_matrix)

FAM = 'rottoric'


def _sizes(hi):
    return [(r, c) for r in range(2, hi + 1, 2) for c in range(2, hi + 1, 2)]


def _sites(code):
    mx, my = code.bounds
    return [(x, y) for y in range(my + 1) for x in range(mx + 1)]


def check_c07(ctx):
    from qecsim.models.rotatedtoric import RotatedToricCode
    rng = ctx.rng
    hi = ctx.pick(12, 18)
    small = ctx.pick(6, 8)
    sizes = _sizes(hi)
    ctx.notes.append('rottoric C07: every even size 2..%d x 2..%d exact matrices; lattice-Pauli API on every site/'
                     'plaquette (with wrap-around indices) of every size <= %dx%d' % (hi, hi, small, small))
    req = []
    for (r, c) in sizes:
        req += ['rt_code %d %d' % (r, c), 'rt_nkd %d %d' % (r, c), 'rt_pidx %d %d' % (r, c)]
    out = ctx.model(ENGINE, req)
    kern = []
    def whole(i, r, c):
        code = RotatedToricCode(r, c)
        inp = 'RotatedToricCode(%d,%d)' % (r, c)
        m = out[3 * i].split(' ')
        m += [''] * (3 - len(m))
        ctx.cmp('rottoric.stabilizers', inp, rowsstr(code.stabilizers), m[0])
        ctx.cmp('rottoric.logical_xs', inp, rowsstr(code.logical_xs), m[1])
        ctx.cmp('rottoric.logical_zs', inp, rowsstr(code.logical_zs), m[2])
        ctx.cmp('rottoric.n_k_d', inp, ','.join(repr(v) for v in code.n_k_d), out[3 * i + 1])
        ctx.cmp('rottoric._plaquette_indices', inp, idxs(code._plaquette_indices), out[3 * i + 2])
        direct_code_checks(ctx, FAM, (r, c), code, dependent_rows=2)
        sites = _sites(code)
        if r <= small + 2 and c <= small + 2:
            direct_flatten_checks(ctx, FAM, [r, c], code, sites)
        else:
            p = code.new_pauli()
            if sorted(int(p._flatten_site_index(s)) for s in sites) != list(range(code.n_k_d[0])):
                ctx.violation(FAM + '-flatten', 'flatten is not a bijection from the in-bounds sites onto range(n)',
                              {'family': FAM, 'size': [r, c]})
        pi = code._plaquette_indices
        if sorted(map(tuple, pi)) != sorted(sites) or [code.is_z_plaquette(p) for p in pi] != \
                [True] * (len(pi) // 2) + [False] * (len(pi) // 2):
            ctx.violation(FAM + '-plaquette-set', 'plaquette indices are not every lattice index, Z-type first',
                          {'family': FAM, 'size': [r, c]})
        for j in sorted(set([0, len(pi) - 1, rng.randrange(len(pi))])):
            s = np.zeros(len(pi), dtype=int)
            s[j] = 1
            if code.syndrome_to_plaquette_indices(s) != {tuple(pi[j])}:
                ctx.violation(FAM + '-syndrome-index', 'syndrome bit does not map back to its plaquette',
                              {'family': FAM, 'size': [r, c], 'bit': j})
        ctx.count((FAM, r, c), r != c or (r, c) == (2, 2), 'rottoric-code',
                  {'code': inp, 'n_k_d': list(code.n_k_d)} if (r, c) == (2, 4) else None)
        if (r, c) in ((2, 2), (2, 4), (4, 2), (4, 6), (6, 4)):
            kern.append(kernel_code_items('(rottoric_code %d %d)' % (r, c), code))

    for i, (r, c) in enumerate(sizes):
        guard(ctx, FAM, [r, c], lambda: whole(i, r, c))
    # ---- lattice Pauli API --------------------------------------------------------------------
    req, exp = [], []

    def api(r, c):
        code = RotatedToricCode(r, c)
        mx, my = code.bounds
        inp = 'RotatedToricCode(%d,%d)' % (r, c)
        n = code.n_k_d[0]
        for y in range(-3, my + 4):
            for x in range(-3, mx + 4):
                for op in 'XYZ':
                    b = code.new_pauli().site(op, (x, y)).to_bsf()
                    req.append('rt_ops %d %d S%s:%d:%d' % (r, c, op, x, y))
                    exp.append(('rottoric.site', inp + ' %s %s' % (op, (x, y)), bitstr(b)))
                    want = np.zeros(2 * n, dtype=int)
                    f = (x % c) + (y % r) * c
                    if op in 'XY':
                        want[f] = 1
                    if op in 'ZY':
                        want[n + f] = 1
                    if not np.array_equal(b, want):
                        ctx.violation(FAM + '-site-mod', 'site() is not taken modulo the lattice dimensions',
                                      {'family': FAM, 'size': [r, c], 'index': [x, y], 'op': op})
                b = code.new_pauli().plaquette((x, y)).to_bsf()
                req.append('rt_ops %d %d P:%d:%d' % (r, c, x, y))
                exp.append(('rottoric.plaquette', inp + ' %s' % ((x, y),), bitstr(b)))
                want = np.zeros(2 * n, dtype=int)
                off = n if (x - y) % 2 == 0 else 0
                for (sx, sy) in ((x, y), (x, y + 1), (x + 1, y + 1), (x + 1, y)):
                    want[off + (sx % c) + (sy % r) * c] ^= 1
                if not np.array_equal(b, want) or int(b.sum()) != 4:
                    ctx.violation(FAM + '-plaquette-support', 'plaquette operator is not its documented 4-site support',
                                  {'family': FAM, 'size': [r, c], 'index': [x, y], 'bsf': bitstr(b)})
                ctx.count((FAM, 'pl', r, c, x, y), r != c, 'rottoric-site-plaquette')
        pis = code._plaquette_indices
        for _ in range(ctx.pick(3, 8)):
            ops, p = [], code.new_pauli()
            for _ in range(rng.randint(1, 8)):
                kind = rng.randrange(7)
                if kind == 0:
                    op, x, y = rng.choice('XYZ'), rng.randint(-mx - 2, 2 * mx + 2), rng.randint(-my - 2, 2 * my + 2)
                    p.site(op, (x, y))
                    ops.append('S%s:%d:%d' % (op, x, y))
                elif kind == 1:
                    x, y = rng.randint(-mx - 2, 2 * mx + 2), rng.randint(-my - 2, 2 * my + 2)
                    p.plaquette((x, y))
                    ops.append('P:%d:%d' % (x, y))
                elif kind == 2:
                    a = (rng.randint(-2, mx + 2), rng.randint(-2, my + 2))
                    b_ = (rng.randint(-2, mx + 2), rng.randint(-2, my + 2))
                    if (a[0] - a[1]) % 2 != (b_[0] - b_[1]) % 2:
                        b_ = (b_[0] + 1, b_[1])
                    p.path(a, b_)
                    ops.append('T:%d:%d:%d:%d' % (a + b_))
                else:
                    nm = ('LX1', 'LX2', 'LZ1', 'LZ2')[kind - 3]
                    getattr(p, {'LX1': 'logical_x1', 'LX2': 'logical_x2', 'LZ1': 'logical_z1', 'LZ2': 'logical_z2'}[nm])()
                    ops.append(nm)
            b = p.to_bsf()
            bs = bitstr(b)
            req.append('rt_ops %d %d %s' % (r, c, ','.join(ops)))
            exp.append(('rottoric.script', inp + ' ' + ','.join(ops), bs))
            if not np.array_equal(code.new_pauli(b.copy()).to_bsf(), b) or not (p.copy() == p):
                ctx.violation(FAM + '-bsf-roundtrip', 'new_pauli(bsf).to_bsf() / copy() do not round-trip',
                              {'family': FAM, 'size': [r, c], 'bsf': bs})
            for y in range(-2, my + 3):
                for x in range(-2, mx + 3):
                    try:
                        o = p.operator((x, y))
                    except Exception as e:  # noqa
                        o = 'ERR ' + exc_class(e)
                    req.append('rt_operator %d %d %s %d %d' % (r, c, bs, x, y))
                    exp.append(('rottoric.operator', inp + ' %s %s' % (bs, (x, y)), o))
                    f = (x % c) + (y % r) * c
                    if o != 'IXZY'[int(b[f]) + 2 * int(b[n + f])]:
                        ctx.violation(FAM + '-operator', 'operator(index) disagrees with to_bsf()',
                                      {'family': FAM, 'size': [r, c], 'bsf': bs, 'index': [x, y], 'got': o})
            ctx.count((FAM, 'script', r, c, tuple(ops)), True, 'rottoric-script')
        for _ in range(3):
            s = np.array([rng.randint(0, 1) for _ in pis])
            got = code.syndrome_to_plaquette_indices(s)
            req.append('rt_synd %d %d %s' % (r, c, bitstr(s)))
            exp.append(('rottoric.syndrome_to_plaquette_indices', inp + ' ' + bitstr(s), idxs(sorted(got))))

    for (r, c) in _sizes(small):
        if not guard(ctx, FAM, [r, c], lambda: api(r, c)):
            m = min(len(req), len(exp))
            del req[m:], exp[m:]
    out = ctx.model(ENGINE, req)
    for (fn, inp, impl), m, line in zip(exp, out, req):
        if fn.endswith('syndrome_to_plaquette_indices') and m != '-' and not m.startswith('ERR'):
            m = idxs(sorted(tuple(int(t) for t in s.split(':')) for s in m.split(',')))
        ctx.cmp(fn, inp, impl, m)
    # ---- constructor stream -------------------------------------------------------------------------
    args = ctor_args(ctx)
    req, exp = [], []
    for (a, ta), (b, tb) in itertools.product(args, repeat=2):
        res = ctor_result(RotatedToricCode, a, b)
        req.append('rt_ctor %s %s' % (ta, tb))
        exp.append((repr((a, b)), res))
        documented = int_like(a) and int_like(b) and a >= 2 and b >= 2 and a % 2 == 0 and b % 2 == 0
        if (res == 'Ok') != documented or res not in ('Ok', 'ValueError', 'TypeError'):
            ctx.violation(FAM + '-ctor', 'constructor accepts / rejects outside the documented range or with an '
                          'undocumented exception', {'family': FAM, 'args': repr((a, b)), 'result': res})
        ctx.count((FAM, 'ctor', ta, tb, repr(a), repr(b)), res != 'Ok', 'rottoric-ctor-' + res)
    out = ctx.model(ENGINE, req)
    for (inp, impl), m in zip(exp, out):
        ctx.cmp('rottoric.__init__', inp, impl, m)
    kernel_shard(ctx, 'rottoric', kern)


def check_c08(ctx):
    from qecsim.models.rotatedtoric import RotatedToricCode
    # quick: n <= 24 (up to 4x6 / 6x4); thorough: every even size <= 8x8 with min(rows, cols) <= 6
    searched = [(r, c) for (r, c) in _sizes(ctx.pick(6, 8)) if (r * c <= 24 if ctx.quick else min(r, c) <= 6)]
    for (r, c) in searched:
        code = RotatedToricCode(r, c)
        guard(ctx, FAM, [r, c], lambda: direct_distance_check(ctx, FAM, (r, c), code))
        ctx.count((FAM, 'dist', r, c), r != c or min(r, c) >= 3, 'rottoric-distance',
                  {'code': repr(code), 'n_k_d': list(code.n_k_d)} if (r, c) == (2, 4) else None)
    for (r, c) in _sizes(ctx.pick(12, 18)):
        if (r, c) in searched:
            continue
        def lw():
            code = RotatedToricCode(r, c)
            n, k, d = code.n_k_d
            w = [int(np.count_nonzero(v[:n] + v[n:])) for v in np.vstack([code.logical_xs, code.logical_zs])]
            if min(w) != d:
                ctx.violation(FAM + '-logical-weights', 'lightest supplied logical has weight %d, advertised d=%d' % (min(w), d),
                              {'family': FAM, 'size': [r, c]})

        guard(ctx, FAM, [r, c], lw)
        ctx.count((FAM, 'lw', r, c), r != c, 'rottoric-logical-weight')


def _decoder_steps():
    """The SMWPM decoder's own distance function with every step weight forced to 1:
    _distance = delta_parallel + delta_diagonal (= number of path steps)."""
    from qecsim.models.rotatedtoric import RotatedToricSMWPMDecoder

    class Unit(RotatedToricSMWPMDecoder):
        @classmethod
        def _step_weight_parallel(cls, eta, p):
            return 1

        @classmethod
        def _step_weight_diagonal(cls, eta, p):
            return 1

    def steps(code, a, b, is_row):
        return Unit._distance(code, 1, ((0,) + tuple(a), is_row), ((0,) + tuple(b), is_row), 0.1, 0.2, 1.0)
    return steps


def check_c15(ctx):
    from qecsim.models.rotatedtoric import RotatedToricCode
    rng = ctx.rng
    hi = ctx.pick(6, 10)
    ext = 2
    steps = _decoder_steps()
    ctx.notes.append('rottoric C15: every ordered pair of same-type plaquettes with indices in [-%d, max+%d] on every even '
                     'size <= %dx%d; weight compared with RotatedToricSMWPMDecoder._distance with unit step weights '
                     '(delta_parallel + delta_diagonal = max(box_width, box_height) for same-type plaquettes)'
                     % (ext, ext, hi, hi))
    kern = []

    def per_size(r, c):
        code = RotatedToricCode(r, c)
        mx, my = code.bounds
        n = code.n_k_d[0]
        S = np.asarray(code.stabilizers)
        pis = [tuple(p) for p in code._plaquette_indices]
        pos = {p: i for i, p in enumerate(pis)}
        # extended index set for big sizes only in the thorough tier's budget: always for sizes <= 6x6
        e = ext if (r <= 6 and c <= 6) or not ctx.quick else 0
        allidx = [(x, y) for y in range(-e, my + 1 + e) for x in range(-e, mx + 1 + e)]
        req_p, req_t, meta = [], [], []
        for a in allidx:
            bs = [b for b in allidx if (a[0] - a[1]) % 2 == (b[0] - b[1]) % 2]
            req_p.append('rt_pathsfrom %d %d %d %d %s' % (r, c, a[0], a[1], idxs(bs)))
            req_t.append('rt_transfrom %d %d %d %d %s' % (r, c, a[0], a[1], idxs(bs)))
            meta.append((a, bs))
        out_p = ctx.model(ENGINE, req_p)
        out_t = ctx.model(ENGINE, req_t)
        for (a, bs), mp, mt in zip(meta, out_p, out_t):
            paths = np.array([code.new_pauli().path(a, b).to_bsf() for b in bs])
            trans = [code.translation(a, b) for b in bs]
            inp = 'RotatedToricCode(%d,%d) a=%s' % (r, c, a)
            ctx.cmp('rottoric.path', inp, rowsstr(paths), mp)
            ctx.cmp('rottoric.translation', inp, ','.join('%d:%d' % (int(t[0]), int(t[1])) for t in trans), mt)
            # --- the property, directly on the implementation -------------------------------------
            am = (a[0] % c, a[1] % r)
            synd = anti_matrix(paths, S)      # letter-level syndromes of all paths from a
            wts = np.count_nonzero(paths[:, :n] + paths[:, n:], axis=1)
            a_is_z = (a[0] - a[1]) % 2 == 0
            for j, b in enumerate(bs):
                bm = (b[0] % c, b[1] % r)
                rep = {'family': FAM, 'size': [r, c], 'a': list(a), 'b': list(b)}
                want = np.zeros(len(pis), dtype=np.int64)
                if am != bm:
                    want[pos[am]] = 1
                    want[pos[bm]] = 1
                if not np.array_equal(synd[j], want):
                    ctx.violation(FAM + '-path-endpoints', 'path(a,b) does not anticommute with exactly the plaquettes a and b',
                                  dict(rep, syndrome=bitstr(synd[j]), path=bitstr(paths[j])))
                if am == bm and paths[j].any():
                    ctx.violation(FAM + '-path-trivial', 'path between coincident plaquettes is not the identity', rep)
                # path letters: X on Z-plaquettes, Z on X-plaquettes
                half = paths[j][n:] if a_is_z else paths[j][:n]
                if half.any():
                    ctx.violation(FAM + '-path-letter', 'path applies the wrong Pauli letter for the plaquette type', rep)
                tx, ty = int(trans[j][0]), int(trans[j][1])
                dist = max(abs(tx), abs(ty))
                dd = [steps(code, am, bm, True), steps(code, am, bm, False)]
                if int(wts[j]) != dist or dd[0] != dist or dd[1] != dist:
                    ctx.violation(FAM + '-path-weight', 'path weight %d, max(|translation|) %d, decoder steps %s differ'
                                  % (int(wts[j]), dist, dd), rep)
                if ((a[0] + tx - b[0]) % c, (a[1] + ty - b[1]) % r) != (0, 0):
                    ctx.violation(FAM + '-translation-target', 'a + translation(a,b) is not b modulo the period',
                                  dict(rep, translation=[tx, ty]))
                if not (abs(tx) <= c // 2 and abs(ty) <= r // 2):
                    ctx.violation(FAM + '-translation-shortest', 'translation is longer than half the period',
                                  dict(rep, translation=[tx, ty]))
                back = code.translation(b, a)
                if (abs(int(back[0])), abs(int(back[1]))) != (abs(tx), abs(ty)):
                    ctx.violation(FAM + '-translation-symmetric', '|translation(a,b)| != |translation(b,a)|',
                                  dict(rep, ab=[tx, ty], ba=[int(back[0]), int(back[1])]))
                nontriv = (tx != 0 and ty != 0) or abs(tx) == c // 2 or abs(ty) == r // 2 or a != am or b != bm
                ctx.count((FAM, 'path', r, c, a, b), nontriv, 'rottoric-path',
                          dict(rep, translation=[tx, ty], weight=int(wts[j])) if (r, c, a) == (4, 6, (1, 1)) and b == (4, 0) else None)
            if len(kern) < 12 and (r, c) in ((2, 4), (4, 4), (4, 6)) and a in ((0, 0), (1, 0), (3, 1)):
                bl = '[' + '; '.join('(%d, %d)' % b for b in bs) + ']'
                kern.append('(beqm (map (fun b => match rt_path %d %d (%d, %d) b (rt_identity %d %d) with Some p => '
                            'rc_to_bsf p | None => [] end) %s) %s)' % (r, c, a[0], a[1], r, c, bl, coq_rows(paths)))
        # different-type pairs: IndexError on both sides
        req, exp = [], []
        for _ in range(10):
            a = (rng.randint(-2, mx + 2), rng.randint(-2, my + 2))
            b = (a[0] + 2 * rng.randint(-2, 2) + 1, a[1] + 2 * rng.randint(-2, 2))
            res = []
            for f in (lambda: code.new_pauli().path(a, b), lambda: code.translation(a, b)):
                try:
                    f()
                    res.append('Ok')
                except Exception as ex:  # noqa
                    res.append(exc_class(ex))
            if res != ['IndexError', 'IndexError']:
                ctx.violation(FAM + '-path-types', 'path / translation between plaquettes of different type does not raise '
                              'IndexError', {'family': FAM, 'size': [r, c], 'a': list(a), 'b': list(b), 'result': res})
            req.append('rt_pathidx %d %d %d %d %d %d' % (r, c, a[0], a[1], b[0], b[1]))
            exp.append(('rottoric.path-types', 'RotatedToricCode(%d,%d) %s %s' % (r, c, a, b), 'ERR ' + res[0]))
            ctx.count((FAM, 'difftype', r, c, a, b), True, 'rottoric-path-difftype')
        # plaquette supports (documented: the four corner sites, modulo the lattice) and syndrome bit <-> plaquette
        for i, (x, y) in enumerate(pis):
            want = np.zeros(2 * n, dtype=int)
            off = n if (x - y) % 2 == 0 else 0
            for (sx, sy) in ((x, y), (x, y + 1), (x + 1, y + 1), (x + 1, y)):
                want[off + (sx % c) + (sy % r) * c] ^= 1
            if not np.array_equal(S[i], want) or int(want.sum()) != 4:
                ctx.violation(FAM + '-plaquette-support', 'stabilizer row is not the documented support of its plaquette',
                              {'family': FAM, 'size': [r, c], 'row': i, 'index': [x, y]})
            s = np.zeros(len(pis), dtype=int)
            s[i] = 1
            got = code.syndrome_to_plaquette_indices(s)
            if got != {(x, y)}:
                ctx.violation(FAM + '-syndrome-index', 'syndrome bit does not map back to its plaquette',
                              {'family': FAM, 'size': [r, c], 'bit': i})
            req.append('rt_synd %d %d %s' % (r, c, bitstr(s)))
            exp.append(('rottoric.syndrome_to_plaquette_indices', 'RotatedToricCode(%d,%d) bit %d' % (r, c, i), idxs(sorted(got))))
        out = ctx.model(ENGINE, req)
        for (fn, inp, impl), m in zip(exp, out):
            ctx.cmp(fn, inp, impl, m)

    for (r, c) in _sizes(hi):
        guard(ctx, FAM, [r, c], lambda: per_size(r, c))
    kernel_shard(ctx, 'rottoric_paths', kern)
