"""C02, tensor-network decoders' recovery construction: correspondence of
  Planar{MPS,RMPS}Decoder.sample_recovery / RotatedPlanar{MPS,RMPS}Decoder.sample_recovery /
  Color666MPSDecoder.sample_recovery and of what `decode` of the five decoders returns
with the Gallina models of Decoders/SampleRecovery.v and Decoders/SampleRecoveryColor.v (engine build/qmodel_samp),
whose theorems
  planar_sample_syndrome_all, planar_mps_decode_syndrome_all        (all rows, cols >= 2)
  rotplanar_sample_syndrome_all, rotplanar_mps_decode_syndrome_all  (all rows, cols >= 3)
  color_sample_syndrome_all, color_mps_decode_syndrome_all          (all odd sizes >= 3)
say: for EVERY bit vector of syndrome length, every iteration order of the set of flagged plaquettes and every one of
the four cosets the contraction may prefer, the returned operator has exactly that syndrome.

run_extra(ctx):
  (1) the models' stabilizer matrices are the implementation's (row order included);
  (2) sample_recovery(code, syndrome).to_bsf() of each of the five classes = the model's sample, on empty / all-ones /
      every unit / dense random / sparse random / error-reachable syndromes of many sizes (minimal, non-square, odd/even);
  (3) the property evaluated directly on the implementation: bsp(recovery, stabilizers.T) == syndrome
      (paulitools.bsp and an independent numpy symplectic product) -> ctx.violation('sample-recovery-syndrome', ...);
  (4) the model's sample does not depend on the iteration order (requests in a shuffled order);
  (5) decode() of the five decoders on small sizes returns sample xor one of {I, X, XZ, Z}-logical: the result must be
      one of the model's four `decode` answers, and must reproduce the syndrome -> ctx.violation('mps-decode-syndrome', ...);
  (6) an in-kernel shard re-checks a sample of (2) and the syndrome of the model's answer by vm_compute."""
import numpy as np

from harness.common import bitstr, rowsstr, coq_bits, coq_list

PLANAR_SIZES_Q = [(2, 2), (2, 3), (3, 2), (3, 3), (2, 5), (5, 2), (4, 3), (3, 4), (4, 4), (5, 5), (4, 6), (6, 7), (7, 5),
                  (2, 9), (9, 2), (8, 8)]
PLANAR_SIZES_T = [(9, 6), (10, 3), (6, 11), (12, 12), (2, 16), (15, 4)]
ROT_SIZES_Q = [(3, 3), (3, 4), (4, 3), (4, 4), (3, 5), (5, 3), (5, 5), (4, 6), (6, 5), (7, 7), (3, 8), (8, 3),
               (3, 11), (8, 8)]
ROT_SIZES_T = [(11, 3), (9, 6), (6, 9), (10, 11), (12, 12), (3, 16), (15, 4)]
COLOR_SIZES_Q = [(3,), (5,), (7,), (9,), (11,)]
COLOR_SIZES_T = [(13,), (15,), (17,), (21,)]
COSETS = 'IXYZ'
CODE_NAME = {'planar': 'planar', 'rotplanar': 'rotatedplanar', 'color': 'color666'}


def _bsp_independent(rec, stabs):
    """symplectic product of one operator with every row of `stabs`, written without paulitools"""
    n = stabs.shape[1] // 2
    rx, rz = rec[:n].astype(int), rec[n:].astype(int)
    return (stabs[:, n:].astype(int).dot(rx) + stabs[:, :n].astype(int).dot(rz)) % 2


def _syndromes(ctx, code, m, n):
    """[(kind, syndrome)]: ALL bit vectors when m is small; otherwise empty, all-ones, every unit (capped), dense /
    sparse random, reachable by a random error"""
    from qecsim import paulitools as pt
    rng = ctx.rng
    if m <= ctx.pick(8, 11):
        return [('exhaustive', np.array([(v >> (m - 1 - i)) & 1 for i in range(m)], dtype=int)) for v in range(2 ** m)]
    out = [('empty', np.zeros(m, dtype=int)), ('all-ones', np.ones(m, dtype=int))]
    units = list(range(m))
    cap = ctx.pick(24, 80)
    if m > cap:
        units = sorted(rng.sample(units, cap - 4) + [0, 1, m - 2, m - 1])
        units = sorted(set(units))
    for i in units:
        s = np.zeros(m, dtype=int)
        s[i] = 1
        out.append(('unit', s))
    for _ in range(ctx.pick(12, 30)):
        out.append(('dense-random', np.array([rng.randint(0, 1) for _ in range(m)], dtype=int)))
    for _ in range(ctx.pick(12, 30)):
        s = np.zeros(m, dtype=int)
        for i in rng.sample(range(m), rng.randint(2, min(5, m))):
            s[i] = 1
        out.append(('sparse-random', s))
    for _ in range(ctx.pick(8, 20)):
        e = np.zeros(2 * n, dtype=int)
        for q in rng.sample(range(n), rng.randint(1, min(4, n))):
            p = rng.randint(1, 3)
            e[q] ^= p & 1
            e[n + q] ^= p >> 1
        out.append(('error-syndrome', pt.bsp(e, code.stabilizers.T)))
    return out


def run_extra(ctx):
    import logging
    from qecsim import paulitools as pt
    from qecsim.models.planar import PlanarCode, PlanarMPSDecoder, PlanarRMPSDecoder
    from qecsim.models.rotatedplanar import RotatedPlanarCode, RotatedPlanarMPSDecoder, RotatedPlanarRMPSDecoder
    from qecsim.models.color import Color666Code, Color666MPSDecoder
    from harness import decoder_zoo as zoo
    logging.getLogger('qecsim').setLevel(logging.CRITICAL)
    rng = ctx.rng
    fams = {
        'planar': (PlanarCode, (PlanarMPSDecoder, PlanarRMPSDecoder), 'p',
                   PLANAR_SIZES_Q + ([] if ctx.quick else PLANAR_SIZES_T)),
        'rotplanar': (RotatedPlanarCode, (RotatedPlanarMPSDecoder, RotatedPlanarRMPSDecoder), 'r',
                      ROT_SIZES_Q + ([] if ctx.quick else ROT_SIZES_T)),
        'color': (Color666Code, (Color666MPSDecoder,), 'c', COLOR_SIZES_Q + ([] if ctx.quick else COLOR_SIZES_T)),
    }

    def szs(sz):
        return ' '.join(str(v) for v in sz)
    req, cases = [], []

    # ---- (1)-(4): sample_recovery ----
    for fam, (Code, decs, tag, sizes) in fams.items():
        for sz in sizes:
            code = Code(*sz)
            n = code.n_k_d[0]
            S = code.stabilizers
            m = S.shape[0]
            cases.append({'kind': 'stabs', 'fam': fam, 'sz': sz, 'S': S, 'i': len(req)})
            req.append('%sstabs %s' % (tag, szs(sz)))
            for kind, syn in _syndromes(ctx, code, m, n):
                syn = np.asarray(syn, dtype=int)
                recs = []
                for D in decs:
                    try:
                        r = np.asarray(D.sample_recovery(code, syn.copy()).to_bsf())
                        recs.append((D.__name__, 'ok', r))
                    except Exception as ex:  # noqa
                        recs.append((D.__name__, 'ERR %s' % type(ex).__name__, None))
                c = {'kind': 'sample', 'fam': fam, 'sz': sz, 'skind': kind, 'syn': syn, 'recs': recs, 'S': S, 'n': n,
                     'i': len(req)}
                req.append('%ssample %s %s' % (tag, szs(sz), bitstr(syn)))
                # the model in a shuffled iteration order of the flagged plaquettes (a few per size)
                if kind in ('all-ones', 'dense-random', 'exhaustive') and syn.sum() >= 2 and (kind != 'exhaustive' or rng.random() < 0.1):
                    sets = code.syndrome_to_plaquette_indices(syn)
                    sets = list(sets) if fam == 'color' else [sets]     # colour: (X-stabilizer set, Z-stabilizer set)
                    lists = []
                    for st in sets:
                        idxs = [tuple(int(v) for v in i) for i in st]
                        rng.shuffle(idxs)
                        lists.append(';'.join('%d:%d' % i for i in idxs) or '-')
                    c['i_ord'] = len(req)
                    req.append('%ssampleord %s %s' % (tag, szs(sz), ' '.join(lists)))
                cases.append(c)

    # ---- (5): decode of the four decoders on small sizes ----
    dec_sizes = {'planar': [(2, 2), (2, 3), (3, 2), (3, 3)] + ([] if ctx.quick else [(3, 4), (4, 4)]),
                 'rotplanar': [(3, 3), (3, 4), (4, 3)] + ([] if ctx.quick else [(4, 4), (5, 5)]),
                 'color': [(3,), (5,)] + ([] if ctx.quick else [(7,)])}
    for fam, (Code, decs, tag, _) in fams.items():
        for sz in dec_sizes[fam]:
            code = Code(*sz)
            n = code.n_k_d[0]
            S = code.stabilizers
            m = S.shape[0]
            L = [np.zeros(2 * n, dtype=int), code.logical_xs[0], code.logical_xs[0] ^ code.logical_zs[0], code.logical_zs[0]]
            syns = [np.zeros(m, dtype=int), np.ones(m, dtype=int)]
            for _ in range(ctx.pick(2, 6)):
                syns.append(np.array([rng.randint(0, 1) for _ in range(m)], dtype=int))
            for D in decs:
                for syn in syns:
                    # exact contraction (chi=None) is exponential (colour size 7: > 50 GB): only where measured cheap
                    chi = rng.choice([1, 2, 4] + ([None] if zoo.none_chi_ok(D.__name__, (CODE_NAME[fam], sz)) else []))
                    mode = rng.choice('cra')
                    p = rng.choice([0.01, 0.1, 0.3])
                    dec = D(chi) if fam == 'color' else D(chi, mode)
                    try:
                        r = np.asarray(dec.decode(code, syn.copy(), error_probability=p))
                        out = 'ok'
                    except Exception as ex:  # noqa
                        r, out = None, 'ERR %s: %s' % (type(ex).__name__, str(ex)[:100])
                    samp = np.asarray(D.sample_recovery(code, syn.copy()).to_bsf())
                    c = {'kind': 'decode', 'fam': fam, 'sz': sz, 'dec': [D.__name__, [chi] if fam == 'color' else [chi, mode]], 'p': p, 'syn': syn, 'rec': r,
                         'outcome': out, 'S': S, 'n': n, 'cands': [bitstr(samp ^ l) for l in L], 'i': len(req)}
                    for co in COSETS:
                        req.append('%sdecode %s %s %s' % (tag, szs(sz), co, bitstr(syn)))
                    cases.append(c)

    out = zoo.model_parallel(ctx, 'samp', req)

    kern = []
    n_sample = n_decode = 0
    for c in sorted(cases, key=lambda c: {'stabs': 0, 'decode': 1, 'sample': 2}[c['kind']]):   # stable
        fam, sz, S = c['fam'], c['sz'], c['S']
        if c['kind'] == 'stabs':
            ctx.cmp('%s_code stabilizers (sample-recovery model)' % fam, list(sz), rowsstr(S), out[c['i']])
            ctx.count(('samp-model-code', fam, sz), True, 'sample-recovery/code-matrix')
            continue
        syn_s = bitstr(c['syn'])
        code_spec = [CODE_NAME[fam], list(sz)]
        if c['kind'] == 'sample':
            n_sample += 1
            model = out[c['i']]
            nontrivial = bool(c['syn'].any()) and (len(sz) == 1 or sz[0] != sz[1] or min(sz) <= 3)
            ctx.count(('sample-recovery', fam, sz, syn_s), nontrivial, 'sample-recovery/%s/%s' % (fam, c['skind']),
                      {'code': code_spec, 'syndrome': syn_s, 'model_sample': model}
                      if (nontrivial and c['n'] <= 20 and c['skind'] in ('sparse-random', 'exhaustive') and c['syn'].sum() >= 3) else None)
            if 'i_ord' in c:
                ctx.cmp('%s model sample in a shuffled iteration order' % fam, {'code': code_spec, 'syndrome': syn_s,
                                                                                'request': req[c['i_ord']]}, out[c['i_ord']], model)
            if not model.startswith('ERR'):
                mr = np.array([int(ch) for ch in model])
                if bitstr(_bsp_independent(mr, S)) != syn_s:
                    ctx.cmp('model sample reproduces the syndrome (%s_sample_syndrome_all)' % fam, {'code': code_spec, 'syndrome': syn_s},
                            'syndrome differs', syn_s)
            for name, outcome, r in c['recs']:
                rep = {'check': 'c02_sample', 'code': code_spec, 'decoder': [name, 'sample_recovery'], 'syndrome': syn_s, 'outcome': outcome}
                if r is None:
                    ctx.cmp('%s.sample_recovery' % name, rep, outcome, model)
                    ctx.violation('sample-recovery-syndrome', '%s.sample_recovery raised %s' % (name, outcome), rep)
                    continue
                ctx.cmp('%s.sample_recovery' % name, rep, bitstr(r), model)
                ok = (r.ndim == 1 and len(r) == 2 * c['n'] and bitstr(pt.bsp(r, S.T)) == syn_s
                      and bitstr(_bsp_independent(r, S)) == syn_s)
                if not ok:
                    ctx.violation('sample-recovery-syndrome',
                                  '%s.sample_recovery does not reproduce the syndrome' % name, dict(rep, recovery=bitstr(r)))
            r0 = c['recs'][0][2]
            if (sum(1 for k in kern if k[0] == fam) < 4 and c['n'] <= 25 and c['syn'].any() and r0 is not None and bitstr(r0) == model
                    and c['skind'] in ('dense-random', 'all-ones', 'sparse-random', 'exhaustive') and c['syn'].sum() >= 3):
                kern.append((fam, sz, syn_s, model))
        else:
            n_decode += 1
            models = [out[c['i'] + k] for k in range(4)]
            rep = {'check': 'c02_sample', 'code': code_spec, 'decoder': c['dec'], 'error_probability': c['p'], 'syndrome': syn_s,
                   'outcome': c['outcome']}
            ctx.count(('mps-decode', fam, sz, syn_s, repr(c['dec'])), bool(c['syn'].any()), 'sample-recovery/decode/%s' % c['dec'][0])
            # the implementation's sample times its own logicals = the model's four answers
            ctx.cmp('%s: sample xor {I,X,XZ,Z}-logical' % c['dec'][0], rep, c['cands'], models)
            if c['rec'] is None:
                ctx.violation('mps-decode-syndrome', '%s.decode raised: %s' % (c['dec'][0], c['outcome']), rep)
                continue
            rs = bitstr(c['rec'])
            if rs not in models:
                ctx.cmp('%s.decode returns sample xor one of the four logical classes' % c['dec'][0], rep, rs, models)
            if len(c['rec']) != 2 * c['n'] or bitstr(pt.bsp(c['rec'], S.T)) != syn_s or bitstr(_bsp_independent(c['rec'], S)) != syn_s:
                ctx.violation('mps-decode-syndrome', '%s.decode does not reproduce the syndrome' % c['dec'][0], dict(rep, recovery=rs))
    ctx.extra['sample_recovery_cases'] = n_sample
    ctx.extra['mps_decode_cases'] = n_decode

    # ---- (6) in-kernel shard ----
    items = []
    for fam, sz, syn_s, model in kern:
        sb = coq_bits([ch == '1' for ch in syn_s])
        mb = coq_bits([ch == '1' for ch in model])
        if fam == 'planar':
            items.append('(match planar_sample_recovery %d %d %s with Some p => beqv (p_to_bsf p) %s && '
                         'beqv (syndrome_of (stabs (planar_code %d %d)) (p_to_bsf p)) %s | None => false end)'
                         % (sz[0], sz[1], sb, mb, sz[0], sz[1], sb))
        elif fam == 'rotplanar':
            items.append('(let r := rc_to_bsf (rotplanar_sample_recovery %d %d %s) in beqv r %s && '
                         'beqv (syndrome_of (stabs (rotplanar_code %d %d)) r) %s)' % (sz[0], sz[1], sb, mb, sz[0], sz[1], sb))
        else:
            items.append('(match color_sample_recovery %d %s with Some p => beqv (rc_to_bsf p) %s && '
                         'beqv (syndrome_of (stabs (color_code %d)) (rc_to_bsf p)) %s | None => false end)'
                         % (sz[0], sb, mb, sz[0], sb))
    if items:
        text = ('From Coq Require Import List Bool ZArith NArith.\nFrom QV Require Import Core.Bits Core.Pauli Core.Symp Core.Code '
                'Lattice.Planar Lattice.RotPlanar Lattice.Color Decoders.SampleRecovery Decoders.SampleRecoveryColor.\nImport ListNotations.\nOpen Scope Z_scope.\n'
                'Definition checks : list bool :=\n ' + coq_list(items).replace('; (', ';\n  (') + '.\n'
                'Example corr : forallb (fun b => b) checks = true.\nProof. vm_compute. reflexivity. Qed.\n')
        ctx.kernel_cases('sample_model', text)
    ctx.extra['sample_model_kernel_cases'] = len(items)


def replay_dict(r):
    """re-evaluate one replay dict written by run_extra (r['check'] == 'c02_sample'): 1 if the failure reproduces"""
    from qecsim import paulitools as pt
    from qecsim.models import planar, rotatedplanar, color
    mod, Code = {'planar': (planar, planar.PlanarCode), 'rotatedplanar': (rotatedplanar, rotatedplanar.RotatedPlanarCode),
                 'color666': (color, color.Color666Code)}[r['code'][0]]
    code = Code(*r['code'][1])
    D = getattr(mod, r['decoder'][0])
    syn = np.array([int(ch) for ch in r['syndrome']] if r['syndrome'] != '-' else [], dtype=int)
    try:
        if r['decoder'][1] == 'sample_recovery':
            rec = np.asarray(D.sample_recovery(code, syn.copy()).to_bsf())
        else:
            rec = np.asarray(D(*r['decoder'][1]).decode(code, syn.copy(), error_probability=r.get('error_probability', 0.1)))
    except Exception as ex:  # noqa
        print('raised now: %s: %s' % (type(ex).__name__, ex))
        print('REPRODUCED')
        return 1
    now = bitstr(pt.bsp(rec, code.stabilizers.T))
    print('recovery now: %s\nits syndrome:  %s\nrequested:     %s' % (bitstr(rec), now, r['syndrome']))
    bad = 0 if (now == r['syndrome'] and bitstr(_bsp_independent(rec, code.stabilizers)) == r['syndrome']) else 1
    print('REPRODUCED' if bad else 'not reproduced')
    return bad
