"""C02, MWPM skeleton tie: correspondence of PlanarMWPMDecoder.decode / ToricMWPMDecoder.decode with the Gallina models
Decoders/PlanarMwpm.v / Decoders/ToricMwpm.v (theorems planar_mwpm_syndrome / toric_mwpm_syndrome: for EVERY perfect
matching of the node lists the recovery reproduces the syndrome).  qecsim.graphtools.mwpm is wrapped in this process to
record the graph handed to the matcher and the matching it returned; compared: (1) the graph's node set with the
model's node list, (2) the hypotheses of the theorems on the implementation's graph (the recorded matching is a
perfect matching of the node set; no edge joins the extra virtual node to a defect), (3) the model's recovery for the
RECORDED matching with the implementation's recovery.  Called from c02.run (after c02_extra)."""
import numpy as np

from harness import decoder_zoo as zoo
from harness.common import bitstr, coq_list, coq_bits

EXTRA = {(-9, -10), (-10, -9)}


def _fmt(i):
    return ':'.join(str(int(x)) for x in i)


def run(ctx):
    import qecsim.graphtools as gt
    from qecsim import paulitools as pt
    from qecsim.models.planar import PlanarCode, PlanarMWPMDecoder
    from qecsim.models.toric import ToricCode, ToricMWPMDecoder
    rng = ctx.rng
    quick = ctx.quick
    cap = ctx.pick(9, 12)
    planar = [(2, 2), (2, 3), (3, 2), (3, 3), (2, 5), (4, 3), (3, 4), (4, 4), (5, 5), (4, 6), (6, 7)]
    toric = [(2, 2), (2, 3), (3, 2), (3, 3), (2, 5), (4, 4), (3, 4), (5, 4), (5, 5), (6, 6)]
    if not quick:
        planar += [(5, 2), (5, 4), (6, 6), (7, 6), (3, 7)]
        toric += [(4, 5), (6, 5), (2, 6), (4, 3)]
    calls = []
    orig = gt.mwpm

    def rec(graph):
        m = orig(graph)
        calls.append((list(graph.keys()), list(m)))
        return m

    req, cases = [], []
    gt.mwpm = rec
    try:
        for fam, sizes in (('planar', planar), ('toric', toric)):
            for sz in sizes:
                code = PlanarCode(*sz) if fam == 'planar' else ToricCode(*sz)
                dec = PlanarMWPMDecoder() if fam == 'planar' else ToricMWPMDecoder()
                n = code.n_k_d[0]
                S = code.stabilizers
                basis = zoo.syndrome_space(code, 'XZ')
                if len(basis) <= cap:
                    errs, mode = zoo.all_syndrome_errors(basis), 'all-syndromes'
                else:
                    errs, mode = zoo.weighted_errors(rng, n, ctx.pick(3, 6)), 'every-weight'
                    for _ in range(ctx.pick(120, 300)):     # sparse errors: the regime where boundaries and ties matter
                        e = np.zeros(2 * n, dtype=int)
                        for q in rng.sample(range(n), rng.randint(1, 4)):
                            p = rng.randint(1, 3)
                            e[q] ^= p & 1
                            e[n + q] ^= p >> 1
                        errs.append(e)
                # the model's code is the implementation's code (stabilizer matrix, row order)
                cases.append({'kind': 'stabs', 'fam': fam, 'sz': sz, 'S': S, 'i': len(req)})
                req.append('%sstabs %d %d' % (fam[0], sz[0], sz[1]))
                for e in errs:
                    s = pt.bsp(e, S.T)
                    del calls[:]
                    try:
                        r = dec.decode(code, s.copy())
                        out = 'ok'
                    except Exception as ex:  # noqa
                        r, out = None, 'ERR %s: %s' % (type(ex).__name__, str(ex)[:100])
                    c = {'kind': 'decode', 'fam': fam, 'sz': sz, 'mode': mode, 'error': zoo.bsf_to_letters(e), 'syn': bitstr(s),
                         'outcome': out, 'calls': [(k, m) for k, m in calls], 'rec': None if r is None else bitstr(np.asarray(r)),
                         'S': S, 'n': n}
                    c['i_nodes'] = len(req)
                    req.append('%snodes %d %d %s' % (fam[0], sz[0], sz[1], c['syn']))
                    if out == 'ok' and len(calls) == 2:
                        mates = [p for _, m in calls for p in m]
                        c['i_rec'] = len(req)
                        req.append('%srec %d %d %s' % (fam[0], sz[0], sz[1], ';'.join('%s>%s' % (_fmt(a), _fmt(b)) for a, b in mates) or '-'))
                    cases.append(c)
    finally:
        gt.mwpm = orig
    out = zoo.model_parallel(ctx, 'mwpm', req)

    from harness.common import rowsstr
    kern = []
    for c in cases:
        if c['kind'] == 'stabs':
            ctx.cmp('%s_code stabilizers' % c['fam'], list(c['sz']), rowsstr(c['S']), out[c['i']])
            ctx.count(('mwpm-model-code', c['fam'], c['sz']), True, 'mwpm-model/code-matrix')
            continue
        fam, sz, n, S = c['fam'], c['sz'], c['n'], c['S']
        rep = {'code': [fam, list(sz)], 'decoder': [fam.capitalize() + 'MWPMDecoder', []], 'error': c['error'],
               'syndrome': c['syn'], 'outcome': c['outcome']}
        nonzero = '1' in c['syn']
        ctx.count(('mwpm-model', fam, sz, c['error']), nonzero and sz[0] != sz[1], 'mwpm-model/%s/%s' % (fam, c['mode']),
                  {'code': '%s%dx%d' % (fam, sz[0], sz[1]), 'error': c['error'], 'model_nodes': out[c['i_nodes']],
                   'recorded_mates': [[list(a), list(b)] for _, m in c['calls'] for a, b in m][:8]}
                  if (nonzero and n <= 18 and sz[0] != sz[1] and len(c['error'].replace('I', '')) >= 2) else None)
        if c['outcome'] != 'ok':
            ctx.violation('raised', '%s MWPM decoder raised: %s' % (fam, c['outcome']), rep)
            continue
        if len(c['calls']) != 2:
            ctx.cmp('matcher called once per lattice', rep['error'], len(c['calls']), 2)
            continue
        model_nodes = [set(tuple(int(x) for x in t.split(':')) for t in part.split(';')) if part != '-' else set()
                       for part in out[c['i_nodes']].split('|')]
        for li, ((keys, mates), mn) in enumerate(zip(c['calls'], model_nodes)):
            nodes = set(x for k in keys for x in k)
            nodes = set(tuple(int(v) for v in x) for x in nodes)
            ctx.cmp('%s MWPM node set (lattice %d)' % (fam, li), dict(rep, lattice=li), sorted(nodes), sorted(mn))
            # hypotheses of the theorem, evaluated on the implementation's graph and matching
            ends = [tuple(int(v) for v in x) for p in mates for x in p]
            if sorted(ends) != sorted(nodes):
                ctx.cmp('recorded matching is a perfect matching of the node set', dict(rep, lattice=li), sorted(ends), sorted(nodes))
            if fam == 'planar':
                code_b = (2 * sz[0] - 2, 2 * sz[1] - 2)
                for a, b in list(keys) + list(mates):
                    a, b = tuple(int(v) for v in a), tuple(int(v) for v in b)
                    for x, y in ((a, b), (b, a)):
                        if x in EXTRA and 0 <= y[0] <= code_b[0] and 0 <= y[1] <= code_b[1]:
                            ctx.cmp('extra virtual node is joined to virtual nodes only', dict(rep, lattice=li), [x, y], 'no such edge')
        # the model's recovery for the recorded matching = the implementation's recovery
        m_rec = out[c['i_rec']]
        ctx.cmp('%s MWPM recovery for the recorded matching' % fam, rep, c['rec'], m_rec)
        # the theorem's conclusion on the model's recovery, and the property on the implementation's
        if not m_rec.startswith('ERR'):
            mr = np.array([int(ch) for ch in m_rec])
            if bitstr(zoo.letter_syndrome(zoo.stab_letter_codes(S), mr)) != c['syn']:
                ctx.cmp('model recovery reproduces the syndrome (planar/toric_mwpm_syndrome)', rep, 'syndrome differs', c['syn'])
        ir = np.array([int(ch) for ch in c['rec']])
        if len(ir) != 2 * n or bitstr(zoo.letter_syndrome(zoo.stab_letter_codes(S), ir)) != c['syn']:
            ctx.violation('syndrome', '%s MWPM recovery does not reproduce the syndrome' % fam, dict(rep, recovery=c['rec']))
        if len(kern) < 24 and n <= 13 and nonzero and m_rec == c['rec']:
            kern.append((fam, sz, [p for _, m in c['calls'] for p in m], m_rec, c['syn']))
    ctx.extra['mwpm_model_decodes'] = sum(1 for c in cases if c['kind'] == 'decode')

    # in-kernel shard: model recovery = implementation recovery, and its syndrome, by vm_compute
    items = []
    for fam, sz, mates, rec_bits, syn in kern[::2]:
        if fam == 'planar':
            m = coq_list(['((%d, %d), (%d, %d))' % (a[0], a[1], b[0], b[1]) for a, b in mates])
            items.append('(match mwpm_recovery %d %d %s with Some r => beqv r %s && beqv (syndrome_of (stabs (planar_code %d %d)) r) %s '
                         '| None => false end)' % (sz[0], sz[1], m, coq_bits([ch == '1' for ch in rec_bits]), sz[0], sz[1],
                                                   coq_bits([ch == '1' for ch in syn])))
        else:
            m = coq_list(['((%d, %d, %d), (%d, %d, %d))' % (a[0], a[1], a[2], b[0], b[1], b[2]) for a, b in mates])
            items.append('(match toric_mwpm_recovery %d %d %s with Some r => beqv r %s && beqv (syndrome_of (stabs (toric_code %d %d)) r) %s '
                         '| None => false end)' % (sz[0], sz[1], m, coq_bits([ch == '1' for ch in rec_bits]), sz[0], sz[1],
                                                   coq_bits([ch == '1' for ch in syn])))
    text = ('From Coq Require Import List Bool ZArith NArith.\nFrom QV Require Import Core.Bits Core.Pauli Core.Symp Core.Code '
            'Lattice.Planar Lattice.Toric Decoders.PlanarMwpm Decoders.ToricMwpm.\nImport ListNotations.\nOpen Scope Z_scope.\n'
            'Definition checks : list bool :=\n [' + ';\n  '.join(items) + '].\n'
            'Example corr : forallb (fun b => b) checks = true.\nProof. vm_compute. reflexivity. Qed.\n')
    ctx.kernel_cases('mwpm_model', text)
    ctx.extra['mwpm_model_kernel_cases'] = len(items)
