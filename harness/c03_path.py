"""C03, the recovery construction of RotatedPlanarSMWPMDecoder:
  _path_operator(code, a_index, b_index), _cluster_to_paths_and_defect(code, cluster), _recovery(code, clusters)
against the Gallina model of Decoders/SmwpmWalk.v + Decoders/SmwpmPath.v (engine build/qmodel_smp), whose theorems
  smwpm_path_syndrome_all      (all rows, cols >= 3; all same-type pairs of plaquette indices in plaquette bounds or virtual)
  smwpm_recovery_syndrome_all  (all rows, cols >= 3; all lists of clusters)
say: the path operator anticommutes with exactly the real plaquettes among {a, b}; the recovery's syndrome is the XOR of
the indicators of the indices it pairs up.

run_extra(ctx):
  (1) for every size 3x3 .. 7x7 (all 25, non-square included, + 8x5, 3x9; thorough: all .. 10x10) and EVERY ordered pair of same-type indices of
      RotatedPlanarSMWPMDecoder._plaquette_indices(code) (the real plaquettes and the virtual ones one step outside the
      lattice - exactly the indices the decoder's graphs are built from): the real _path_operator == the model
      (ctx.cmp), and the property evaluated directly: bsp(op, stabilizers.T) == indicator(a) xor indicator(b) on the
      real plaquettes (paulitools.bsp and an independent numpy product) -> ctx.violation('smwpm-path-syndrome', ...);
      a sample of different-type pairs must raise ValueError on both sides;
  (2) random clusters (lists of (t, x, y), mixed plaquette types, lengths 2..8, repeated plaquettes at different t,
      even/even, odd/odd (left-over Y-defect) and a few parity-mismatched ones that must raise) through the real
      _recovery == the model, and the direct rule: syndrome == XOR of the indicators of the indices paired by
      consecutive pairs per type (last one left over when odd) -> ctx.violation('smwpm-recovery-syndrome', ...);
  (3) an in-kernel shard re-checks a sample of (1), (2), (4) by vm_compute;
  (4) the rotated TORIC decoder (Decoders/SmwpmToric.v: smwpm_toric_recovery_syndrome_all, smwpm_toric_recovery_even_all,
      all even rows, cols >= 2, all clusters of any integer indices): random clusters on 2x2 .. 6x6 (even, non-square
      included; indices inside the lattice window and a share outside it - the path takes indices modulo the lattice)
      through the real RotatedToricSMWPMDecoder._recovery_tparities(code, time_steps, clusters)[0] == the model (engine
      command `trecovery`), and the direct rule: syndrome == XOR of the indicators (modulo the lattice) of the indices
      paired by consecutive pairs per type -> ctx.violation('smwpm-toric-recovery-syndrome', ...); the two t-parities are
      compared with an independent count of the pairs that wrap the time boundary ('smwpm-toric-tparity')."""
import os

import numpy as np

from harness.common import bitstr, coq_bits, coq_list, COQ

SIZES_Q = [(r, c) for r in range(3, 8) for c in range(3, 8)] + [(8, 5), (3, 9)]
SIZES_T = [(r, c) for r in range(3, 11) for c in range(3, 11)]


def _bsp_independent(ops, stabs):
    """symplectic product of every row of `ops` with every row of `stabs`, written without paulitools"""
    n = stabs.shape[1] // 2
    ox, oz = ops[:, :n].astype(int), ops[:, n:].astype(int)
    return (ox.dot(stabs[:, n:].astype(int).T) + oz.dot(stabs[:, :n].astype(int).T)) % 2


def _nodes(code, Dec):
    return [tuple(int(v) for v in i) for i in Dec._plaquette_indices(code).flatten()]


def _indicator(pos, m, idxs):
    v = np.zeros(m, dtype=int)
    for i in idxs:
        if i in pos:
            v[pos[i]] ^= 1
    return v


def _expected_recovery_syndrome(code, pos, m, clusters):
    """the rule, independently: per cluster, per type, consecutive pairs; the last index is left over when the count is odd"""
    v = np.zeros(m, dtype=int)
    for cl in clusters:
        for typ in (1, 0):
            idxs = [(x, y) for _, x, y in cl if (x - y) % 2 == typ]
            if len(idxs) % 2:
                idxs = idxs[:-1]
            v ^= _indicator(pos, m, idxs)
    return v


def _cl_str(clusters):
    return ';'.join(','.join('%d:%d:%d' % i for i in cl) for cl in clusters) or '-'


def _call(fn, *a):
    try:
        return 'ok', np.asarray(fn(*a))
    except AssertionError:
        return 'ERR AssertionError', None
    except ValueError:
        return 'ERR ValueError', None
    except Exception as ex:  # noqa
        return 'ERR Exception', type(ex).__name__


TSIZES = [(r, c) for r in (2, 4, 6) for c in (2, 4, 6)]


def _toric_pairs(cl):
    """the rule, independently: per type, consecutive pairs; the last index is left over when the count is odd"""
    out = []
    for typ in (1, 0):
        idxs = [i for i in cl if (i[1] - i[2]) % 2 == typ]
        out.append([(idxs[k], idxs[k + 1]) for k in range(0, len(idxs) - 1, 2)])
    return out  # [x pairs, z pairs]


def _toric_expected(rows, cols, pos, m, clusters, time_steps):
    v = np.zeros(m, dtype=int)
    tp = [0, 0]
    for cl in clusters:
        for k, pairs in enumerate(_toric_pairs(cl)):
            for a, b in pairs:
                for (_, x, y) in (a, b):
                    v[pos[(x % cols, y % rows)]] ^= 1
                d = abs(a[0] % time_steps - b[0] % time_steps)
                tp[k] ^= 1 if 2 * d > time_steps else 0
    return v, tp


def _toric_mismatch(cl):
    nx = len([1 for i in cl if (i[1] - i[2]) % 2 == 1])
    return nx % 2 != (len(cl) - nx) % 2


def _toric_call(Dec, code, time_steps, clusters):
    try:
        op, xt, zt = Dec._recovery_tparities(code, time_steps, [list(cl) for cl in clusters])
        return 'ok', np.asarray(op), [int(xt), int(zt)]
    except Exception as ex:  # noqa
        return 'ERR Exception', type(ex).__name__, None


def _run_toric(ctx, req, cases, kern_t):
    from qecsim import paulitools as pt
    from qecsim.models.rotatedtoric import RotatedToricCode, RotatedToricSMWPMDecoder as Dec
    rng = ctx.rng
    for rows, cols in TSIZES:
        code = RotatedToricCode(rows, cols)
        S = code.stabilizers
        m, n = S.shape[0], code.n_k_d[0]
        real = [tuple(int(v) for v in i) for i in code._plaquette_indices]
        pos = {i: k for k, i in enumerate(real)}
        if len(pos) != rows * cols or m != rows * cols:
            ctx.violation('smwpm-toric-index-set', 'the code does not have rows*cols distinct plaquette indices',
                          {'kind': 'smwpm-toric-index-set', 'rows': rows, 'cols': cols})
            continue
        for trial in range(ctx.pick(16, 80)):
            clusters = []
            bad = trial % 8 == 7
            wide = trial % 4 == 1
            for _ in range(rng.randint(1, 4)):
                while True:
                    nx, nz = rng.randint(0, 8), rng.randint(0, 8)
                    if (nx - nz) % 2 == 0 and 2 <= nx + nz <= 8 and (trial % 2 or nx % 2 == 0):
                        break
                lo_x, hi_x, lo_y, hi_y = (-cols, 2 * cols, -rows, 2 * rows) if wide else (0, cols - 1, 0, rows - 1)
                cl = []
                for want_x in [1] * nx + [0] * nz:
                    while True:
                        x, y = rng.randint(lo_x, hi_x), rng.randint(lo_y, hi_y)
                        if (x - y) % 2 == want_x:
                            break
                    cl.append((rng.randint(0, 5), x, y))
                if len(cl) > 2 and rng.random() < 0.5:  # a repeated plaquette at another time
                    cl[rng.randrange(len(cl))] = (6,) + cl[rng.randrange(len(cl))][1:]
                    if _toric_mismatch(cl):
                        continue
                rng.shuffle(cl)
                clusters.append(cl)
            if not clusters:
                clusters = [[(0, 0, 0), (1, cols - 1, rows - 1)]]
            if bad:
                clusters[-1] = clusters[-1] + [(9, rng.randint(0, cols - 1), rng.randint(0, rows - 1))]
            time_steps = rng.choice([1, 2, 3, 5, 6, 7])
            st, rec, tps = _toric_call(Dec, code, time_steps, clusters)
            line = 'trecovery %d %d %s' % (rows, cols, _cl_str(clusters))
            cases.append(('trecovery', line, st if st != 'ok' else bitstr(rec), len(req)))
            req.append(line)
            odd = any(len([1 for i in cl if (i[1] - i[2]) % 2 == 1]) % 2 for cl in clusters)
            ctx.count(key=('trecovery', rows, cols, trial), nontrivial=not bad,
                      kind='toric-recovery:%s%s' % ('parity-mismatch' if bad else 'with-Y-defect' if odd else 'all-even',
                                                   '/outside-window' if wide else ''),
                      sample={'fn': 'RotatedToricSMWPMDecoder._recovery_tparities', 'size': [rows, cols], 'time_steps': time_steps,
                              'clusters': [[list(i) for i in cl] for cl in clusters]})
            rep = {'kind': 'smwpm-toric-recovery', 'rows': rows, 'cols': cols, 'time_steps': time_steps,
                   'clusters': [[list(i) for i in cl] for cl in clusters]}
            if bad:
                if st == 'ok':
                    ctx.violation('smwpm-toric-recovery-syndrome', 'a cluster with X/Z counts of different parity did not raise', rep)
                continue
            if st != 'ok':
                ctx.violation('smwpm-toric-recovery-syndrome', '_recovery_tparities raised %s (%s)' % (st, rec), rep)
                continue
            want, want_tp = _toric_expected(rows, cols, pos, m, clusters, time_steps)
            got = np.asarray(pt.bsp(rec, S.T)) if rec.shape == (2 * n,) else None
            if got is None or not np.array_equal(got, want) or not np.array_equal(_bsp_independent(rec[None, :], S)[0], want):
                ctx.violation('smwpm-toric-recovery-syndrome',
                              'syndrome of the operator of _recovery_tparities(clusters) is not the XOR of the indicators (modulo '
                              'the lattice) of the paired indices: got %s expected %s'
                              % (bitstr(got) if got is not None else 'bad shape', bitstr(want)), rep)
            if tps != want_tp:
                ctx.violation('smwpm-toric-tparity', 't-parities of _recovery_tparities are %s, the pairs wrapping the time '
                              'boundary give %s' % (tps, want_tp), rep)
            if len(kern_t) < 6 and rng.random() < 0.1:
                kern_t.append((rows, cols, clusters, rec))


def run_extra(ctx):
    from qecsim import paulitools as pt
    from qecsim.models.rotatedplanar import RotatedPlanarCode, RotatedPlanarSMWPMDecoder as Dec
    rng = ctx.rng
    sizes = SIZES_Q if ctx.quick else SIZES_T
    req, cases = [], []
    kern_p, kern_r = [], []
    for rows, cols in sizes:
        code = RotatedPlanarCode(rows, cols)
        S = code.stabilizers
        m, n = S.shape[0], code.n_k_d[0]
        real = [tuple(int(v) for v in i) for i in code._plaquette_indices]
        pos = {i: k for k, i in enumerate(real)}
        nodes = _nodes(code, Dec)
        # the decoder's index set: every real plaquette, the rest virtual
        for i in nodes:
            if not (code.is_in_plaquette_bounds(i) or code.is_virtual_plaquette(i)):
                ctx.violation('smwpm-index-set', 'a decoder plaquette index is neither in bounds nor virtual',
                              {'kind': 'smwpm-index-set', 'rows': rows, 'cols': cols, 'index': list(i)})
        if not set(real) <= set(nodes):
            ctx.violation('smwpm-index-set', 'a real plaquette is missing from the decoder index set',
                          {'kind': 'smwpm-index-set', 'rows': rows, 'cols': cols})
        # ---- (1) all ordered same-type pairs ----
        ops, exp, meta = [], [], []
        for a in nodes:
            for b in nodes:
                same = code.is_z_plaquette(a) == code.is_z_plaquette(b)
                if not same and rng.random() > 0.02:
                    continue
                st, op = _call(Dec._path_operator, code, a, b)
                line = 'path %d %d %d %d %d %d' % (rows, cols, a[0], a[1], b[0], b[1])
                cases.append(('path', line, st if op is None or st != 'ok' else bitstr(op), len(req)))
                req.append(line)
                virt = (a not in pos) + (b not in pos)
                ctx.count(key=('path', rows, cols, a, b) if len(cases) % 97 == 0 else None, nontrivial=(same and a != b),
                          kind='path:%s' % ('different-type' if not same else 'same' if a == b else
                                            ('real-real', 'real-virtual', 'virtual-virtual')[virt]),
                          sample={'fn': '_path_operator', 'size': [rows, cols], 'a': list(a), 'b': list(b)})
                if not same:
                    if st != 'ERR ValueError':
                        ctx.violation('smwpm-path-types', 'different plaquette types did not raise ValueError: %s' % st,
                                      {'kind': 'smwpm-path', 'rows': rows, 'cols': cols, 'a': list(a), 'b': list(b)})
                    continue
                if st != 'ok':
                    ctx.violation('smwpm-path-syndrome', '_path_operator raised %s on admissible same-type indices' % st,
                                  {'kind': 'smwpm-path', 'rows': rows, 'cols': cols, 'a': list(a), 'b': list(b)})
                    continue
                ops.append(op)
                exp.append(_indicator(pos, m, [a]) ^ _indicator(pos, m, [b]))
                meta.append((a, b))
                if len(kern_p) < 24 and n <= 20 and a != b and rng.random() < 0.01:
                    kern_p.append((rows, cols, a, b, op))
        if ops:
            ops_, exp_ = np.array(ops), np.array(exp)
            ok_shape = ops_.shape == (len(ops), 2 * n)
            got = np.asarray(pt.bsp(ops_, S.T)) if ok_shape else None
            got2 = _bsp_independent(ops_, S) if ok_shape else None
            for k, (a, b) in enumerate(meta):
                if not ok_shape or not np.array_equal(got[k], exp_[k]) or not np.array_equal(got2[k], exp_[k]):
                    ctx.violation('smwpm-path-syndrome',
                                  'syndrome of _path_operator(a, b) is not indicator(a) xor indicator(b) on the real plaquettes: '
                                  'got %s expected %s' % (bitstr(got[k]) if ok_shape else 'bad shape', bitstr(exp_[k])),
                                  {'kind': 'smwpm-path', 'rows': rows, 'cols': cols, 'a': list(a), 'b': list(b)})
        # ---- (2) random clusters ----
        xs = [i for i in nodes if code.is_x_plaquette(i)]
        zs = [i for i in nodes if code.is_z_plaquette(i)]
        for trial in range(ctx.pick(14, 60)):
            clusters = []
            bad = trial % 12 == 11
            for _ in range(rng.randint(1, 4)):
                while True:
                    nx, nz = rng.randint(0, 8), rng.randint(0, 8)
                    if (nx - nz) % 2 == 0 and 2 <= nx + nz <= 8:
                        break
                # small pools, drawn with replacement: repeated plaquettes at different times
                px = [rng.choice(xs) for _ in range(rng.randint(1, 4))]
                pz = [rng.choice(zs) for _ in range(rng.randint(1, 4))]
                cl = [(rng.randint(0, 5),) + rng.choice(px) for _ in range(nx)] + \
                     [(rng.randint(0, 5),) + rng.choice(pz) for _ in range(nz)]
                rng.shuffle(cl)
                clusters.append(cl)
            if bad:
                cl = clusters[-1]
                clusters[-1] = cl + [(9,) + rng.choice(xs)]
            st, rec = _call(Dec._recovery, code, [list(cl) for cl in clusters])
            line = 'recovery %d %d %s' % (rows, cols, _cl_str(clusters))
            cases.append(('recovery', line, st if st != 'ok' else bitstr(rec), len(req)))
            req.append(line)
            odd = any(len([1 for i in cl if (i[1] - i[2]) % 2 == 1]) % 2 for cl in clusters)
            ctx.count(key=('recovery', rows, cols, trial), nontrivial=not bad,
                      kind='recovery:%s' % ('parity-mismatch' if bad else 'with-Y-defect' if odd else 'all-even'),
                      sample={'fn': '_recovery', 'size': [rows, cols], 'clusters': [[list(i) for i in cl] for cl in clusters]})
            rep = {'kind': 'smwpm-recovery', 'rows': rows, 'cols': cols, 'clusters': [[list(i) for i in cl] for cl in clusters]}
            if bad:
                if st == 'ok':
                    ctx.violation('smwpm-recovery-syndrome', 'a cluster with X/Z counts of different parity did not raise', rep)
                continue
            if st != 'ok':
                ctx.violation('smwpm-recovery-syndrome', '_recovery raised %s (%s)' % (st, rec), rep)
                continue
            want = _expected_recovery_syndrome(code, pos, m, clusters)
            got = np.asarray(pt.bsp(rec, S.T)) if rec.shape == (2 * n,) else None
            if got is None or not np.array_equal(got, want) or not np.array_equal(_bsp_independent(rec[None, :], S)[0], want):
                ctx.violation('smwpm-recovery-syndrome',
                              'syndrome of _recovery(clusters) is not the XOR of the indicators of the paired indices: got %s '
                              'expected %s' % (bitstr(got) if got is not None else 'bad shape', bitstr(want)), rep)
            if len(kern_r) < 6 and n <= 20 and rng.random() < 0.1:
                kern_r.append((rows, cols, clusters, rec))
    # ---- (4) rotated toric ----
    kern_t = []
    n_planar = len(cases)
    _run_toric(ctx, req, cases, kern_t)
    out = ctx.model('smp', req)
    for kind, line, impl, i in cases:
        ctx.cmp({'path': 'RotatedPlanarSMWPMDecoder._path_operator', 'recovery': 'RotatedPlanarSMWPMDecoder._recovery',
                 'trecovery': 'RotatedToricSMWPMDecoder._recovery_tparities[0]'}[kind], line, impl, out[i])
    ctx.extra['smwpm_path_cases'] = n_planar
    ctx.extra['smwpm_toric_cases'] = len(cases) - n_planar

    # ---- (3) in-kernel shard ----
    if os.path.exists(os.path.join(COQ, 'theories', 'Decoders', 'SmwpmPath.vo')):
        items = []
        for rows, cols, a, b, op in kern_p:
            items.append('match smwpm_path_operator %d %d (%d, %d) (%d, %d) with Some o => beqv o %s | None => false end'
                         % (rows, cols, a[0], a[1], b[0], b[1], coq_bits(op.tolist())))
        for rows, cols, clusters, rec in kern_r:
            cl = coq_list([coq_list(['(%d, %d, %d)' % i for i in c]) for c in clusters])
            items.append('match smwpm_recovery %d %d %s with Some o => beqv o %s | None => false end'
                         % (rows, cols, cl, coq_bits(rec.tolist())))
        toric_vo = os.path.exists(os.path.join(COQ, 'theories', 'Decoders', 'SmwpmToric.vo'))
        if toric_vo:
            for rows, cols, clusters, rec in kern_t:
                cl = coq_list([coq_list(['(%d, %d, %d)' % i for i in c]) for c in clusters])
                items.append('match smwpm_toric_recovery %d %d %s with Some o => beqv o %s | None => false end'
                             % (rows, cols, cl, coq_bits(rec.tolist())))
        else:
            ctx.notes.append('Decoders/SmwpmToric.vo not built: in-kernel shard of the toric recovery correspondence skipped')
        if items:
            text = ('From Coq Require Import List Bool ZArith.\nFrom QV Require Import Core.Bits Decoders.SmwpmWalk '
                    'Decoders.SmwpmPath' + (' Decoders.SmwpmToric' if toric_vo else '') + '.\nImport ListNotations.\nOpen Scope Z_scope.\n'
                    'Definition checks : list bool :=\n [' + ';\n  '.join(items) + '].\n'
                    'Example corr : forallb (fun b => b) checks = true.\nProof. vm_compute. reflexivity. Qed.\n')
            ctx.kernel_cases('smwpm_path', text)
            ctx.extra['smwpm_kernel_cases'] = len(items)
    else:
        ctx.notes.append('Decoders/SmwpmPath.vo not built: in-kernel shard of the path correspondence skipped')


def replay(r):
    """re-evaluate one recorded failing input on the implementation; 1 = reproduced"""
    from qecsim import paulitools as pt
    if r['kind'].startswith('smwpm-toric'):
        return _replay_toric(r)
    from qecsim.models.rotatedplanar import RotatedPlanarCode, RotatedPlanarSMWPMDecoder as Dec
    code = RotatedPlanarCode(r['rows'], r['cols'])
    S = code.stabilizers
    real = [tuple(int(v) for v in i) for i in code._plaquette_indices]
    pos = {i: k for k, i in enumerate(real)}
    m = S.shape[0]
    if r['kind'] == 'smwpm-path':
        a, b = tuple(r['a']), tuple(r['b'])
        st, op = _call(Dec._path_operator, code, a, b)
        same = code.is_z_plaquette(a) == code.is_z_plaquette(b)
        if not same:
            bad = st != 'ERR ValueError'
        else:
            want = _indicator(pos, m, [a]) ^ _indicator(pos, m, [b])
            bad = st != 'ok' or not np.array_equal(pt.bsp(op, S.T), want)
            print('syndrome now:', bitstr(pt.bsp(op, S.T)) if st == 'ok' else st, 'expected:', bitstr(want))
    elif r['kind'] == 'smwpm-recovery':
        clusters = [[tuple(i) for i in cl] for cl in r['clusters']]
        st, rec = _call(Dec._recovery, code, [list(cl) for cl in clusters])
        mism = any(len([1 for i in cl if (i[1] - i[2]) % 2 == 1]) % 2 != len([1 for i in cl if (i[1] - i[2]) % 2 == 0]) % 2
                   for cl in clusters)
        if mism:
            bad = st == 'ok'
        else:
            want = _expected_recovery_syndrome(code, pos, m, clusters)
            bad = st != 'ok' or not np.array_equal(pt.bsp(rec, S.T), want)
            print('syndrome now:', bitstr(pt.bsp(rec, S.T)) if st == 'ok' else st, 'expected:', bitstr(want))
    else:
        nodes = _nodes(code, Dec)
        bad = any(not (code.is_in_plaquette_bounds(i) or code.is_virtual_plaquette(i)) for i in nodes) or not set(real) <= set(nodes)
    print('REPRODUCED' if bad else 'not reproduced')
    return 1 if bad else 0


def _replay_toric(r):
    from qecsim import paulitools as pt
    from qecsim.models.rotatedtoric import RotatedToricCode, RotatedToricSMWPMDecoder as Dec
    rows, cols = r['rows'], r['cols']
    code = RotatedToricCode(rows, cols)
    S = code.stabilizers
    real = [tuple(int(v) for v in i) for i in code._plaquette_indices]
    pos = {i: k for k, i in enumerate(real)}
    m = S.shape[0]
    if r['kind'] == 'smwpm-toric-index-set':
        bad = len(pos) != rows * cols or m != rows * cols
    else:
        clusters = [[tuple(i) for i in cl] for cl in r['clusters']]
        st, rec, tps = _toric_call(Dec, code, r['time_steps'], clusters)
        if any(_toric_mismatch(cl) for cl in clusters):
            bad = st == 'ok'
        else:
            want, want_tp = _toric_expected(rows, cols, pos, m, clusters, r['time_steps'])
            bad = st != 'ok' or not np.array_equal(pt.bsp(rec, S.T), want) or tps != want_tp
            print('syndrome now:', bitstr(pt.bsp(rec, S.T)) if st == 'ok' else st, 'expected:', bitstr(want),
                  't-parities now:', tps, 'expected:', want_tp)
    print('REPRODUCED' if bad else 'not reproduced')
    return 1 if bad else 0
