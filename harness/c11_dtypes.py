"""Round-5 strengthening of C11: MIXED ELEMENT TYPES inside one network.

Every earlier regime hands the implementation float64 arrays only.  The property quantifies over "real tensor entries",
and qecsim's own networks mix element types (tt.tsr.delta returns dtype int, weight nodes are float64), so here the site
tensors of ONE network carry different numpy dtypes - int64, int32, float64, float32 - in structured patterns (integer
rows / columns first or last, checkerboard as the decoders build it, a single float site among integer sites and the
reverse, float32 next to float64) and at random, on networks whose bulk sites all have the SAME shape (all internal bonds
equal) as well as on randomly shaped and None-padded ones.  Integer-typed sites hold integers (copy tensors or random);
float-typed sites hold dyadic NON-INTEGER values mantissa * 2^k, k in -4..0.

Exactness (checked per network, not assumed): the product of the largest |mantissa| of every site and of all internal
bond dimensions is below 2^24 if a float32 site is present, else below 2^31 if an int32 site is present, else below 2^53.
Every partial sum any contraction order can form is an integer of at most that size times a power of two, so it is
represented exactly in every element type numpy's promotion rules can pick for it (products of float32 only stay
float32, of int32 only stay int32, anything else is at least as wide as float64's 53 bits), and the power of two stays
far inside the float32 exponent range.  Hence `==` against

    exact value = (integer contraction value of the mantissas) * 2^(sum of k)

is meaningful; the mantissa value comes from the extracted model (engine c11 `contract` / `value` / `pairwise` lines)
and from two independent integer evaluations (harness.c11_extra.exact_mantissa_value).

The same operation histories as in rounds 3/4 (harness.c11_extra.history_ops: every sweep direction, transposed,
repeated, every split, partial results and transposes collected first and used later, no-op truncation settings, the
caller's tensors compared bit-for-bit - dtype included - after every operation) are run on these networks, plus direct
mps.contract_pairwise calls on mixed-dtype column pairs compared entry by entry with an integer evaluation."""
import json
import math
from fractions import Fraction

import numpy as np

from harness.c11 import Net, gen_net, gen_occ, canon_contract, canon_col, model_cost, spec_cost, hexint, opt
from harness.c11_extra import exact_mantissa_value, exactness_bound, history_ops, run_history, _is_padded

INT_DT = ('int64', 'int32')
FLT_DT = ('float64', 'float32')
LIMBITS = {'int64': 53, 'float64': 53, 'int32': 31, 'float32': 24}


def site_array(m, k, dt):
    """mantissa array (int64), binary exponent, dtype name -> numpy array of that dtype holding m * 2^k exactly"""
    if dt in INT_DT:
        if k != 0:
            raise ValueError('integer-typed site with a binary exponent')
        a = m.astype(dt)
        if not np.array_equal(a.astype(np.int64), m):
            raise ValueError('mantissa does not fit ' + dt)
        return a
    wide = np.ldexp(m.astype(np.float64), int(k))
    a = wide.astype(dt)
    if not np.array_equal(a.astype(np.float64), wide):
        raise ValueError('value is not exact in ' + dt)
    return a


class DNet(Net):
    """Net plus a numpy dtype name per site"""

    def __init__(self, R, C, mant, k, dt):
        Net.__init__(self, R, C, mant, k)
        self.dt = dt

    def build(self):
        tn = np.empty((self.R, self.C), dtype=object)
        for r in range(self.R):
            for c in range(self.C):
                m = self.mant[r][c]
                tn[r, c] = None if m is None else site_array(m, self.k[r][c], self.dt[r][c])
        return tn

    arrays = build

    def limit(self):
        return 1 << min([53] + [LIMBITS[self.dt[r][c]] for r in range(self.R) for c in range(self.C)
                                if self.mant[r][c] is not None])

    def T(self):
        base = Net.T(self)
        return DNet(base.R, base.C, base.mant, base.k, [[self.dt[r][c] for r in range(self.R)] for c in range(self.C)])

    def dtype_map(self):
        return '/'.join(','.join('_' if self.mant[r][c] is None else self.dt[r][c] for c in range(self.C))
                        for r in range(self.R))

    def to_json(self):
        d = Net.to_json(self)
        d['dtyped'] = True
        for r in range(self.R):
            for c in range(self.C):
                if d['sites'][r][c] is not None:
                    d['sites'][r][c]['dtype'] = self.dt[r][c]
        return d

    @staticmethod
    def from_json(d):
        base = Net.from_json(d)
        dt = [[None if d['sites'][r][c] is None else d['sites'][r][c]['dtype'] for c in range(base.C)]
              for r in range(base.R)]
        return DNet(base.R, base.C, base.mant, base.k, dt)


PATTERNS = ('rows-int-first', 'rows-float-first', 'cols-int-first', 'cols-float-first', 'checker', 'checker-odd',
            'one-float', 'one-int', 'float-widths', 'int-widths', 'random', 'random')


def copy_tensor(shape):
    """1 where all indices of the non-dummy legs are equal, else 0 (written here, not taken from the implementation)"""
    m = np.zeros(shape, dtype=np.int64)
    nd = [i for i, d in enumerate(shape) if d > 1]
    for idx in np.ndindex(*shape):
        if len(set(idx[i] for i in nd)) <= 1:
            m[idx] = 1
    return m


def gen_dtyped(rng, R, C, pattern=None):
    """network with per-site dtypes inside the exactness regime of its narrowest dtype"""
    # ---- shapes: all internal bonds equal (bulk sites of a column equally shaped), or random
    uniform = rng.random() < 0.6
    if uniform:
        occ = gen_occ(rng, R, C, rng.random() < 0.65)
        d = rng.choice([2, 2, 2, 3])
        if d ** (sum(sum(row) for row in occ) * 2) > 2 ** 60:   # rough: keep the bond budget well below 53 bits
            d = 2

        def vdim(r, c):     # bond between (r, c) and (r + 1, c)
            return d if (0 <= r and r + 1 < R and occ[r][c] and occ[r + 1][c]) else 1

        def hdim(r, c):     # bond between (r, c) and (r, c + 1)
            return d if (0 <= c and c + 1 < C and occ[r][c] and occ[r][c + 1]) else 1
        shapes = [[(vdim(r - 1, c), hdim(r, c), vdim(r, c), hdim(r, c - 1)) if occ[r][c] else None for c in range(C)]
                  for r in range(R)]
    else:
        base = gen_net(rng, R, C, cap=24)
        shapes = [[None if base.mant[r][c] is None else base.mant[r][c].shape for c in range(C)] for r in range(R)]
    sites = [(r, c) for r in range(R) for c in range(C) if shapes[r][c] is not None]
    nt = len(sites)
    probe = Net(R, C, [[None if s is None else np.ones(s, dtype=np.int64) for s in row] for row in shapes],
                [[0] * C for _ in range(R)])
    bits = sum(math.log2(dd) for (_a, _b, dd) in probe.bonds())
    if bits > 50:
        return None
    ints = [t for t in INT_DT if bits + 1 <= LIMBITS[t] - 1]
    flts = [t for t in FLT_DT if bits + 1 <= LIMBITS[t] - 1]
    if rng.random() < 0.5:      # half of the networks stay with the 64-bit types (more room for the mantissas)
        ints, flts = ints[:1], flts[:1]
    # ---- dtype pattern
    pattern = pattern or rng.choice(PATTERNS)
    if pattern == 'float-widths' and len(flts) < 2:
        pattern = 'rows-int-first'
    if pattern == 'int-widths' and len(ints) < 2:
        pattern = 'cols-int-first'
    a_r, a_c = rng.randint(1, max(1, R - 1)), rng.randint(1, max(1, C - 1))
    one = rng.choice(sites)
    int_dt, flt_dt = rng.choice(ints), rng.choice(flts)
    vary = rng.random() < 0.3   # widths vary from site to site inside the integer / float parts

    def is_int(r, c):
        if pattern == 'rows-int-first':
            return r < a_r
        if pattern == 'rows-float-first':
            return r >= a_r
        if pattern == 'cols-int-first':
            return c < a_c
        if pattern == 'cols-float-first':
            return c >= a_c
        if pattern == 'checker':
            return (r + c) % 2 == 0
        if pattern == 'checker-odd':
            return (r + c) % 2 == 1
        if pattern == 'one-float':
            return (r, c) != one
        if pattern == 'one-int':
            return (r, c) == one
        if pattern == 'float-widths':
            return False
        if pattern == 'int-widths':
            return True
        return rng.random() < 0.5
    dt = [[None] * C for _ in range(R)]
    for (r, c) in sites:
        if is_int(r, c):
            dt[r][c] = rng.choice(ints) if (vary or pattern == 'int-widths') else int_dt
        else:
            dt[r][c] = rng.choice(flts) if (vary or pattern == 'float-widths') else flt_dt
    limbits = min(LIMBITS[dt[r][c]] for (r, c) in sites)
    mb = max(0, min(5, int((limbits - 1 - bits) // max(nt, 1))))
    M = 1 << mb
    mant = [[None] * C for _ in range(R)]
    k = [[0] * C for _ in range(R)]
    for (r, c) in sites:
        shape = shapes[r][c]
        n = int(np.prod(shape))
        if dt[r][c] in INT_DT and rng.random() < 0.45:
            m = copy_tensor(shape)
        else:
            vals = [0 if rng.random() < 0.15 else rng.randint(-M, M) for _ in range(n)]
            if rng.random() < 0.5:
                vals = [abs(v) for v in vals]
            if not any(v % 2 for v in vals):
                vals[rng.randrange(n)] = 1       # an odd mantissa: the float value is not an integer when k < 0
            m = np.array(vals, dtype=np.int64).reshape(shape)
        mant[r][c] = m
        if dt[r][c] in FLT_DT and rng.random() < 0.85:
            k[r][c] = -rng.randint(1, 4)
    net = DNet(R, C, mant, k, dt)
    if exactness_bound(net) >= net.limit():
        return None
    return net


def n_mixed_groups(net):
    """number of (column pair, left shape, right shape) groups of >= 2 rows whose members differ in dtype"""
    n = 0
    for c in range(net.C - 1):
        groups = {}
        for r in range(net.R):
            a, b = net.mant[r][c], net.mant[r][c + 1]
            if a is not None and b is not None:
                groups.setdefault((a.shape, b.shape), set()).add((net.dt[r][c], net.dt[r][c + 1]))
        n += sum(1 for g in groups.values() if len(g) > 1)
    return n


# -----------------------------------------------------------------------------------------------------------------
def run(ctx):
    from qecsim import tensortools as tt
    from harness.common import exc_class
    rng = ctx.rng
    req, exp = [], []
    ctx.rule += ('; plus the same histories on MIXED-DTYPE networks 1x2..5x4 (site tensors of one network typed int64 / int32 / '
                 'float64 / float32 in structured patterns - integer rows or columns first or last, checkerboard, one float '
                 'site among integer sites and the reverse, float32 next to float64 - and at random; all internal bonds equal '
                 'so that the bulk sites of a column have one shape, or random shapes, with and without None padding; integer '
                 'sites hold copy tensors or random integers, float sites dyadic non-integers mantissa * 2^-1..-4; product '
                 'bound below 2^24 / 2^31 / 2^53 according to the narrowest dtype present), and direct contract_pairwise '
                 'calls on mixed-dtype column pairs of equally and differently shaped sites')
    ctx.trusted.append('mixed-dtype networks: numpy promotion never yields a type narrower than the narrowest operand type '
                       '(products of float32 stay float32, of int32 stay int32); the generator keeps every partial sum below '
                       'the mantissa capacity of the narrowest dtype PRESENT in the network, checked per network')

    # ---- (a) direct contract_pairwise calls on mixed-dtype column pairs ---------------------------------------
    nrec = 0
    for it in range(ctx.pick(400, 3000)):
        pair = gen_pair(rng)
        Lc, Rc = pair_arrays(pair, 'left'), pair_arrays(pair, 'right')
        snap = [None if t is None else (t.dtype.str, t.tobytes()) for t in Lc + Rc]
        try:
            p = tt.mps.contract_pairwise(Lc, Rc)
        except Exception as e:  # noqa
            p = 'ERR ' + exc_class(e) + ': ' + str(e)[:80]
        ctx.count('pairdt' + json.dumps(pair)[:3000], pair_is_mixed(pair), 'contract_pairwise mixed dtypes')
        bad = pair_errors(pair, p)
        if [None if t is None else (t.dtype.str, t.tobytes()) for t in Lc + Rc] != snap:
            bad.append('an operand was modified')
        if bad and nrec < 2:       # a few records here; the histories below report the same defect on whole networks
            nrec += 1
            ctx.violation('pairwise-dtypes', 'contract_pairwise on columns whose sites have differing dtypes is not '
                          'sum_e L[n,e,s,w] R[N,E,S,e] at ((nN),E,(sS),w): ' + '; '.join(bad[:4]), {'pairwise_dtypes': pair})
        if not isinstance(p, str) and it % 2 == 0:
            scales = [(0 if le is None else le['exp2']) + (0 if ri is None else ri['exp2'])
                      for le, ri in zip(pair['left'], pair['right'])]
            req.append('pairwise %s %s' % (pair_enc(pair['left']), pair_enc(pair['right'])))
            exp.append(('contract_pairwise(mixed dtypes)', {'pairwise_dtypes': pair}, canon_col(list(p), scales)))

    # ---- (b) histories on mixed-dtype networks ---------------------------------------------------------------
    n_nets = ctx.pick(320, 2000)
    made = 0
    for it in range(n_nets):
        R, C = rng.choice([(1, 2), (2, 1), (2, 2), (2, 3), (3, 2), (3, 3), (3, 3), (4, 3), (4, 3), (3, 4), (4, 4), (5, 3), (5, 4),
                           (4, 2), (5, 2), (2, 4)])
        net = gen_dtyped(rng, R, C, pattern=PATTERNS[it] if it < len(PATTERNS) - 1 else None)
        if net is None:
            continue
        made += 1
        tscale = net.total_scale()
        mval = exact_mantissa_value(net)
        exact = Fraction(mval) * Fraction(2) ** tscale
        kinds = sorted(set(net.dt[r][c] for r in range(R) for c in range(C) if net.mant[r][c] is not None))
        ctx.count('dtyped' + net.enc() + '@' + net.dtype_map(), len(kinds) > 1 and n_mixed_groups(net) > 0,
                  'mixed-dtype net %dx%d%s %s' % (R, C, ' padded' if _is_padded(net) else '', '+'.join(kinds)),
                  {'regime': 'dtypes', 'rows': R, 'cols': C, 'dtype_of_site': net.dtype_map(), 'value_exp2': tscale,
                   'mantissa_value': mval, 'equally_shaped_groups_with_differing_dtypes': n_mixed_groups(net)}
                  if made == 4 else None)
        ops = history_ops(rng, R, C, ctx.pick(1, 4))
        run_history(ctx, tt, net, ops, 'dtypes', exact)
        # correspondence with the extracted engine on the mantissas: full sweeps, partial sweeps, the spec value
        if it % 2 == 0 and model_cost(net, range(C)) <= 400000:
            enc = net.enc()
            rep = {'net': net.to_json(), 'regime': 'dtypes'}
            vals = [None] + list(range(-C - 1, C + 2))
            sss = [(None, None, None), (None, None, -1), (None, -1, None), (-1, 0, -1),
                   (rng.choice(vals), rng.choice(vals), rng.choice([None, 1, -1]))]
            for (a, b, s) in sss:
                cols = list(range(*slice(a, b, s).indices(C)))
                try:
                    res = tt.mps2d.contract(net.build(), start=a, stop=b, step=s)
                except Exception as e:  # noqa
                    res = 'ERR ' + exc_class(e)
                ctx.count(None, False, 'dtypes contract %s' % ('full' if len(cols) == C else 'partial'))
                req.append('contract %s _ _ %s %s %s _' % (enc, opt(a), opt(b), opt(s)))
                exp.append(('contract(mixed dtypes)', dict(rep, start=a, stop=b, step=s), canon_contract(res, net, cols)))
            if spec_cost(net) <= 60000:
                req.append('value %d %s' % (R, enc))
                exp.append(('value(spec, mixed dtypes)', rep, hexint(exact, tscale)))
    ctx.extra['mixed_dtype_nets'] = made

    out = ctx.model('c11', req, timeout=900)
    for (fn, inp, impl), m in zip(exp, out):
        ctx.cmp(fn, inp, impl, m)
    ctx.extra['model_requests_round5'] = len(req)


# -----------------------------------------------------------------------------------------------------------------
# column pairs for contract_pairwise: JSON-able description {'left': [site|None...], 'right': [...]},
# site = {'shape', 'mantissas', 'exp2', 'dtype'}
def gen_pair(rng):
    R = rng.randint(2, 5)
    same = rng.random() < 0.7
    ls = (rng.choice([1, 2]), rng.choice([1, 2, 3]), rng.choice([1, 2]), rng.choice([1, 2]))
    rs = (rng.choice([1, 2]), rng.choice([1, 2]), rng.choice([1, 2]), ls[1])
    ints = INT_DT if rng.random() < 0.5 else INT_DT[:1]
    flts = FLT_DT if rng.random() < 0.5 else FLT_DT[:1]
    mode = rng.choice(['int-first', 'float-first', 'random', 'random', 'widths'])
    a = rng.randint(1, R - 1)
    left, right = [], []
    for r in range(R):
        if not same:
            e = rng.choice([1, 2, 3])
            ls = (rng.choice([1, 2]), e, rng.choice([1, 2]), rng.choice([1, 2]))
            rs = (rng.choice([1, 2]), rng.choice([1, 2]), rng.choice([1, 2]), e)
        row = []
        for side, shape in (('l', ls), ('r', rs)):
            if mode == 'int-first':
                isint = r < a
            elif mode == 'float-first':
                isint = r >= a
            elif mode == 'widths':
                isint = False
            else:
                isint = rng.random() < 0.5
            dt = rng.choice(ints) if isint else rng.choice(flts)
            vals = [rng.choice([0, 1, 1, -1, 2, -3, 3]) for _ in range(int(np.prod(shape)))]
            if not any(v % 2 for v in vals):
                vals[0] = 1
            row.append({'shape': list(shape), 'mantissas': vals, 'dtype': dt,
                        'exp2': 0 if (isint or rng.random() < 0.15) else -rng.randint(1, 4)})
        u = rng.random()
        left.append(None if (u < 0.06 and R > 2) else row[0])
        right.append(None if (0.06 <= u < 0.12 and R > 2) else row[1])
    return {'left': left, 'right': right}


def pair_arrays(pair, side):
    return [None if s is None else site_array(np.array(s['mantissas'], dtype=np.int64).reshape(s['shape']), s['exp2'], s['dtype'])
            for s in pair[side]]


def pair_enc(col):
    return '|'.join('_' if s is None else '%d.%d.%d.%d:%s' % (tuple(s['shape']) + (','.join(str(v) for v in s['mantissas']),))
                    for s in col)


def pair_is_mixed(pair):
    groups = {}
    for le, ri in zip(pair['left'], pair['right']):
        if le is not None and ri is not None:
            groups.setdefault((tuple(le['shape']), tuple(ri['shape'])), set()).add((le['dtype'], ri['dtype']))
    return any(len(g) > 1 for g in groups.values())


def pair_errors(pair, p):
    """independent entry-by-entry evaluation in Python ints / exact powers of two"""
    if isinstance(p, str):
        return [p]
    bad = []
    if len(p) != len(pair['left']):
        return ['result has %d sites' % len(p)]
    for r, (le, ri) in enumerate(zip(pair['left'], pair['right'])):
        t = p[r]
        if le is None or ri is None:
            s = ri if le is None else le
            if s is None:
                if t is not None:
                    bad.append('row %d: None/None gives a tensor' % r)
                continue
            want = np.ldexp(np.array(s['mantissas'], dtype=np.float64).reshape(s['shape']), s['exp2'])
        else:
            lm = np.array(le['mantissas'], dtype=np.int64).reshape(le['shape'])
            rm = np.array(ri['mantissas'], dtype=np.int64).reshape(ri['shape'])
            wm = np.zeros((lm.shape[0] * rm.shape[0], rm.shape[1], lm.shape[2] * rm.shape[2], lm.shape[3]), dtype=np.int64)
            for n in range(lm.shape[0]):
                for N in range(rm.shape[0]):
                    for E in range(rm.shape[1]):
                        for s_ in range(lm.shape[2]):
                            for S in range(rm.shape[2]):
                                for w in range(lm.shape[3]):
                                    wm[n * rm.shape[0] + N, E, s_ * rm.shape[2] + S, w] = sum(
                                        int(lm[n, e, s_, w]) * int(rm[N, E, S, e]) for e in range(lm.shape[1]))
            want = np.ldexp(wm.astype(np.float64), le['exp2'] + ri['exp2'])
        if t is None or tuple(t.shape) != want.shape:
            bad.append('row %d: shape %s, expected %s' % (r, None if t is None else tuple(t.shape), want.shape))
        elif not np.array_equal(np.asarray(t, dtype=np.float64), want):
            i = np.argwhere(np.asarray(t, dtype=np.float64) != want)[0]
            bad.append('row %d entry %s: got %r, exact %r' % (r, tuple(int(x) for x in i), float(t[tuple(i)]), float(want[tuple(i)])))
    return bad


def replay_pairwise(rep):
    from qecsim import tensortools as tt
    pair = rep['pairwise_dtypes']
    try:
        p = tt.mps.contract_pairwise(pair_arrays(pair, 'left'), pair_arrays(pair, 'right'))
    except Exception as e:  # noqa
        p = 'ERR %s: %s' % (type(e).__name__, e)
    bad = pair_errors(pair, p)
    for b in bad:
        print(b)
    print('REPRODUCED' if bad else 'not reproduced')
    return 1 if bad else 0
