"""C15 — lattice paths connect exactly their endpoints (planar, toric, rotated toric)."""
import json

from harness import lat_aliased, lat_common, lat_pathhist


def run(ctx):
    ctx.rule = ('every ordered pair of same-type plaquettes (planar: incl. boundary-virtual; tori: incl. wrapping indices) '
                'on every size up to the tier bound: path bsf, translation, decoder distance, syndrome->plaquette map equal '
                'to the model; syndrome of the path = indicator of the in-lattice endpoints, weight = distance, translation '
                'symmetric, evaluated on the implementation. nontrivial = pair with both coordinates differing, wrap-around '
                'tie or a virtual end; histories on one Pauli object (paths on Paulis that already carry operators, '
                'repeated / overlapping paths, reads in between): every read = previous bsf XOR the model\'s path operator; '
                'call histories on the codes (every syndrome resolved several times on the same / another / a fresh equal code while '
                'the caller pops / clears / extends / keeps the returned sets): every answer = the model\'s')
    lat_common.prepare(ctx)
    fams = lat_common.run_families(ctx, 'check_c15', translator_families=['planar', 'toric', 'rottoric'])
    lat_common.stage(ctx, 'path_histories', lat_pathhist.path_histories)
    lat_common.extreme_sizes(ctx)
    lat_aliased.result_aliased(ctx)
    ctx.extra['families'] = fams


def replay(path):
    print(json.dumps(json.load(open(path)), indent=1, default=str))
    return 0
