"""C20 — the DecodeResult precondition under every call spelling of the documented constructor.

Documented constructor (property text, class docstring): DecodeResult(success=None, logical_commutations=None,
recovery=None, custom_values=None); it raises QecsimError exactly when success is None and recovery is None.

A caller may hand over the four values positionally, by keyword, or mixed (a positional prefix followed by keywords,
with unset parameters spelled as an explicit None or left out). For every value tuple (None / ordinary / degenerate
values per parameter) and every such spelling:
  * built  <=>  success is not None or recovery is not None  (expected verdict: engine request `dr_ok`, i.e.
    Core/Code.decode_result_ok, and the same sentence evaluated here),
  * no other exception,
  * every attribute holds the value passed for the parameter of that name, the caller's arrays are left alone,
  * the results collected during the whole sweep still hold their values at the end (no state shared between results).
"""
import inspect

import numpy as np

DOC_ORDER = ('success', 'logical_commutations', 'recovery', 'custom_values')


def _show(v):
    return repr(v).replace('\n', ' ')


def _same(got, want):
    if want is None or got is None or isinstance(want, (bool, np.bool_)):
        return got is want
    if got is want:
        return True
    return (isinstance(got, np.ndarray) and got.shape == want.shape and got.dtype == want.dtype
            and np.array_equal(got, want))


def spellings(vals, rng):
    """all ways to write the call with a positional prefix of length p and the rest as keywords (explicit None
    or left out); keyword order shuffled; yields (args, kwargs, text-of-the-spelling)"""
    seen = set()
    for p in range(len(DOC_ORDER) + 1):
        for explicit_none in (True, False):
            args = tuple(vals[:p])
            names = [nm for nm, v in zip(DOC_ORDER[p:], vals[p:]) if explicit_none or v is not None]
            rng.shuffle(names)
            sig = (p, tuple(names))
            if sig in seen:
                continue
            seen.add(sig)
            kwargs = {nm: vals[DOC_ORDER.index(nm)] for nm in names}
            text = 'DecodeResult(%s)' % ', '.join([_show(a) for a in args]
                                                    + ['%s=%s' % (nm, _show(kwargs[nm])) for nm in names])
            yield args, kwargs, text, p


def run(ctx, req, exp):
    from qecsim.error import QecsimError
    from qecsim.model import DecodeResult
    rng = ctx.rng

    class UserResult(DecodeResult):
        """a decoder author's own result type that does not touch the constructor"""

    try:
        actual_sig = str(inspect.signature(DecodeResult.__init__))
    except (TypeError, ValueError):
        actual_sig = '?'
    domains = (
        (None, False, True, np.bool_(False)),
        (None, np.array([0, 1]), np.array([0, 0, 0, 0])),
        (None, np.array([0, 1, 0, 0, 1, 1]), np.zeros(6, dtype=int)),
        (None, np.array([3.5]), np.array([0])),
    )
    tuples = [(a, b, c, d) for a in domains[0] for b in domains[1] for c in domains[2] for d in domains[3]]
    collected = []
    flagged = set()   # two replays per key: both directions of the guard, two positional counts otherwise

    def viol(key, what, rep):
        # one replay per key and spelling class is enough
        tag = (key, rep.get('constructed', rep.get('positional arguments')))
        if tag in flagged or sum(1 for t in flagged if t[0] == key) >= 2:
            return
        flagged.add(tag)
        ctx.violation(key, what, rep)

    for vals in tuples:
        backup = [None if v is None or not isinstance(v, np.ndarray) else v.copy() for v in vals]
        for args, kwargs, text, p in spellings(vals, rng):
            for cls in ((DecodeResult, UserResult) if p in (0, 2, 3) else (DecodeResult,)):
                want_built = vals[0] is not None or vals[2] is not None
                rep = {'call': text if cls is DecodeResult else text.replace('DecodeResult(', 'UserResult(', 1),
                       'class': cls.__name__ + (' (subclass of DecodeResult without its own __init__)'
                                                 if cls is UserResult else ''),
                       'documented signature': '(self, success=None, logical_commutations=None, recovery=None, '
                                               'custom_values=None)',
                       'signature found': actual_sig,
                       'positional arguments': p, 'keywords': sorted(kwargs),
                       'values (documented order)': [_show(v) for v in vals]}
                d = None
                try:
                    d = cls(*args, **kwargs)
                    r = '1'
                except QecsimError:
                    r = '0'
                except Exception as e:  # noqa
                    r = 'ERR ' + type(e).__name__
                    viol('decode-result-call', 'a documented spelling of the DecodeResult constructor is refused with '
                         'an exception other than QecsimError', dict(rep, exception='%s: %s' % (type(e).__name__, e)))
                req.append('dr_ok %s %s' % ('_' if vals[0] is None else 's', '_' if vals[2] is None else 'r'))
                exp.append(('DecodeResult', r))
                ctx.count(('dr', rep['call']), p >= 2 or cls is UserResult,
                          'decode-result-%s' % ('keyword' if p == 0 else 'positional' if not kwargs else 'mixed'),
                          rep['call'] if (p == 2 and vals[0] is None and vals[1] is not None and len(collected) < 40)
                          else None)
                if r in '01' and (r == '1') != want_built:
                    viol('decode-result-guard', 'DecodeResult must be constructible iff success is fixed or a '
                         'recovery is supplied', dict(rep, constructed=(r == '1'), want_constructed=want_built))
                if d is not None and want_built:
                    got = [getattr(d, nm, 'attribute missing') for nm in DOC_ORDER]
                    bad = [nm for nm, g, v in zip(DOC_ORDER, got, vals) if not _same(g, v)]
                    if bad:
                        viol('decode-result-fields', 'DecodeResult does not hold, under each attribute, the value '
                             'passed for the parameter of that name',
                             dict(rep, wrong=bad, attributes={nm: _show(g) for nm, g in zip(DOC_ORDER, got)}))
                    else:
                        collected.append((d, vals, rep))
                if not all(b is None or (v.shape == b.shape and np.array_equal(v, b)) for v, b in zip(vals, backup)):
                    viol('decode-result-pure', 'constructing a DecodeResult modified the arrays handed to it', rep)
                    return
    # results collected before use: every one still holds its own values
    for d, vals, rep in collected:
        bad = [nm for nm, v in zip(DOC_ORDER, vals) if not _same(getattr(d, nm, 'attribute missing'), v)]
        if bad:
            viol('decode-result-collected', 'a DecodeResult no longer holds its values after later results were built',
                 dict(rep, wrong=bad, results_built=len(collected)))
            break
    ctx.extra['decode_result'] = {'value tuples': len(tuples), 'calls': sum(1 for e in exp if e[0] == 'DecodeResult'),
                                  'results kept and re-read at the end': len(collected)}
