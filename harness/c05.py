"""C05 — merge is a lossless, order- and partition-insensitive fold of run aggregates."""
import copy
import json
import math
import os
import shutil
import tempfile
from fractions import Fraction

from harness.common import exc_class, coq_list

GRP = ('code', 'n_k_d', 'error_model', 'decoder', 'error_probability', 'time_steps', 'measurement_error_probability')
SCAL = ('n_run', 'n_fail', 'n_success', 'error_weight_total', 'wall_time')
ARR = ('n_logical_commutations', 'custom_totals')
UNIT = 2 ** 20
CVU = 4           # custom totals are generated as dyadic quarters k/4: the model sees the integers k
COUNTS = ('n_run', 'n_fail', 'n_success', 'error_weight_total')


def norm(v):
    return tuple(v) if isinstance(v, list) else v


def ulps(a, b):
    return 0 if a == b else abs(a - b) / math.ulp(max(abs(a), abs(b)))


class Ids:
    """per-field equivalence ids under Python == (after list->tuple normalisation)"""

    def __init__(self):
        self.vals = [[] for _ in GRP]

    def get(self, i, v):
        v = norm(v)
        for j, w in enumerate(self.vals[i]):
            if w == v and type(w is None) == type(v is None):
                return j
        self.vals[i].append(v)
        return len(self.vals[i]) - 1


def py(v):
    """numpy scalars -> Python numbers (value preserving)"""
    return v.item() if hasattr(v, 'item') and hasattr(v, 'dtype') else v


def npdef(o):
    if hasattr(o, 'item') and hasattr(o, 'dtype'):
        return o.item()
    raise TypeError(repr(o))


def frac(v):
    """exact value of a number, None if it is not a (finite) number"""
    v = py(v)
    if isinstance(v, bool) or not isinstance(v, (int, float, Fraction)):
        return None
    try:
        return Fraction(v)
    except (ValueError, OverflowError):
        return None


def zs(v, unit=1):
    """v * unit as an exact integer string (never truncates: a non-integral value is spelled out, so it cannot be
    mistaken for the model's integer)"""
    f = frac(v)
    if f is None or (f * unit).denominator != 1:
        return 'NONINT<%r>' % (v,)
    return str(int(f * unit))


def ints(a, unit=1):
    if a is None:
        return '_'
    a = [zs(x, unit) for x in a]
    return ','.join(a) if a else '-'


def enc_record(ids, r):
    ks = []
    for i, k in enumerate(GRP):
        ks.append(str(ids.get(i, r[k])) if k in r else '_')
    n = int(norm(r['n_k_d'])[0])
    tv = str(int(r['time_steps'])) if 'time_steps' in r else '_'
    tok = '%s:%d:%s:%s:%s:%s:%s:%s:%s:%s' % (
        ','.join(ks), n, tv, zs(r['n_run']), zs(r['n_fail']), zs(r['n_success']), zs(r['error_weight_total']),
        zs(r['wall_time'], UNIT),
        ints(r['n_logical_commutations']) if 'n_logical_commutations' in r else 'A',
        ints(r['custom_totals'], CVU) if 'custom_totals' in r else 'A')
    assert 'NONINT' not in tok, tok      # generated inputs stay inside the model's exact domain
    return tok


def enc_rows(ids, out):
    """implementation result in the model's format"""
    rows = []
    for r in out:
        if any(k not in r for k in GRP + SCAL + ARR):
            rows.append('MALFORMED-ROW ' + ','.join(sorted(r)))
            continue
        ks = ','.join(str(ids.get(i, r[k])) for i, k in enumerate(GRP))
        rows.append('%s:%s:%s:%s:%s:%s:%s:%s' % (ks, zs(r['n_run']), zs(r['n_fail']), zs(r['n_success']),
                                                zs(r['error_weight_total']), zs(r['wall_time'], UNIT),
                                                ints(r['n_logical_commutations']), ints(r['custom_totals'], CVU)))
    return ';'.join(rows) if rows else '-'


def enc_request(ids, lists):
    dT, dq = ids.get(5, 1), ids.get(6, 0.0)
    return 'merge %d %d %s' % (dT, dq, '|'.join(';'.join(enc_record(ids, r) for r in l) if l else '-' for l in lists))


def group_key(ids, r):
    return tuple(ids.get(i, r.get(k, {5: 1, 6: 0.0}.get(i))) for i, k in enumerate(GRP))


def canon_rows(rows):
    """order-insensitive canonical form of a merge result"""
    def num(v):   # Python == identifies 1, 1.0 and True: compare numbers by value, not spelling
        if isinstance(v, (tuple, list)):
            return [num(x) for x in v]
        v = py(v)
        if isinstance(v, (int, float)) and not isinstance(v, str):
            return float(v)
        return v
    out = []
    for r in rows:
        out.append(json.dumps({k: num(v) for k, v in r.items()}, sort_keys=True))
    return sorted(out)


def run(ctx):
    import logging
    logging.getLogger('qecsim').setLevel(logging.ERROR)
    tmp = tempfile.mkdtemp(prefix='qv_c05_')
    cwd = os.getcwd()
    try:
        _run(ctx, tmp)
    finally:
        os.chdir(cwd)
        shutil.rmtree(tmp, ignore_errors=True)


def _run(ctx, tmp):
    import numpy as np
    from click.testing import CliRunner
    import warnings
    with warnings.catch_warnings():
        warnings.simplefilter('ignore')
        import qecsim.cli as qc
    from qecsim import app
    rng = ctx.rng
    runner = CliRunner()
    ctx.rule = ('pools of records with variants differing in exactly one of the 7 key fields, with/without arrays, '
                'tuple/list encoded, int/float/numpy-integer spelled numbers, integer and real-valued (dyadic k/4) '
                'custom totals, legacy field sets; random partitions into 1-5 lists, '
                'permutations, nested merges, JSON round trips; dyadic wall times so float sums are exact; '
                'CLI layer: the lists written to data files and merged by `qecsim merge` with every file named once, '
                'files named twice, the same file under several path spellings, byte-identical copies under other '
                'names, output to stdout or -o. nontrivial = >=2 groups, >=1 group with >=3 records, arrays present')
    ctx.props_obligations()
    req, exp, kern = [], [], []
    cli_req = []

    def base_record():
        n = rng.choice([5, 7, 13, 25])
        T = rng.choice([1, 1, 3])
        return {'code': rng.choice(['5-qubit', 'Planar 3x3', 'Steane']), 'n_k_d': (n, 1, rng.choice([3, None])),
                'error_model': rng.choice(['Depolarizing', 'Bit-flip']), 'decoder': rng.choice(['Naive', 'MWPM']),
                'error_probability': rng.choice([0.0, 0.125, 0.1, 0.5]), 'time_steps': T,
                'measurement_error_probability': rng.choice([0.0, 0.125]) if T > 1 else 0.0}

    def payload(r, lcs, cvs, cvmode):
        nr = rng.randint(1, 50)
        nf = rng.randint(0, nr)
        r = dict(r)

        def cv():
            # custom totals are sums of a decoder's numeric custom values: integers or reals (dyadic so sums are exact)
            if cvmode == 'int' or (cvmode == 'mixed' and rng.random() < 0.5):
                return rng.randint(-5, 30)
            return rng.randint(-20, 120) / CVU
        r.update({'n_run': nr, 'n_fail': nf, 'n_success': nr - nf, 'error_weight_total': rng.randint(0, 200),
                  'error_weight_pvar': rng.random(), 'logical_failure_rate': nf / nr, 'physical_error_rate': rng.random(),
                  'wall_time': rng.randint(0, 5000) / 1024.0,
                  'n_logical_commutations': None if lcs is None else tuple(rng.randint(0, nr) for _ in range(lcs)),
                  'custom_totals': None if cvs is None else tuple(cv() for _ in range(cvs))})
        return r

    def variant(r):
        r = dict(r)
        k = rng.choice(GRP)
        if k == 'n_k_d':
            t = list(r[k])
            j = rng.randrange(3)
            t[j] = rng.choice([2, 9, 11]) if j == 0 else rng.choice([None, 2, 9])
            r[k] = tuple(t)
        elif k in ('code', 'error_model', 'decoder'):
            r[k] = r[k] + rng.choice(['!', ' ', 'x'])
        elif k == 'time_steps':
            r[k] = r[k] + rng.choice([1, 2])
        else:
            r[k] = rng.choice([0.25, 0.75, 1.0, 0.3])
        return r

    def respell(r):
        """same record, spelled differently: list for tuple, float for int and vice versa, numpy integers, legacy
        field sets"""
        r = dict(r)
        if rng.random() < 0.4:
            r['n_k_d'] = list(r['n_k_d'])
        if rng.random() < 0.3:
            for k in ARR:
                if r[k] is not None:
                    r[k] = list(r[k])
        if rng.random() < 0.2 and r['time_steps'] == 1:
            r['time_steps'] = 1.0
        if rng.random() < 0.2 and r['error_probability'] in (0.0, 1.0):
            r['error_probability'] = int(r['error_probability'])
        u = rng.random()
        if u < 0.12:      # counts written as 5.0 (files produced / edited by other tools)
            for k in COUNTS:
                if rng.random() < 0.6:
                    r[k] = float(r[k])
            for k in ARR:
                if r[k] is not None and rng.random() < 0.6:
                    r[k] = type(r[k])(float(x) for x in r[k])
        elif u < 0.2:     # counts that are numpy integers (aggregates built with numpy by the caller)
            for k in COUNTS:
                if rng.random() < 0.6:
                    r[k] = np.int64(r[k])
            for k in ARR:
                if r[k] is not None and rng.random() < 0.6:
                    r[k] = type(r[k])(np.int64(x) if float(x).is_integer() else x for x in r[k])
        if rng.random() < 0.1 and float(r['wall_time']).is_integer():
            r['wall_time'] = int(r['wall_time'])
        if rng.random() < 0.15 and r['time_steps'] == 1 and r['measurement_error_probability'] == 0.0:
            del r['time_steps'], r['measurement_error_probability']          # 0.10 / 0.15 files
        if rng.random() < 0.15 and r['n_logical_commutations'] is None and r['custom_totals'] is None:
            del r['n_logical_commutations'], r['custom_totals']              # pre-1.0b6 files
        if rng.random() < 0.2:
            del r['error_weight_pvar']
        return r

    def call(lists):
        try:
            return app.merge(*lists), None
        except ValueError:
            return None, 'ERR ValueError'
        except Exception as e:  # noqa
            return None, 'ERR ' + exc_class(e)

    def inconsistent(groups):
        for g in groups.values():
            for k in ARR:
                vs = [r.get(k) for r in g]
                if any(v is None for v in vs) != all(v is None for v in vs) or \
                        len({len(v) for v in vs if v is not None}) > 1:
                    return True
        return False

    def check_rows(out, flat, ids, rep, pre=''):
        """the property evaluated directly on a successful merge result `out` of the records `flat` (in input order);
        all sums compared by exact value"""
        groups = {}
        for r in flat:
            groups.setdefault(group_key(ids, r), []).append(r)
        if len(out) != len(groups):
            ctx.violation(pre + 'groups', 'number of output rows != number of distinct 7-field keys', rep)
        for r in out:
            if set(r) != set(GRP + SCAL + ARR + ('logical_failure_rate', 'physical_error_rate')):
                ctx.violation(pre + 'row-fields', 'unexpected field set in merged row', dict(rep, fields=sorted(r)))
                return False
        for r in out:
            g = groups.get(tuple(ids.get(i, r[k]) for i, k in enumerate(GRP)))
            if g is None:
                ctx.violation(pre + 'groups', 'output row with a key no input has', rep)
                continue
            for k in SCAL:
                if frac(r[k]) is None or frac(r[k]) != sum(frac(x[k]) for x in g):
                    ctx.violation(pre + 'conservation-' + k, '%s not conserved' % k, rep)
            for k in ARR:
                vs = [x.get(k) for x in g]
                want = None if vs[0] is None else tuple(sum(frac(x) for x in c) for c in zip(*vs))
                got = r[k] if r[k] is None or not isinstance(r[k], (tuple, list)) else tuple(frac(x) for x in r[k])
                if got != want or (pre == '' and r[k] is not None and type(r[k]) is not tuple):
                    ctx.violation(pre + 'conservation-' + k, '%s not the element-wise sum' % k, rep)
            ok = all(frac(r[k]) is not None for k in COUNTS) and frac(r['n_run']) > 0
            if not ok or py(r['logical_failure_rate']) != py(r['n_fail']) / py(r['n_run']) or \
                    ulps(py(r['physical_error_rate']), float(frac(r['error_weight_total']) / (
                        Fraction(norm(r['n_k_d'])[0]) * frac(r['time_steps']) * frac(r['n_run'])))) > 4:
                ctx.violation(pre + 'rates', 'rates not recomputed from the sums', rep)
        first = []
        for r in flat:
            gk = group_key(ids, r)
            if gk not in first:
                first.append(gk)
        if [tuple(ids.get(i, r[k]) for i, k in enumerate(GRP)) for r in out] != first:
            ctx.violation(pre + 'row-order', 'rows not in first-occurrence order', rep)
        return True

    # ---------------------------------------------------------------- CLI layer
    def cli_layer(it, lists):
        """the same records as data files merged by `qecsim merge`: every partition into argument lists includes
        argument lists that name a file once, twice, under several spellings, or as byte-identical copies"""
        texts = [json.dumps(l, default=npdef) for l in lists]
        jl = [json.loads(t) for t in texts]
        d = os.path.join(tmp, 'c%d' % it)
        os.makedirs(os.path.join(d, 'sub'))
        os.chdir(d)
        try:
            names = ['data_%d.json' % i for i in range(len(texts))]
            for nm, t in zip(names, texts):
                with open(nm, 'w') as f:
                    f.write(t)
            nf = len(names)
            once = list(range(nf))
            rng.shuffle(once)
            seq = list(range(nf)) + [rng.randrange(nf) for _ in range(rng.randint(1, 3))]
            rng.shuffle(seq)
            plans = [('once', once, [names[i] for i in once]), ('twice', seq, [names[i] for i in seq])]
            spell, copies, seen = [], [], {}
            for j, i in enumerate(seq):
                c = seen.get(i, 0)
                seen[i] = c + 1
                spell.append([names[i], './' + names[i], os.path.join(d, names[i]), 'sub/../' + names[i]][c % 4])
                if c == 0:
                    copies.append(names[i])
                else:
                    cp = 'copy%d_of_%s' % (c, names[i])
                    shutil.copyfile(names[i], cp)
                    copies.append(cp)
            plans += [('spellings', seq, spell), ('copies', seq, copies)]
            for pname, idxs, args in plans:
                mode = rng.choice(['stdout', 'file'])
                outname = 'out_%s.json' % pname
                res = runner.invoke(qc.cli, ['merge'] + (['-o', outname] if mode == 'file' else []) + args)
                text = None
                if mode == 'file':
                    if os.path.exists(outname):
                        with open(outname) as f:
                            text = f.read()
                else:
                    lines = [ln for ln in (res.stdout or '').splitlines() if ln.strip()]
                    text = lines[-1] if lines else None
                try:
                    out = json.loads(text) if text is not None else None
                    if not isinstance(out, list) or not all(isinstance(r, dict) for r in out):
                        out = None
                except ValueError:
                    out = None
                mlists = [jl[i] for i in idxs]
                flat = [r for l in mlists for r in l]
                ids = Ids()
                line = enc_request(ids, mlists)
                impl = enc_rows(ids, out) if (res.exit_code == 0 and out is not None) else \
                    ('ERR exit=%s no-data' % res.exit_code if res.exit_code == 0 else 'ERR ValueError')
                rep = {'files': dict(zip(names, texts)), 'copies': 'copyN_of_X is a byte-identical copy of X',
                       'command': ['qecsim', 'merge'] + (['-o', outname] if mode == 'file' else []) + args,
                       'exit_code': res.exit_code, 'output': text if text is None else text[:2000],
                       'exception': repr(res.exception) if res.exception else None}
                groups = {}
                for r in flat:
                    groups.setdefault(group_key(ids, r), []).append(r)
                ctx.count(('cli', pname, line), len(groups) >= 2 and len(idxs) > nf, 'cli-' + pname)
                cli_req.append((line, impl, rep, pname))
                incons = inconsistent(groups)
                if incons != (res.exit_code != 0):
                    ctx.violation('cli-error-iff', '`qecsim merge` fails iff some group over the named files has '
                                  'inconsistent arrays: violated', rep)
                    continue
                if incons:
                    if out is not None and mode == 'file':
                        ctx.violation('cli-error-iff', '`qecsim merge` failed but wrote merged data', rep)
                    continue
                if out is None:
                    ctx.violation('cli-output', '`qecsim merge` exit 0 without a JSON list of records', rep)
                    continue
                # conservation etc. over the MENTIONS (a file named twice is two argument lists)
                check_rows(out, flat, ids, rep, 'cli-' + pname + '-')
                try:
                    api = canon_rows(app.merge(*copy.deepcopy(mlists)))
                except Exception as e:  # noqa
                    api = 'ERR ' + exc_class(e)
                if canon_rows(out) != api:
                    ctx.violation('cli-%s-vs-api' % pname, '`qecsim merge` result differs from app.merge over the lists '
                                  'of the named files (one list per mention)', dict(rep, api=api if isinstance(api, str) else api[:3]))
        finally:
            os.chdir(tmp)
            shutil.rmtree(d, ignore_errors=True)

    n_iter = ctx.pick(2000, 20000)
    for it in range(n_iter):
        bases = [base_record() for _ in range(rng.randint(1, 3))]
        bases += [variant(rng.choice(bases)) for _ in range(rng.randint(0, 3))]
        shapes = {}
        recs = []
        bad = rng.random() < 0.15   # malformed stream: inconsistent arrays inside one group
        cvmode = rng.choice(['int', 'int', 'quarter', 'quarter', 'mixed'])
        for _ in range(rng.randint(1, 9)):
            b = rng.choice(bases)
            key = json.dumps([norm(b[k]) for k in GRP], default=str)
            if key not in shapes:
                shapes[key] = (rng.choice([None, 0, 1, 2, 3]), rng.choice([None, None, 1, 2]))
            lcs, cvs = shapes[key]
            if bad and rng.random() < 0.3:
                lcs = rng.choice([None, 0, 1, 2, 4])
            recs.append(respell(payload(b, lcs, cvs, cvmode)))
        nl = rng.randint(1, 5)
        lists = [[] for _ in range(nl)]
        for r in recs:
            lists[rng.randrange(nl)].append(r)
        if rng.random() < 0.3:
            lists = [[dict(r, n_k_d=list(r['n_k_d'])) for r in l] for l in lists]
        snapshot = copy.deepcopy(lists)
        out, err = call(lists)
        if snapshot != lists or any(type(a[k]) is not type(b[k]) for la, lb in zip(snapshot, lists)
                                    for a, b in zip(la, lb) for k in a):
            ctx.violation('mutation', 'merge mutated its input lists', {'lists': snapshot})
        ids = Ids()
        line = enc_request(ids, lists)
        impl = err if out is None else enc_rows(ids, out)
        req.append(line)
        exp.append((impl, out))
        groups = {}
        for r in recs:
            groups.setdefault(group_key(ids, r), []).append(r)
        nontriv = len(groups) >= 2 and any(len(g) >= 3 for g in groups.values()) and \
            any(r.get('n_logical_commutations') is not None for r in recs)
        ctx.count(line, nontriv, 'malformed' if bad else 'wellformed',
                  {'lists': [[{k: v for k, v in r.items() if k in GRP + ('n_run', 'n_logical_commutations')} for r in l]
                             for l in lists], 'result': impl[:200]} if it % 500 == 3 else None)
        if any(frac(x) is not None and frac(x).denominator != 1 for r in recs for x in (r.get('custom_totals') or ())):
            ctx.extra['cases_with_real_valued_custom_totals'] = ctx.extra.get('cases_with_real_valued_custom_totals', 0) + 1
        rep = {'lists': snapshot, 'result': impl}
        if it % ctx.pick(8, 10) == 0:
            cli_layer(it, lists)
        # ---- the property evaluated directly on the implementation
        incons = inconsistent(groups)
        if incons != (out is None):
            ctx.violation('error-iff', 'ValueError raised iff some group has inconsistent arrays fails', rep)
            continue
        if out is None:
            # erroring must not depend on order / partition
            o2, e2 = call([list(reversed(recs))])
            if o2 is not None:
                ctx.violation('error-order', 'array mismatch accepted in another order', rep)
            continue
        if not check_rows(out, [x for l in lists for x in l], ids, rep):
            continue
        c0 = canon_rows(out)
        # permutation / partition / merge of merges / JSON / idempotence
        perm = recs[:]
        rng.shuffle(perm)
        cut = rng.randint(0, len(perm))
        laws = {
            'perm': lambda: app.merge(perm),
            'partition': lambda: app.merge(*[[r] for r in perm]),
            'merge-of-merges': lambda: app.merge(app.merge(perm[:cut]), app.merge(perm[cut:])),
            'incremental': lambda: app.merge(app.merge(app.merge(perm[:cut]), perm[cut:])),
            'json': lambda: app.merge(*json.loads(json.dumps(lists, default=npdef))),
            'json-output': lambda: app.merge(json.loads(json.dumps(out, default=npdef))),
            'idempotent': lambda: app.merge(out),
        }
        for name, f in laws.items():
            try:
                c1 = canon_rows(f())
            except Exception as e:  # noqa
                c1 = 'ERR ' + exc_class(e)
            if c1 != c0:
                ctx.violation('law-' + name, 'merge law "%s" fails' % name, dict(rep, other=c1 if isinstance(c1, str) else c1[:3]))
        if len(kern) < 60 and len(recs) <= 6:
            kern.append(line)

    # ---- CLI layer vs the model merge of the mentioned lists
    cli_m = ctx.model('c05', [c[0] for c in cli_req])
    for (line, impl, rep, pname), m in zip(cli_req, cli_m):
        core = m if (m.startswith('ERR') or m == '-') else ';'.join(':'.join(r.split(':')[:8]) for r in m.split(';'))
        if not ctx.cmp('merge (CLI, %s)' % pname, line[:600], impl, core):
            ctx.violation('cli-%s-vs-model' % pname, '`qecsim merge` result differs from the model merge of the lists of the '
                          'named files (one list per mention)', dict(rep, model=core[:1000], impl=impl[:1000]))

    outm = ctx.model('c05', req)
    for (impl, out), m, line in zip(exp, outm, req):
        if m.startswith('ERR') or impl.startswith('ERR') or m == '-':
            ctx.cmp('merge', line[:600], impl, m)
            continue
        mrows = m.split(';')
        core = ';'.join(':'.join(r.split(':')[:8]) for r in mrows)
        if ctx.cmp('merge', line[:600], impl, core):
            for r, mr in zip(out, mrows):
                fr, pr = (Fraction(int(t.split('/')[0]), int(t.split('/')[1])) for t in mr.split(':')[8:10])
                ctx.cmp('failure rate', line[:300], r['logical_failure_rate'], float(fr))
                if ulps(r['physical_error_rate'], float(pr)) > 4:
                    ctx.cmp('physical rate', line[:300], r['physical_error_rate'], float(pr))

    # ---- in-kernel shard: the same requests evaluated by vm_compute ----
    def raw(tok):
        ks, n, tv, run_, fail, succ, ewt, wall, lc, cv = tok.split(':')
        k = ks.split(',')

        def oz(s):
            return 'None' if s in ('_', 'A') else 'Some ' + coq_list(['(%s)%%Z' % x for x in (s.split(',') if s != '-' else [])])

        def on(s):
            return 'None' if s == '_' else '(Some %s)' % s
        return ('mkRaw %s %s %s %s %s %s %s (%s)%%Z %s (mkPay (%s)%%Z (%s)%%Z (%s)%%Z (%s)%%Z (%s)%%Z (%s) (%s)) %s %s'
                % (k[0], k[1], k[2], k[3], k[4], on(k[5]), on(k[6]), n, 'None' if tv == '_' else '(Some (%s)%%Z)' % tv,
                   run_, fail, succ, ewt, wall, oz(lc), oz(cv), 'false' if lc == 'A' else 'true',
                   'false' if cv == 'A' else 'true'))
    items = []
    idx = {l: i for i, l in enumerate(req)}
    for line in kern:
        _, dt, dq, ls = line.split(' ')
        lists = coq_list([coq_list([raw(t) for t in l.split(';')]) if l != '-' else '[]' for l in ls.split('|')])
        m = outm[idx[line]]
        if m.startswith('ERR'):
            want = 'None'
        else:
            rows = []
            for r in (m.split(';') if m != '-' else []):
                f = r.split(':')

                def oz(s):
                    return 'None' if s == '_' else 'Some ' + coq_list(['(%s)%%Z' % x for x in (s.split(',') if s != '-' else [])])
                rows.append('(%s, mkPay (%s)%%Z (%s)%%Z (%s)%%Z (%s)%%Z (%s)%%Z (%s) (%s))'
                            % (coq_list(f[0].split(',')), f[1], f[2], f[3], f[4], f[5], oz(f[6]), oz(f[7])))
            want = 'Some ' + coq_list(rows)
        items.append('(res_eqb (option_map (map (fun r => (row_key r, row_pay r))) (merge %s %s %s)) (%s))' % (dt, dq, lists, want))
    text = ('From Coq Require Import List Bool Arith ZArith.\nFrom QV Require Import App.Merge.\nImport ListNotations.\n'
            'Definition olz_eqb (a b : option (list Z)) := match a, b with None, None => true | Some x, Some y => '
            'if list_eq_dec Z.eq_dec x y then true else false | _, _ => false end.\n'
            'Definition pay_eqb (a b : payload) := Z.eqb (p_run a) (p_run b) && Z.eqb (p_fail a) (p_fail b) && '
            'Z.eqb (p_succ a) (p_succ b) && Z.eqb (p_ewt a) (p_ewt b) && Z.eqb (p_wall a) (p_wall b) && '
            'olz_eqb (p_lc a) (p_lc b) && olz_eqb (p_cv a) (p_cv b).\n'
            'Fixpoint rows_eqb (a b : list (key * payload)) := match a, b with [], [] => true | (k, p) :: a\', (k2, p2) :: b\' '
            '=> key_eqb k k2 && pay_eqb p p2 && rows_eqb a\' b\' | _, _ => false end.\n'
            'Definition res_eqb (a b : option (list (key * payload))) := match a, b with None, None => true | Some x, Some y '
            '=> rows_eqb x y | _, _ => false end.\n'
            'Definition checks : list bool :=\n [' + ';\n  '.join(items) + '].\n'
            'Example corr : forallb (fun b => b) checks = true.\nProof. vm_compute. reflexivity. Qed.\n')
    ctx.kernel_cases('sample', text)
    ctx.extra['kernel_cases'] = len(items)
    ctx.notes.append('in-kernel shard re-evaluates the model on the sampled requests and compares with the extracted '
                     'engine output that was itself compared with the implementation')


def replay(path):
    print(json.dumps(json.load(open(path)), indent=1, default=str))
    return 0
