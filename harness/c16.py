"""C16 — error-model distributions are valid and as documented.

For every IID error model (depolarizing, bit-flip, phase-flip, bit-phase-flip, biased-depolarizing on each
axis, biased-Y-X, centre-slice) the implementation's float distribution is converted *exactly* to
Fractions and
 (a) tested directly against the property text (non-negative, |sum-1| <= 2^-50, |Pr(I)-(1-p)| <= 2^-50,
     documented shape, special cases) with independent Python code, and
 (b) compared with the exact rational Gallina model (ErrorModels/DistQ.v) evaluated by the extracted engine
     on the same exactly-converted inputs (|impl-model| <= 1e-9*|model| + 2^-50*p + 2^-1070 per X/Y/Z entry,
     2^-50 absolute for Pr(I)).
Constructor domains are compared with the model's decision functions (exception classes).
Inputs: fresh objects over grids and random parameters; the end points of [0,1] and their binary64 neighbours for every
model and parameter value (an exception there is a violation; for biased-Y-X a failure is filed under a known F3 key only
when it is exactly the outcome of the pinned closed forms, see yx_pinned); and object-reuse HISTORIES -- live objects
swept over many p with attributes read in between in every order, repeated p, pools of several live objects, returned
mutable values overwritten -- every answer checked like a fresh one against the pure model (the object model and its
history-independence theorem are in ErrorModels/DistEnds.v), attributes required to stay the documented values; and
CALLER-OWNED CONSTRUCTOR ARGUMENTS -- the limit in every accepted container (tuple, list, float64 / int64 / float32
ndarray, already normalised or not), refilled by the caller after construction and between calls, several objects built
from one reused buffer -- every answer checked against the model on the values at construction time (snapshot
semantics, DistEnds.v section World) and the caller's object required untouched; and PROBABILITY ARGUMENT TYPES -- the
probability handed over as int / bool / np.int64 / np.int32 / np.bool_ (end points), np.float64 / np.float32 / Fraction
(any value), on fresh objects for every model and grid parameter and mixed into the histories (the per-object cache
identifies 1, 1.0 and True) -- every answer checked like that of a float of the same value (binary32 tolerance 2^-20 for
np.float32; Decimal, ndarray and unsigned NumPy integers are rejected by the unchanged tree and left out).
A sample is re-checked inside Coq (vm_compute) with the verified checkers valid_dist / close_dist."""
import json
import math
import warnings
from fractions import Fraction as F

from harness.common import exc_class

T50 = F(1, 2 ** 50)
T44 = F(1, 2 ** 44)   # biased-Y-X only: sqrt closed forms, conditioning ~ 1/bias
REL = F(1, 10 ** 9)
REL32 = F(1, 2 ** 20)  # limits handed over in a float32 array only: NumPy keeps normalisation and pos*lim in binary32
TINY = F(1, 2 ** 1070)
LET = 'IXYZ'


# ---------------------------------------------------------------- rationals <-> tokens
def qtok(x):
    x = F(x)
    n, d = x.numerator, x.denominator
    return ('-' if n < 0 else '') + '%x/%x' % (abs(n), d)


def tokq(t):
    a, b = t.split('/')
    neg = a.startswith('-')
    v = F(int(a.lstrip('-'), 16), int(b, 16))
    return -v if neg else v


def coq_q(x):
    x = F(x)
    n, d = x.numerator, x.denominator
    return '(Qmake (%s0x%x)%%Z 0x%x%%positive)' % ('-' if n < 0 else '', abs(n), d)


def coq_dist(d):
    return '(mkD %s %s %s %s)' % tuple(coq_q(v) for v in d)


def coq_f(x):
    """binary64 value -> Coq primitive-float literal (hexadecimal, exact)"""
    h = float(x).hex()
    return '(%s)%%float' % h


def frac_dist(d):
    """implementation output -> 4 exact Fractions (None when an entry is not a finite real number)"""
    out = []
    for v in d:
        try:
            f = float(v)
        except (TypeError, ValueError):
            return None
        if not math.isfinite(f):
            return None
        out.append(F(f))
    return out if len(out) == 4 else None


def isqrt_frac(x, bits):
    """sqrt of a Fraction x >= 0 rounded down to a multiple of 2^-bits"""
    return F(math.isqrt((x.numerator << (2 * bits)) // x.denominator), 1 << bits)


def close(p, impl, model, rel=REL):
    return abs(impl - model) <= rel * abs(model) + T50 * p + TINY


def close_dist(p, impl, model, t=T50, rel=REL):
    return abs(impl[0] - model[0]) <= t and all(close(p, impl[i], model[i], rel) for i in (1, 2, 3))


def pynum_tok(v):
    """classify a Python constructor argument the way DistQ.pynum does"""
    if isinstance(v, bool):
        return qtok(int(v))
    if isinstance(v, (int, float)):
        if isinstance(v, float):
            if math.isnan(v):
                return 'nan'
            if math.isinf(v):
                return 'inf' if v > 0 else '-inf'
        return qtok(F(v))
    return 'notnum'


def axis_tok(a):
    if isinstance(a, str):
        return 's:' + (','.join(str(ord(c)) for c in a) if a else '-')
    return 'other'


def lim_tok(lim):
    if not isinstance(lim, (tuple, list)):
        return 'notsized'
    return ','.join(pynum_tok(v) for v in lim) if len(lim) else '-'


# ---------------------------------------------------------------- the healthy region of the Y-X closed forms
def yx_healthy(bias, p):
    """region where the unchanged closed forms are accurate to 1e-9 (measured: <= 3e-11); outside it the
    cancellation defect F3 is a known finding"""
    return bias == 0 or (0.01 <= bias <= 100 and 0.01 <= p <= 0.99)


def yx_pinned(bias, p):
    """Fingerprint of known finding F3: the closed forms of the pinned commit, evaluated in binary64 exactly as
    written there.  It is NEVER used as an expected value.  Its only use: outside the healthy region a failing
    outcome of the implementation is filed under an F3 key only when it is *this* outcome (same exception class, or
    the same four floats) -- i.e. the finding key names the listed defective behaviour at that input, and any other
    failure at the same input (another exception, other wrong numbers) is reported as a new violation."""
    try:
        h = bias
        if h == 0:
            rx, ry = p, 0
        else:
            rx = 1 / 2 * (1 + h + p - h * p - math.sqrt(-4 * p + (1 + h + p - h * p) ** 2))
            ry = 1 / (2 * h) * (1 + h - p + h * p - math.sqrt(-4 * p + (1 + h + p - h * p) ** 2))
        px, py, pz = rx * (1 - ry), ry * (1 - rx), rx * ry
        return (1 - sum((px, py, pz)), px, py, pz)
    except (ValueError, OverflowError, ZeroDivisionError) as e:
        return type(e).__name__


def same_floats(d, ref):
    try:
        return (isinstance(ref, tuple) and len(d) == 4
                and all(float(a) == float(b) or (float(a) != float(a) and float(b) != float(b)) for a, b in zip(d, ref)))
    except (TypeError, ValueError):
        return False


class Hist:
    """an operation history over a pool of live model objects (replayable: see replay())"""
    n = 0

    def __init__(self, specs):
        Hist.n += 1
        self.hid = Hist.n
        self.specs = specs
        self.ops = []

    def snap(self):
        out = {'instances': list(self.specs), 'ops': [list(o) for o in self.ops], 'failing_op': len(self.ops) - 1}
        if getattr(self, 'buffers', None) is not None:
            out['buffers'] = self.buffers      # caller-owned argument objects (see run_arg_history)
        return out


def with_hist(rep, hist):
    if hist is not None:
        rep = dict(rep, history=hist.snap())
    return rep


def run(ctx):
    from qecsim.models.generic import (DepolarizingErrorModel, BitFlipErrorModel, PhaseFlipErrorModel,
                                       BitPhaseFlipErrorModel, BiasedDepolarizingErrorModel, BiasedYXErrorModel,
                                       CenterSliceErrorModel)
    rng = ctx.rng
    import numpy as np
    import os
    import sys
    import time
    t_start = [time.time()]

    def lap(what):
        if os.environ.get('VERIF_PROF'):
            sys.stderr.write('[c16 %7.1fs] %s\n' % (time.time() - t_start[0], what))
    warnings.filterwarnings('ignore', category=RuntimeWarning)   # nan/inf limits of the F4 probes
    ctx.rule = ('every IID model; p over the grid {0, 1, 2^-1074, 1e-300, 1e-17, ..., 1-2^-53} and random in [0,1]; the end '
                'points 0, 1, nextafter(0,1), nextafter(1,0), 2^-1022, 1-2^-52 for every model and every grid / 40 random '
                'parameter values (biased-Y-X included: an exception or a wrong answer there is excused as F3 only when it is '
                'exactly the outcome of the pinned closed forms); object-reuse histories: one live object swept over many p '
                '(every model, every grid parameter) and random histories over pools of 1-3 live objects, attributes read '
                'in between in every order, repeated p, returned mutable values overwritten, every answer checked like a '
                'fresh one and attributes required unchanged; constructor arguments owned by the caller: the slice limit '
                'passed as tuple / list / float64, int64, float32 ndarray (summing to exactly 1 or not), pos and bias as '
                'float / np.float64 / int, the caller overwriting or refilling its argument object after construction and '
                'between calls, 2-5 objects built from one or two reused buffers with answers read in between or only at '
                'the end: every answer and attribute is checked against the model on the values held at construction '
                'time, and the argument object must never be written by the implementation; probability argument types: every model '
                'and grid parameter at p = 0 and 1 given as int, bool, np.int64, np.int32, np.bool_, np.float64, np.float32, Fraction '
                'and at interior / neighbouring p as np.float64, np.float32 (value rounded to binary32, binary32 tolerance 2^-20), '
                'Fraction, on fresh objects and mixed into the histories (the cache identifies 1, 1.0, True): checked like a float '
                'of the same value (biased-Y-X: float32 / Fraction only at zero bias or p = 0); '
                'bias log-uniform in [1e-6,1e12] (biased-depolarizing, all axes, both cases) and in [1e-2,1e2] plus 0 '
                '(Y-X healthy region, p in [0.01,0.99]) with the cancellation region (F3) swept separately; slice '
                'limits with one or two zeros, pos in [-1,1] incl. 0, +-1, +-1e-12; constructor stream (negative / nan / '
                'inf / non-numeric bias, bad axis, lim of wrong length / all zero / no zero / negative / nan entries, '
                'pos out of range, wrong types). nontrivial = p not in {0,1} with a non-default parameter')
    lap('start')
    ctx.props_obligations()
    lap('props')
    # Print Assumptions prints the three Reals axioms over several lines; name them properly
    try:
        import os
        import re
        from harness.common import BUILD
        txt = open(os.path.join(BUILD, 'assumptions', 'C16.txt')).read()
        axs = sorted(set(re.findall(r'^([A-Z][\w.]*\.[a-z_]\w*)\b', txt, flags=re.M)))
        closed = txt.count('Closed under the global context')
        if ctx.assumptions:
            ctx.assumptions[-1] = ('Print Assumptions: %d theorems closed under the global context; the 4 biased-Y-X '
                                   'theorems over R (c16_yx_disc_nonneg, c16_yx_ratio, c16_yx_unique, c16_zero_bias_pure_x) '
                                   'use the standard-library axioms: %s' % (closed, ', '.join(axs) or 'none'))
            ctx.extra['print_assumptions'] = {'closed': closed, 'axioms': axs}
    except OSError:
        pass
    ctx.trusted += [
        'Python fractions.Fraction(float) as the exact value of a binary64 number; math.isqrt for the rational root '
        'handed to the Y-X model (accuracy 2^-bits, bits >= 160 + log2(1/p) + log2(1/bias): at most 2^-158 p on any entry)',
        'Coq Reals standard-library axioms for the four biased-Y-X theorems over R (named by Print Assumptions)',
    ]
    nq, nt = 1, 8
    scale = ctx.pick(nq, nt)

    pgrid = [0.0, 1.0, 2.0 ** -1074, 1e-300, 1e-17, 1e-9, 1e-3, 0.01, 0.1, 0.25, 1 / 3, 0.4, 0.5, 2 / 3, 0.75, 0.9,
             0.99, 0.999, 1 - 2.0 ** -20, 1 - 2.0 ** -53]
    # the two end points of [0,1], their binary64 neighbours, and the next layer (every model and every parameter
    # value is evaluated on all of them: an exception there for an accepted parameter is a violation)
    ends = [0.0, 1.0, math.nextafter(0.0, 1.0), math.nextafter(1.0, 0.0)]
    endpoints = [2.0 ** -1022, 1 - 2.0 ** -52]      # beyond those already in pgrid
    assert all(v in pgrid for v in ends)
    ends = ends + endpoints

    def rand_p():
        r = rng.random()
        if r < 0.7:
            return rng.random()
        if r < 0.8:
            return 10 ** rng.uniform(-17, 0)
        if r < 0.9:
            return 1 - 10 ** rng.uniform(-16, 0)
        return rng.choice(pgrid)

    req, pend = [], []     # engine requests and what to do with the answers

    def ask(line, fn):
        req.append(line)
        pend.append(fn)

    kern = []              # in-kernel sample
    kern2 = []             # in-kernel sample of the object-reuse histories and the endpoint sweeps
    fkern = []             # bit-exact binary64 cases (simple models and biased-depolarizing)

    seen_keys = {}

    def viol(key, what, rep):
        # at most 2 recorded inputs per key (Ctx keeps 200 in all; a region finding must not crowd out others)
        seen_keys[key] = seen_keys.get(key, 0) + 1
        if seen_keys[key] <= 2:
            ctx.violation(key, what, rep)

    # PROBABILITY ARGUMENT TYPES.  The probability is a number in [0,1]; callers (the SMWPM decoders among them:
    # probability_distribution(1)) hand it over as a Python int or bool, a NumPy integer / bool / float64 / float32
    # scalar (np.linspace, np.arange, array elements) or a Fraction.  `p` is always the exact binary64 value; `p_as`
    # names the type it is handed over in; the expected value (property text, engine) depends on the value only.
    # Left out because the unchanged tree rejects them (measured): decimal.Decimal (TypeError float*Decimal in every
    # model with a float parameter), ndarray of any shape (unhashable under lru_cache), unsigned NumPy integers
    # (biased-Y-X: -4 * np.uint8 overflows).
    PTYPES = {'float': float, 'int': int, 'bool': bool, 'np.int64': np.int64, 'np.int32': np.int32, 'np.bool_': np.bool_,
              'np.float64': np.float64, 'np.float32': np.float32, 'Fraction': F}
    P_INTLIKE = ('int', 'bool', 'np.int64', 'np.int32', 'np.bool_')        # can hold the end points 0 and 1 only
    P_REAL = ('np.float64', 'np.float32', 'Fraction')                     # any p (float32: after rounding p to binary32)

    def p_value(p, p_as):
        """the exact binary64 value that is handed over when p is given as p_as (binary32 rounds p first)"""
        return float(np.float32(p)) if p_as == 'np.float32' else float(p)

    def p_arg(p, p_as):
        return PTYPES[p_as](int(p) if p_as in P_INTLIKE else p)

    def p_tol(p_as, t=T50, rel=REL):
        """NumPy evaluates every formula on a float32 scalar in binary32: results carry binary32 rounding"""
        return (max(t, REL32), max(rel, REL32)) if p_as == 'np.float32' else (t, rel)

    def p_types_for(p):
        return (P_INTLIKE if p in (0.0, 1.0) else ()) + P_REAL

    def p_tag(params, p_as):
        return params if p_as == 'float' else dict(params, p_as=p_as)

    def call_pd(model, p, p_as='float'):
        try:
            return model.probability_distribution(p_arg(p, p_as)), None
        except Exception as e:  # noqa
            return None, e

    # ---- (a) the property evaluated directly on the floats ----------------------------------
    def direct_common(name, params, p, d, keys, t=T50, hist=None):
        """non-negativity, sum, Pr(I); `keys` maps a defect class to a (known) key where a region is known"""
        rep = with_hist({'model': name, 'params': params, 'p': p, 'p_hex': float(p).hex(), 'got': [repr(v) for v in d]}, hist)
        try:
            if len(d) != 4:
                raise TypeError
        except TypeError:
            viol('not-a-distribution', 'probability_distribution did not return four numbers', rep)
            return None
        fd = frac_dist(d)
        if fd is None:
            viol(keys.get('nan', 'non-finite-entry'), 'distribution has a non-finite entry', rep)
            return None
        pf = F(p)
        for i, v in enumerate(fd):
            if v < 0:
                k = 'negative-entry'
                if i == 0 and p == 1.0 and v >= -2 * T50 and 'negI' in keys:
                    k = keys['negI']
                elif i > 0 and 'negXYZ' in keys and v >= -2 * T50:
                    k = keys['negXYZ']
                elif 'neg' in keys:
                    k = keys['neg']
                viol(k, 'Pr(%s) < 0' % LET[i], rep)
        if abs(sum(fd) - 1) > t:
            viol(keys.get('acc', 'sum-not-1'), '|sum - 1| > 2^%d' % (1 - t.denominator.bit_length()), rep)
        if abs(fd[0] - (1 - pf)) > t:
            viol(keys.get('acc', 'pI-not-1-p'), '|Pr(I) - (1-p)| > 2^%d' % (1 - t.denominator.bit_length()), rep)
        return fd

    def relclose(a, b, p, rel=REL):
        return abs(a - b) <= rel * abs(b) + T50 * p + TINY

    def model_cmp(name, params, p, fd, line, keys, sample=False, t=T50, hist=None, rel=REL):
        hs = hist.snap() if hist is not None else None

        def fn(ans):
            rep = {'model': name, 'params': params, 'p': p, 'p_hex': float(p).hex(),
                   'impl': [str(v) for v in fd], 'model_answer': ans}
            if hs is not None:
                rep['history'] = hs
            if ans.startswith('ERR'):
                ctx.cmp(name, rep, 'distribution', ans)
                return
            md = [tokq(t) for t in ans.split()]
            if not close_dist(F(p), fd, md, t, rel):
                if 'acc' in keys:
                    viol(keys['acc'], 'implementation differs from the exact model by more than the tolerance', rep)
                else:
                    # correspondence mismatch: adjudicated by the direct checks (violation if they fail too)
                    ctx.cmp(name, rep, ' '.join(qtok(v) for v in fd), ans)
            elif sample == 'hist':
                if len(kern2) < 400:
                    kern2.append((p, fd, line))
            elif sample and len(kern) < 160:
                kern.append((p, fd, line))
        ask(line, fn)

    def nontriv(p, nondefault):
        return nondefault and p not in (0.0, 1.0)

    # ---- 1. simple models --------------------------------------------------------------------
    simple = [('depolarizing', DepolarizingErrorModel, 'depol', lambda pf: (1 - pf, pf / 3, pf / 3, pf / 3)),
              ('bit-flip', BitFlipErrorModel, 'bitflip', lambda pf: (1 - pf, pf, 0, 0)),
              ('phase-flip', PhaseFlipErrorModel, 'phaseflip', lambda pf: (1 - pf, 0, 0, pf)),
              ('bit-phase-flip', BitPhaseFlipErrorModel, 'bitphase', lambda pf: (1 - pf, 0, pf, 0))]
    def hkey(hist):
        return () if hist is None else ('h', hist.hid, len(hist.ops))

    def simple_case(name, cls, tok, shape, p, kind, inst=None, hist=None, p_as='float'):
        m = cls() if inst is None else inst
        p = p_value(p, p_as)
        t, rel = p_tol(p_as)
        d, e = call_pd(m, p, p_as)
        ctx.count((name, p, p_as) + hkey(hist), nontriv(p, True), kind,
                  {'model': name, 'p': p, 'dist': [float(v) for v in d]}
                  if p == 0.4 and hist is None and d and p_as == 'float' else None)
        if e is not None:
            viol('exception', 'probability_distribution raised %s' % exc_class(e),
                 with_hist(p_tag({'model': name, 'p': p}, p_as), hist))
            return
        fd = direct_common(name, p_tag({}, p_as), p, d, {}, t=t, hist=hist)
        if fd is None:
            return
        pf = F(p)
        want = shape(pf)
        rep = with_hist(p_tag({'model': name, 'p': p, 'p_hex': float(p).hex(), 'got': [repr(v) for v in d]}, p_as), hist)
        if name == 'depolarizing':
            if not (fd[1] == fd[2] == fd[3]):
                viol('depolarizing-thirds', 'X, Y, Z probabilities are not equal', rep)
        for i in (1, 2, 3):
            if want[i] == 0 and fd[i] != 0:
                viol('pure-model-leak', 'Pr(%s) != 0 in a pure model' % LET[i], rep)
            if not relclose(fd[i], F(want[i]), pf, rel):
                viol('shape', 'Pr(%s) is not the documented value' % LET[i], rep)
        model_cmp(name, p_tag({}, p_as), p, fd, '%s %s' % (tok, qtok(pf)), {},
                  sample=(False if p_as == 'np.float32' else 'hist' if hist is not None or p_as != 'float' else p in pgrid),
                  t=t, hist=hist, rel=rel)
        if len(fkern) < 4000 and p_as == 'float':
            fkern.append(('%sF %s' % ({'depol': 'depolarizing', 'bitflip': 'bit_flip', 'phaseflip': 'phase_flip',
                                       'bitphase': 'bit_phase_flip'}[tok], coq_f(p)), tuple(d)))

    for name, cls, tok, shape in simple:
        for p in pgrid + endpoints + [rand_p() for _ in range(120 * scale)]:
            simple_case(name, cls, tok, shape, p, name)

    lap('simple')
    # ---- 2. biased depolarizing ----------------------------------------------------------------
    def biased_case(bias, axis, p, kind, sample=False, inst=None, hist=None, p_as='float'):
        p = p_value(p, p_as)
        t, rel = p_tol(p_as)
        if p_as != 'float':
            sample = False if p_as == 'np.float32' else 'hist'
        try:
            m = BiasedDepolarizingErrorModel(bias, axis) if inst is None else inst
        except Exception as e:  # noqa
            viol('ctor-domain', 'documented parameters rejected: %s' % exc_class(e), {'model': 'biased', 'bias': bias, 'axis': axis})
            return
        d, e = call_pd(m, p, p_as)
        params = p_tag({'bias': bias, 'bias_hex': float(bias).hex(), 'axis': axis}, p_as)
        ctx.count(('biased', bias, axis, p, p_as) + hkey(hist), nontriv(p, True), kind,
                  {'model': 'biased', 'bias': bias, 'axis': axis, 'p': p, 'dist': [float(v) for v in d]}
                  if sample is True and p == 0.4 and d else None)
        if e is not None:
            viol('exception', 'probability_distribution raised %s' % exc_class(e), with_hist(dict(params, model='biased', p=p), hist))
            return
        fd = direct_common('biased', params, p, d, {'negI': 'F2-biased-negative-pI-at-p1'}, t=t, hist=hist)
        if fd is None:
            return
        pf, bf = F(p), F(bias)
        ax = axis.upper()
        hi = fd[LET.index(ax)]
        lo = [fd[i] for i in (1, 2, 3) if LET[i] != ax]
        rep = with_hist(dict(params, model='biased', p=p, p_hex=float(p).hex(), got=[repr(v) for v in d]), hist)
        if lo[0] != lo[1]:
            viol('biased-low-rates', 'the two off-axis probabilities differ', rep)
        # bias = high rate / sum of the low rates (division free, relative 1e-9; a binary64 low rate carries an
        # absolute representation error of up to 2^-1075 (half the subnormal quantum), which the bias multiplies)
        # (binary32 results: each low rate carries a relative rounding error 2^-24, which the bias multiplies)
        if (not relclose(hi, bf * (lo[0] + lo[1]), pf, rel) and abs(hi - bf * (lo[0] + lo[1])) > bf * F(4, 2 ** 1075)
                and not (p_as == 'np.float32' and abs(hi - bf * (lo[0] + lo[1])) <= REL32 * (hi + bf * (lo[0] + lo[1])))):
            viol('biased-ratio', 'high-rate / (sum of low rates) != bias', rep)
        if not relclose(hi + lo[0] + lo[1], pf, pf, rel):
            viol('biased-sum', 'X+Y+Z != p', rep)
        model_cmp('biased', params, p, fd, 'biased %s %s %s' % (qtok(bf), ax, qtok(pf)), {}, sample=sample, t=t, hist=hist, rel=rel)
        if isinstance(bias, float) and len(fkern) < 4000 and p_as == 'float':
            fkern.append(('biasedF %s A%s %s' % (coq_f(bias), ax, coq_f(p)), tuple(d)))

    biased_grid = (0.5, 1.0, 10.0, 100.0, 0.001, 1e-6, 1e12, 3.0, 1 / 3)
    for axis in 'XYZ':
        for bias in biased_grid:
            for p in pgrid:
                biased_case(bias, axis, p, 'biased-grid', sample=True)
            for p in endpoints:
                biased_case(bias, axis, p, 'biased-endpoints', sample='hist')
    for _ in range(600 * scale):
        biased_case(10 ** rng.uniform(-6, 12), rng.choice('XYZxyz'), rand_p(), 'biased-random')
    # every end point for random parameter values
    for _ in range(40 * scale):
        bias, axis = 10 ** rng.uniform(-6, 12), rng.choice('XYZxyz')
        for p in ends:
            biased_case(bias, axis, p, 'biased-endpoints')
    # the F2 input and its neighbours, probed individually
    for axis in 'XYZ':
        biased_case(0.001, axis, 1.0, 'biased-F2-probe')
    # special case: bias 1/2 is depolarizing
    for axis in 'XYZ':
        for p in pgrid + [rand_p() for _ in range(20 * scale)]:
            db = BiasedDepolarizingErrorModel(0.5, axis).probability_distribution(p)
            dd = DepolarizingErrorModel().probability_distribution(p)
            ctx.count(('half', axis, p), nontriv(p, True), 'special-bias-half')
            fb, fdp = frac_dist(db), frac_dist(dd)
            if fb is None or fdp is None or not close_dist(F(p), fb, fdp):
                viol('special-bias-half', 'bias 1/2 is not the depolarizing distribution',
                     {'axis': axis, 'p': p, 'biased': [repr(v) for v in db], 'depolarizing': [repr(v) for v in dd]})

    lap('biased')
    # ---- 3. biased Y-X -----------------------------------------------------------------------------
    yx_tiny = [ctx.pick(16, 150)]
    F3KEYS = {'neg': 'F3-yx-negative', 'negI': 'F3-yx-negative', 'negXYZ': 'F3-yx-negative',
              'acc': 'F3-yx-inaccurate', 'nan': 'F3-yx-inaccurate'}

    def yx_case(bias, p, kind, sample=False, inst=None, hist=None, p_as='float'):
        p = p_value(p, p_as)
        t44, rel = p_tol(p_as, T44)
        if p_as != 'float':
            sample = False if p_as == 'np.float32' else 'hist'
        healthy = yx_healthy(bias, p)
        try:
            m = BiasedYXErrorModel(bias) if inst is None else inst
        except Exception as e:  # noqa
            viol('ctor-domain', 'documented parameters rejected: %s' % exc_class(e), {'model': 'biased-yx', 'bias': bias})
            return
        d, e = call_pd(m, p, p_as)
        params = p_tag({'bias': bias, 'bias_hex': float(bias).hex()}, p_as)
        ctx.count(('yx', bias, p, p_as) + hkey(hist), nontriv(p, bias != 0), kind,
                  {'model': 'biased-yx', 'bias': bias, 'p': p, 'dist': [float(v) for v in d]}
                  if sample is True and p == 0.4 and d else None)
        rep = with_hist(dict(params, model='biased-yx', p=p, p_hex=float(p).hex(), got=[repr(v) for v in d] if d else None), hist)
        # a failure is the known finding F3 only when (bias, p) lies in the cancellation region AND the outcome is
        # exactly the listed one (the pinned closed forms' rounding: same exception class / same four floats);
        # everything else -- e.g. another exception at p = 1.0 -- is a new violation
        keys = {}
        if not healthy:
            ref = yx_pinned(bias, p)
            if e is not None:
                if ref == 'ValueError' and isinstance(e, ValueError):
                    keys = {'exc': 'F3-yx-domain-error'}
            elif same_floats(d, ref):
                keys = F3KEYS
            rep['pinned_closed_forms_give'] = ref if isinstance(ref, str) else [repr(v) for v in ref]
        if e is not None:
            viol(keys.get('exc', 'exception'), 'probability_distribution raised %s: %s' % (exc_class(e), e), rep)
            return
        fd = direct_common('biased-yx', params, p, d, keys, t=t44, hist=hist)
        if fd is None:
            return
        pf, bf = F(p), F(bias)
        if bias == 0:
            if fd[1] != pf or fd[2] != 0 or fd[3] != 0:
                viol('special-zero-bias', 'zero bias is not pure X noise', rep)
            ask('yx 0/1 %s 0/1' % qtok(pf), lambda ans, fd=fd, rep=rep, pf=pf: (
                None if close_dist(pf, fd, [tokq(t_) for t_ in ans.split()], t44, rel)
                else ctx.cmp('biased-yx', rep, ' '.join(qtok(v) for v in fd), ans)))
            return
        # documented system on the floats: independent flips with rates rx = pX + pZ, ry = pY + pZ
        rx, ry = fd[1] + fd[3], fd[2] + fd[3]
        ok = (relclose(fd[2], bf * fd[1], pf, rel) and relclose(fd[3], rx * ry, pf, rel) and relclose(fd[1], rx * (1 - ry), pf, rel)
              and relclose(fd[2], ry * (1 - rx), pf, rel) and relclose(fd[1] + fd[2] + fd[3], pf, pf, rel)
              and 0 <= rx <= 1 and 0 <= ry <= 1)
        if not ok:
            viol(keys.get('acc', 'yx-shape'), 'Y:X != bias or X, Y flips not independent or X+Y+Z != p (relative 1e-9)', rep)
        # exact model relative to a rational root of the discriminant
        A = 1 + bf + pf - bf * pf
        disc = A * A - 4 * pf
        # |s - sqrt(disc)| <= 2^-bits moves the model's entries by at most 2^-bits / min(2 bias, 1): with
        # bits = 160 + log2(1/p) + log2(1/bias) that is below 2^-158 p, far inside the tolerance 2^-50 p
        bits = 160 + (max(0, -math.floor(math.log2(p))) if p > 0 else 0) + max(0, -math.floor(math.log2(bias)))
        if 0 < p < 2.0 ** -200:
            # the extracted engine needs ~0.7 s for rationals of this size: the direct check above (the documented
            # system, whose solution is unique: c16_yx_unique) is made always, the engine comparison on a sample
            if yx_tiny[0] <= 0 or rng.random() >= 0.35:
                ctx.extra['yx_tiny_p_direct_check_only'] = ctx.extra.get('yx_tiny_p_direct_check_only', 0) + 1
                return
            yx_tiny[0] -= 1
        s = isqrt_frac(disc, bits) if disc > 0 else F(0)
        model_cmp('biased-yx', params, p, fd, 'yx %s %s %s' % (qtok(bf), qtok(pf), qtok(s)), keys,
                  sample=(sample if healthy or not keys else False), t=t44, hist=hist, rel=rel)

    yx_grid = (0.0, 0.01, 0.1, 0.5, 1.0, 2.0, 10.0, 100.0)
    for bias in yx_grid:
        for p in pgrid:
            if yx_healthy(bias, p):
                yx_case(bias, p, 'yx-grid', sample=True)
    # every grid bias on the whole p grid and on every end point, healthy region or not (no exception is excused
    # except the listed F3 outcome)
    for bias in yx_grid + (0.3, 3.0, 1e-3, 1e3):
        for p in pgrid + endpoints:
            if not (bias in yx_grid and p in pgrid and yx_healthy(bias, p)):
                yx_case(bias, p, 'yx-endpoints', sample='hist')
    for _ in range(40 * scale):
        bias = rng.choice([10 ** rng.uniform(-2, 2)] * 3 + [10 ** rng.uniform(-9, 12), float(rng.randint(1, 64)), 1 / rng.randint(1, 64)])
        for p in ends:
            yx_case(bias, p, 'yx-endpoints')
    for _ in range(500 * scale):
        yx_case(rng.choice([0.0] + [10 ** rng.uniform(-2, 2)] * 9), rng.uniform(0.01, 0.99), 'yx-random')
    # the cancellation region (known finding F3): listed inputs and a sweep, reported under their own keys
    for bias, p in ((1e-6, 1 - 2.0 ** -53), (1e-9, 0.5), (1e-10, 0.3), (1e12, 0.5), (1e6, 0.5), (1e9, 0.1),
                    (0.3, 1.0), (1.038, 1.0), (1.0, 1.0), (10.0, 1.0), (0.001, 1e-15), (10.0, 1e-12), (0.3, 1 - 2.0 ** -53)):
        yx_case(bias, p, 'yx-F3-probe')
    for _ in range(150 * scale):
        bias = 10 ** rng.uniform(-9, 12)
        p = rng.choice([rand_p(), 1.0, 1 - 2.0 ** -53, 10 ** rng.uniform(-15, -3)])
        if not yx_healthy(bias, p):
            yx_case(bias, p, 'yx-F3-sweep')

    lap('yx')
    # ---- 4. centre-slice -------------------------------------------------------------------------------
    C3 = F(1, 3)

    def slice_expected(lim, pos):
        """independent statement of the documented geometry over Fractions: the ratio is the point at signed
        parameter pos on the line centre->lim, negative parameters being measured towards the second
        intersection N of that line with the triangle's boundary"""
        l = [F(v) for v in lim]
        s = sum(l)
        L = [v / s for v in l]
        # N = C - t (L - C) with t > 0 maximal such that all coordinates stay >= 0
        t = min(C3 / (L[k] - C3) for k in range(3) if L[k] > C3)
        N = [C3 - t * (L[k] - C3) for k in range(3)]
        pf = F(pos)
        end = L if pf >= 0 else N
        r = [C3 + abs(pf) * (end[k] - C3) for k in range(3)]
        return L, N, r

    def slice_case(lim, pos, p, kind, sample=False, inst=None, hist=None, rel=REL, p_as='float'):
        p = p_value(p, p_as)
        rel = p_tol(p_as, rel=rel)[1]
        if p_as != 'float':
            sample = False if p_as == 'np.float32' or not sample else 'hist'
        try:
            m = CenterSliceErrorModel(lim, pos) if inst is None else inst
        except Exception as e:  # noqa
            viol('ctor-domain', 'documented parameters rejected: %s' % exc_class(e), {'model': 'slice', 'lim': list(lim), 'pos': pos})
            return
        d, e = call_pd(m, p, p_as)
        params = p_tag({'lim': list(lim), 'pos': pos, 'pos_hex': float(pos).hex()}, p_as)
        ctx.count(('slice', tuple(lim), pos, p, p_as) + hkey(hist), nontriv(p, pos != 0), kind,
                  {'model': 'slice', 'lim': list(lim), 'pos': pos, 'p': p, 'dist': [float(v) for v in d]}
                  if sample is True and p == 0.4 and d else None)
        rep = with_hist(dict(params, model='slice', p=p, p_hex=float(p).hex(), got=[repr(v) for v in d] if d else None), hist)
        if e is not None:
            viol('exception', 'probability_distribution raised %s: %s' % (exc_class(e), e), rep)
            return
        keys = {'negI': 'slice-negative-pI-at-p1'}
        if pos <= -1 + 2.0 ** -50:
            keys['negXYZ'] = 'slice-neglim-negative-entry'
        t = T50 if rel == REL else rel      # float32 limits: the ratio sums to 1 in binary32 only
        fd = direct_common('slice', params, p, d, keys, t=t, hist=hist)
        if fd is None:
            return
        pf = F(p)
        L, N, r = slice_expected(lim, pos)
        for i in (1, 2, 3):
            if not relclose(fd[i], r[i - 1] * pf, pf, rel):
                viol('slice-line', 'Pr(%s) is not p times the point at position pos on the centre-limit line' % LET[i], rep)
                break
        model_cmp('slice', params, p, fd,
                  'slice %s %s %s %s %s' % (qtok(F(lim[0])), qtok(F(lim[1])), qtok(F(lim[2])), qtok(F(pos)), qtok(pf)),
                  {}, sample=sample, t=t, hist=hist, rel=rel)

    def slice_attrs(lim, pos, inst=None, hist=None, order=('lim', 'neg_lim', 'ratio'), rel=REL):
        """the attributes named in `order`, read in that order (from a fresh object, or from a live one inside a
        history), against the documented geometry and the model"""
        m = CenterSliceErrorModel(lim, pos) if inst is None else inst
        L, N, r = slice_expected(lim, pos)
        got = {}
        for k in order:
            try:
                got[k] = getattr(m, k)
                len(got[k])
            except Exception as e:  # noqa
                viol('exception', 'reading attribute %s raised %s: %s' % (k, exc_class(e), e),
                     with_hist({'model': 'slice', 'lim': list(lim), 'pos': pos}, hist))
                return
        rep = with_hist({'model': 'slice', 'lim': list(lim), 'pos': pos, 'read_order': list(order),
                         'got': {k: [repr(v) for v in got[k]] for k in got}}, hist)
        ctx.count(('slice-attrs', tuple(lim), pos) + hkey(hist), pos != 0, 'slice-attrs' if hist is None else 'history-attr')
        vals = {}
        for k, want in (('lim', L), ('neg_lim', N), ('ratio', r)):
            if k not in got:
                continue
            try:
                vals[k] = [F(float(v)) for v in got[k]]
            except (ValueError, OverflowError):
                viol('slice-attrs', '%s has a non-finite entry' % k, rep)
                return
            if len(vals[k]) != 3 or any(abs(a - b) > rel * abs(b) + T50 for a, b in zip(vals[k], want)):
                viol('slice-attrs', 'attribute %s is not the documented point' % k, rep)
        # direct geometric statement: neg_lim on the boundary, centre strictly between lim and neg_lim
        if 'neg_lim' in vals and 'lim' in vals:
            n_, l_ = vals['neg_lim'], vals['lim']
            tg = T50 if rel == REL else rel
            if abs(sum(n_) - 1) > tg or min(n_) < -tg or min(abs(v) for v in n_) > tg:
                viol('slice-attrs', 'neg_lim is not on the boundary of the triangle', rep)
            cr = [(l_[1] - C3) * (n_[2] - C3) - (l_[2] - C3) * (n_[1] - C3), (l_[2] - C3) * (n_[0] - C3) - (l_[0] - C3) * (n_[2] - C3)]
            dotp = sum((l_[k] - C3) * (n_[k] - C3) for k in range(3))
            if any(abs(c) > 8 * tg for c in cr) or dotp >= 0:
                viol('slice-attrs', 'lim, centre, neg_lim are not collinear with the centre in between', rep)

        def fn(ans):
            if ans.startswith('ERR'):
                ctx.cmp('slice-attrs', rep, 'attributes', ans)
                return
            mv = [tokq(t) for t in ans.split()]
            names = ('lim', 'neg_lim', 'ratio')
            flat = [F(float(v)) for k in names if k in got for v in got[k]]
            mv = [v for i, k in enumerate(names) if k in got for v in mv[3 * i:3 * i + 3]]
            if len(flat) != len(mv) or any(abs(a - b) > rel * abs(b) + T50 for a, b in zip(flat, mv)):
                ctx.cmp('slice-attrs', rep, ' '.join(qtok(v) for v in flat), ans)
        ask('sliceattrs %s %s %s %s' % (qtok(F(lim[0])), qtok(F(lim[1])), qtok(F(lim[2])), qtok(F(pos))), fn)

    def rand_lim():
        k = rng.choice([1, 2])
        zeros = rng.sample(range(3), k)
        style = rng.randrange(4)
        out = []
        for i in range(3):
            if i in zeros:
                out.append(0 if style else 0.0)
            elif style == 0:
                out.append(rng.random())
            elif style == 1:
                out.append(rng.randint(1, 9))
            elif style == 2:
                out.append(10 ** rng.uniform(-6, 6))
            else:
                out.append(rng.choice([0.5, 1.0, 1.0, 2.0, 0.25]))
        return tuple(out)

    def rand_pos():
        r = rng.random()
        if r < 0.6:
            return rng.uniform(-1, 1)
        return rng.choice([0.0, 1.0, -1.0, 1e-12, -1e-12, 0.5, -0.5, -0.999, 0.999, -1 + 1e-9, 1 - 1e-9])

    fixed_lims = [(1, 0, 0), (0, 1, 0), (0, 0, 1), (1, 1, 0), (0, 1, 1), (1, 0, 1), (0.2, 0.8, 0), (0, 3, 1), (5, 0, 0.5),
                  (0.5, 0.5, 0), (2, 0, 0), (0, 1e-3, 1)]
    fixed_pos = (1.0, 0.5, 0.0, -0.5, -1.0, 1e-12, -1e-12)
    for lim in fixed_lims:
        for pos in fixed_pos:
            slice_attrs(lim, pos)
            slice_attrs(lim, pos, order=rng.sample(['lim', 'neg_lim', 'ratio'], 3))     # any reading order
            for p in pgrid:
                slice_case(lim, pos, p, 'slice-grid', sample=True)
            for p in endpoints:
                slice_case(lim, pos, p, 'slice-endpoints', sample='hist')
    for _ in range(500 * scale):
        lim, pos = rand_lim(), rand_pos()
        slice_case(lim, pos, rand_p(), 'slice-random')
        if rng.random() < 0.3:
            slice_attrs(lim, pos, order=rng.sample(['lim', 'neg_lim', 'ratio'], 3))
    # every end point for random parameter values
    for _ in range(40 * scale):
        lim, pos = rand_lim(), rand_pos()
        for p in ends:
            slice_case(lim, pos, p, 'slice-endpoints')
    # the known-bad inputs of the two rounding findings, probed individually
    slice_case((0.032, 0, 0.987), 1.0, 1.0, 'slice-F2-probe')
    slice_case((0.39196807998287797, 0, 0.00795003897287172), -1.0, 0.5, 'slice-F6-probe')
    # special cases: pos 0 is depolarizing; unit limits at pos 1 are the pure models
    for _ in range(40 * scale):
        lim, p = rand_lim(), rand_p()
        ds = CenterSliceErrorModel(lim, 0).probability_distribution(p)
        dd = DepolarizingErrorModel().probability_distribution(p)
        ctx.count(('pos0', lim, p), nontriv(p, True), 'special-pos0')
        fs, fdp = frac_dist(ds), frac_dist(dd)
        if fs is None or not close_dist(F(p), fs, fdp):
            viol('special-pos0', 'pos 0 is not the depolarizing distribution', {'lim': list(lim), 'p': p, 'got': [repr(v) for v in ds]})
    for lim, cls in (((1, 0, 0), BitFlipErrorModel), ((0, 1, 0), BitPhaseFlipErrorModel), ((0, 0, 1), PhaseFlipErrorModel),
                     ((7, 0, 0), BitFlipErrorModel), ((0, 0.25, 0), BitPhaseFlipErrorModel), ((0, 0, 1e6), PhaseFlipErrorModel)):
        for p in pgrid + [rand_p() for _ in range(10 * scale)]:
            ds = CenterSliceErrorModel(lim, 1.0).probability_distribution(p)
            dp = cls().probability_distribution(p)
            ctx.count(('unit', lim, p), nontriv(p, True), 'special-unit-lim')
            fs, fp = frac_dist(ds), frac_dist(dp)
            if fs is None or fs[1:] != fp[1:] or abs(fs[0] - fp[0]) > T50:
                viol('special-unit-lim', 'a unit limit at pos 1 is not the pure single-Pauli model',
                     {'lim': list(lim), 'p': p, 'got': [repr(v) for v in ds]})

    lap('slice')
    # ---- 4b. object-reuse histories ------------------------------------------------------------------------
    # One live object (or a pool of two or three, possibly of the same class) is asked for distributions at a
    # sequence of different probabilities, with its attributes (bias / axis / lim / neg_lim / ratio / pos / label /
    # repr) read in between in varying orders, probabilities asked again, and every mutable value it hands out
    # overwritten by the caller.  EVERY answer goes through the same direct checks and the same model comparison as
    # the answer of a fresh object; attributes must be the documented values, equal to those of an unused object,
    # and unchanged throughout.
    import numpy as np

    def scribble(v):
        try:
            if isinstance(v, np.ndarray):
                v[...] = 7
            elif isinstance(v, list):
                for i_ in range(len(v)):
                    v[i_] = 7
        except Exception:  # noqa
            pass

    def hist_p():
        return rng.choice(pgrid + endpoints) if rng.random() < 0.4 else rand_p()

    def hist_p_yx():
        # tiny p costs ~0.7 s in the engine (sampled there, see yx_case); the rest of the grid and the end points
        return rng.uniform(0.01, 0.99) if rng.random() < 0.6 else rng.choice([v for v in pgrid + endpoints if v == 0 or v > 1e-10])

    def desc_simple(k):
        name, cls, tok, shape = simple[k]
        return {'spec': {'model': name}, 'make': cls, 'attrs': {}, 'slice': None, 'rand_p': hist_p, 'names': ['label', 'repr'],
                'ptypes': p_types_for,
                'pd': lambda m, p, h, a='float': simple_case(name, cls, tok, shape, p, 'history-pd', inst=m, hist=h, p_as=a)}

    SCALARS = {'float': float, 'np.float64': np.float64, 'int': int}

    def desc_biased(bias, axis, as_='float'):
        return {'spec': {'model': 'biased', 'bias': bias, 'bias_hex': float(bias).hex(), 'axis': axis, 'bias_as': as_},
                'make': lambda: BiasedDepolarizingErrorModel(SCALARS[as_](bias), axis), 'attrs': {'bias': bias, 'axis': axis.upper()},
                'slice': None, 'rand_p': hist_p, 'names': ['bias', 'axis', 'label', 'repr'],
                'ptypes': p_types_for,
                'pd': lambda m, p, h, a='float': biased_case(bias, axis, p, 'history-pd', sample='hist', inst=m, hist=h, p_as=a)}

    def desc_yx(bias, as_='float'):
        # the F3 fingerprint (yx_pinned) is the binary64 outcome for a Python float bias: other scalar types stay in
        # the healthy region of p
        return {'spec': {'model': 'biased-yx', 'bias': bias, 'bias_hex': float(bias).hex(), 'bias_as': as_},
                'make': lambda: BiasedYXErrorModel(SCALARS[as_](bias)), 'attrs': {'bias': bias}, 'slice': None,
                'rand_p': hist_p_yx if as_ == 'float' else (lambda: rng.uniform(0.01, 0.99)),
                'names': ['bias', 'label', 'repr'],
                'ptypes': lambda p: yx_ptypes(bias, p),
                'pd': lambda m, p, h, a='float': yx_case(bias, p, 'history-pd', sample='hist', inst=m, hist=h, p_as=a)}

    def desc_slice(lim, pos):
        return {'spec': {'model': 'slice', 'lim': list(lim), 'pos': pos, 'pos_hex': float(pos).hex()},
                'make': lambda: CenterSliceErrorModel(lim, pos), 'attrs': {'pos': pos}, 'slice': (lim, pos), 'rand_p': hist_p,
                'names': ['pos', 'label', 'repr', 'lim', 'neg_lim', 'ratio', 'ratio,lim', 'lim,neg_lim,ratio', 'ratio,neg_lim,lim'],
                'ptypes': p_types_for,
                'pd': lambda m, p, h, a='float': slice_case(lim, pos, p, 'history-pd', sample='hist', inst=m, hist=h, p_as=a)}

    def yx_ptypes(bias, p):
        """biased-Y-X evaluates its closed forms in the arithmetic of the probability's type: binary32 (and a Fraction
        under math.sqrt) is outside what the F3 fingerprint describes, so these two are used where the closed forms
        are not evaluated (zero bias) or are exact (p = 0)"""
        return tuple(a for a in p_types_for(p) if a not in ('np.float32', 'Fraction') or bias == 0 or p == 0)

    def typed(d_, p, prob=0.3):
        """p, or (p, type it is handed over in), for a request on a LIVE object.  np.float32 is not used here: its
        answers are binary32-accurate and the cache (np.float32(1) == 1.0, equal hashes) hands such an answer to a later
        float request of the same value (observation recorded in extra['float32_cache_aliasing'], probed below); on
        fresh objects binary32 probabilities are covered by section (o)"""
        ts = tuple(a for a in d_['ptypes'](p) if a != 'np.float32')
        return (p, rng.choice(ts)) if ts and rng.random() < prob else p

    def rand_desc():
        r = rng.randrange(8)
        if r < 2:
            return desc_simple(rng.randrange(4))
        if r < 4:
            return desc_biased(rng.choice(biased_grid + (10 ** rng.uniform(-6, 12),)), rng.choice('XYZxyz'))
        if r < 5:
            return desc_yx(rng.choice(yx_grid + (10 ** rng.uniform(-2, 2),)))
        return desc_slice(rng.choice(fixed_lims + [rand_lim()]), rng.choice(fixed_pos + (rand_pos(), rng.uniform(0, 1))))

    def final_reads(descs):
        out = []
        for i_, d_ in enumerate(descs):
            out += [(i_, 'attr', nm) for nm in rng.sample(d_['names'], len(d_['names']))]
        return out

    def sweep_ops(descs, ps):
        """object 0 swept over ps, attributes read in between now and then"""
        ops = []
        for p in ps:
            if rng.random() < 0.35:
                ops.append((0, 'attr', rng.choice(descs[0]['names'])))
            ops.append((0, 'pd', typed(descs[0], p, 0.6 if p in (0.0, 1.0) else 0.25)))
        return ops + final_reads(descs)

    def rand_ops(descs, n):
        ops, asked = [], [[] for _ in descs]
        for _ in range(n):
            i_ = rng.randrange(len(descs))
            if rng.random() < 0.65:
                p = rng.choice(asked[i_]) if asked[i_] and rng.random() < 0.2 else descs[i_]['rand_p']()
                asked[i_].append(p)
                ops.append((i_, 'pd', typed(descs[i_], p, 0.7 if p in (0.0, 1.0) else 0.3)))
            else:
                ops.append((i_, 'attr', rng.choice(descs[i_]['names'])))
        return ops + final_reads(descs)

    def attr_op(d_, m, arg, hist, ref_i, first_i, rel=REL):
        """one attribute-read operation of a history: the comma-separated attributes `arg` of the live object m, read
        in that order, against the documented values (slice geometry: model), the constructor arguments, an unused
        object with the same parameters, and the first read; the returned values are then overwritten by the caller"""
        names = arg.split(',')
        if d_['slice'] is not None and names[0] in ('lim', 'neg_lim', 'ratio'):
            slice_attrs(d_['slice'][0], d_['slice'][1], inst=m, hist=hist, order=tuple(names), rel=rel)
        else:
            ctx.count(None, False, 'history-attr')
        for nm in names:
            try:
                v = repr(m) if nm == 'repr' else getattr(m, nm)
                r = repr(v)
            except Exception as e:  # noqa
                viol('exception', 'reading %s raised %s: %s' % (nm, exc_class(e), e), with_hist(dict(d_['spec'], attribute=nm), hist))
                continue
            rep = with_hist(dict(d_['spec'], attribute=nm, got=r), hist)
            if nm in d_['attrs'] and (v != d_['attrs'][nm] or isinstance(v, str) != isinstance(d_['attrs'][nm], str)):
                viol('history-attr', 'attribute %s is not the constructor argument' % nm, rep)
            if nm in ref_i and v != ref_i[nm]:
                viol('history-attr', '%s differs from that of an unused object with the same parameters (%s)'
                     % (nm, ref_i[nm]), rep)
            if first_i.setdefault(nm, r) != r:
                viol('history-attr', 'attribute %s changed during the history (first read: %s)' % (nm, first_i[nm]), rep)
            scribble(v)

    def run_history(descs, ops, kind):
        hist = Hist([d_['spec'] for d_ in descs])
        ref, insts = [], []
        for d_ in descs:
            try:
                u = d_['make']()                       # an object that is never used: its label and repr
                ref.append({'label': u.label, 'repr': repr(u)})
                insts.append(d_['make']())
            except Exception as e:  # noqa
                viol('ctor-domain', 'documented parameters rejected: %s' % exc_class(e), d_['spec'])
                return
        first = [dict() for _ in descs]
        ctx.count(('history', hist.hid), True, kind)
        for (i_, what, arg) in ops:
            d_, m = descs[i_], insts[i_]
            if what == 'pd':
                arg, p_as = arg if isinstance(arg, tuple) else (arg, 'float')
                arg = p_value(arg, p_as)
                hist.ops.append((i_, 'pd', float(arg).hex() + ('' if p_as == 'float' else ' as ' + p_as)))
                d_['pd'](m, arg, hist, p_as)
                scribble(call_pd(m, arg, p_as)[0])
                continue
            hist.ops.append((i_, 'attr', arg))
            attr_op(d_, m, arg, hist, ref[i_], first[i_])

    def some_ps(k, gen):
        ps = rng.sample(pgrid + endpoints, min(k, len(pgrid) + len(endpoints))) + [gen() for _ in range(max(0, k // 3))]
        rng.shuffle(ps)
        return ps

    # (o) PROBABILITY ARGUMENT TYPES on fresh objects.  probability_distribution is cached per (object, probability) and
    # 1 == 1.0 == True == np.int64(1) share one cache entry, so a typed probability is only evaluated when it is the first
    # request for that value on its object: every (model, parameter, p, type) below gets an object of its own (the
    # histories below mix the types on live objects, in both orders).  Every model and every grid parameter value at
    # both end points in every type that can hold them, and at interior / neighbouring probabilities in the real-valued
    # types; random parameter values likewise.  The answer is checked exactly like that of a float probability of the
    # same value: property text on the returned numbers, engine on the exact value.
    def typed_ps(types_fn, n_in):
        out = [(p, a) for p in (0.0, 1.0) for a in types_fn(p)]
        inner = [math.nextafter(0.0, 1.0), math.nextafter(1.0, 0.0)] + rng.sample([0.5, 0.25, 0.1, 0.4, 1 / 3, 0.75, 0.9, 0.01, 0.99], n_in)
        inner += [rng.uniform(0.01, 0.99)]
        for p in inner:
            ts = types_fn(p)
            if ts:
                out.append((p, rng.choice(ts)))
        return out

    try:
        m_ = DepolarizingErrorModel()
        first_ = m_.probability_distribution(np.float32(1.0))
        again_ = m_.probability_distribution(1.0)
        ctx.extra['float32_cache_aliasing'] = {
            'history': 'm = DepolarizingErrorModel(); m.probability_distribution(np.float32(1.0)); m.probability_distribution(1.0)',
            'second_answer': [repr(v) for v in again_], 'sum_minus_1': float(sum(F(float(v)) for v in again_) - 1),
            'fresh_object_answer': [repr(v) for v in DepolarizingErrorModel().probability_distribution(1.0)],
            'note': 'not reported as a violation: binary32 probabilities are kept out of the live-object histories'}
    except Exception as e:  # noqa
        ctx.extra['float32_cache_aliasing'] = 'probe raised %s' % exc_class(e)
    for name, cls, tok, shape in simple:
        for p, a in typed_ps(p_types_for, 6) + [(p, a) for p in (0.5, 0.1, 2.0 ** -1074, 1 - 2.0 ** -53) for a in P_REAL]:
            simple_case(name, cls, tok, shape, p, 'ptype-simple', p_as=a)
    for axis in 'XYZ':
        for bias in biased_grid:
            for p, a in typed_ps(p_types_for, 2):
                biased_case(bias, axis, p, 'ptype-biased', p_as=a)
    for _ in range(30 * scale):
        bias, axis = rng.choice([10 ** rng.uniform(-6, 12), float(rng.randint(1, 64)), rng.randint(1, 64)]), rng.choice('XYZxyz')
        for p in (0.0, 1.0, rand_p()):
            biased_case(bias, axis, p, 'ptype-biased', p_as=rng.choice(p_types_for(p)))
    for bias in yx_grid + (0.3, 3.0, 1e-3, 1e3, 0, 1, 2):
        for p, a in typed_ps(lambda p: yx_ptypes(bias, p), 2):
            if a != 'float' and (p in (0.0, 1.0) or yx_healthy(bias, p)):
                yx_case(bias, p, 'ptype-yx', p_as=a)
    for _ in range(30 * scale):
        bias = rng.choice([10 ** rng.uniform(-2, 2), float(rng.randint(1, 64)), rng.randint(0, 64), 1 / rng.randint(1, 64)])
        for p in (0.0, 1.0, rng.uniform(0.01, 0.99)):
            yx_case(bias, p, 'ptype-yx', p_as=rng.choice(yx_ptypes(bias, p)))
    for lim in fixed_lims:
        for pos in fixed_pos:
            for p, a in typed_ps(p_types_for, 1):
                slice_case(lim, pos, p, 'ptype-slice', sample=True, p_as=a)
    for _ in range(40 * scale):
        lim, pos = rand_lim(), rand_pos()
        for p in (0.0, 1.0, rand_p()):
            slice_case(lim, pos, p, 'ptype-slice', p_as=rng.choice(p_types_for(p)))
    # the documented special cases at typed end points, stated directly (nothing taken from another implementation object):
    # a unit limit at position 1 is exactly the pure single-Pauli distribution, position 0 and bias 1/2 are equal thirds
    for p, a in [(p, a) for p in (0.0, 1.0) for a in p_types_for(p)] + [(p, a) for p in (0.5, 0.1, rng.random()) for a in P_REAL]:
        pv = p_value(p, a)
        t_, rel_ = p_tol(a)
        for k, lim in enumerate(((1, 0, 0), (0, 1, 0), (0, 0, 1))):
            for lm in (lim, tuple(7.5 * v for v in lim)):
                d, e = call_pd(CenterSliceErrorModel(lm, 1), pv, a)
                ctx.count(('ptype-unit', lm, pv, a), nontriv(pv, True), 'ptype-special')
                fs = frac_dist(d) if e is None else None
                want = [1 - F(pv)] + [F(pv) if j == k else F(0) for j in range(3)]
                if fs is None or abs(fs[0] - want[0]) > t_ or fs[1:] != want[1:]:
                    viol('special-unit-lim', 'a unit limit at pos 1 is not the pure single-Pauli model',
                         {'model': 'slice', 'lim': list(lm), 'pos': 1, 'p': pv, 'p_hex': pv.hex(), 'p_as': a,
                          'got': [repr(v) for v in d] if d else exc_class(e)})
        thirds = [1 - F(pv)] + [F(pv) / 3] * 3
        lim_, ax_ = rand_lim(), rng.choice('XYZ')
        for m_, spec_, key in ((CenterSliceErrorModel(lim_, 0), {'model': 'slice', 'lim': list(lim_), 'pos': 0}, 'special-pos0'),
                               (BiasedDepolarizingErrorModel(0.5, ax_), {'model': 'biased', 'bias_hex': (0.5).hex(), 'axis': ax_},
                                'special-bias-half')):
            d, e = call_pd(m_, pv, a)
            ctx.count((key, repr(m_), pv, a), nontriv(pv, True), 'ptype-special')
            fs = frac_dist(d) if e is None else None
            if fs is None or not close_dist(F(pv), fs, thirds, t_, rel_):
                viol(key, '%r is not the depolarizing distribution' % m_,
                     dict(spec_, p=pv, p_hex=pv.hex(), p_as=a, got=[repr(v) for v in d] if d else exc_class(e)))

    # (i) sweeps of one object over p, every model and every grid parameter value
    for k in range(4):
        run_history([desc_simple(k)], sweep_ops([desc_simple(k)], some_ps(22, hist_p)), 'history-sweep')
    for axis in 'XYZxyz':
        for bias in biased_grid if axis in 'XYZ' else (0.5, 10.0, 1e12):
            ds = [desc_biased(bias, axis)]
            run_history(ds, sweep_ops(ds, some_ps(ctx.pick(8, 22), hist_p)), 'history-sweep')
    for bias in yx_grid + (0.3, 3.0):
        ds = [desc_yx(bias)]
        run_history(ds, sweep_ops(ds, [p for p in some_ps(ctx.pick(9, 22), hist_p_yx) if p == 0 or p > 1e-10]), 'history-sweep')
    for lim in fixed_lims:
        for pos in fixed_pos + (0.25, 0.9, -0.75):
            ds = [desc_slice(lim, pos)]
            run_history(ds, sweep_ops(ds, some_ps(ctx.pick(6, 22), hist_p)), 'history-sweep')
    # (ii) random histories over pools of one to three live objects (same or different classes / parameters)
    for _ in range(90 * scale):
        ds = [rand_desc() for _ in range(rng.choice([1, 2, 2, 3]))]
        if len(ds) > 1 and rng.random() < 0.3:
            ds[1] = ds[0]            # two objects with identical parameters
        run_history(ds, rand_ops(ds, rng.randint(4, 14)), 'history-random')

    # (iii) CONSTRUCTOR ARGUMENTS OWNED BY THE CALLER.  The limit is handed over in every accepted container (tuple,
    # list, float64 / int64 / float32 ndarray; already summing to exactly 1 or not; pos / bias as float, np.float64 or
    # int) and stays the caller's object: the caller overwrites / refills it after construction and between calls, builds
    # several models from one reused buffer (a parameter sweep), with the answers collected only afterwards or in
    # between.  Every answer and every attribute of every object must be what the model says for the values the
    # argument held AT CONSTRUCTION TIME (snapshot semantics: ErrorModels/DistEnds.v, section World), and the
    # implementation must never write into the caller's object.  Expected values: slice_expected / the engine on the
    # snapshot; nothing is taken from another implementation object except label/repr of an unused twin.
    DT = {'f64': np.float64, 'i64': np.int64, 'f32': np.float32}
    CONTAINERS = ('tuple', 'list', 'f64', 'i64', 'f32')
    SL_NAMES = ['pos', 'label', 'repr', 'lim', 'neg_lim', 'ratio', 'ratio,lim', 'lim,neg_lim,ratio', 'ratio,neg_lim,lim']
    PURE = {0: BitFlipErrorModel, 1: BitPhaseFlipErrorModel, 2: PhaseFlipErrorModel}

    def box(c, vals):
        if c == 'tuple':
            return tuple(vals)
        if c == 'list':
            return list(vals)
        return np.array(vals, dtype=DT[c])

    def content(c, obj):
        """what the caller's object holds now, as exact Python numbers"""
        if c in DT:
            return tuple(int(v) if c == 'i64' else float(v) for v in obj)
        return tuple(obj)

    def same_content(a, b):
        return len(a) == len(b) and all(type(x) is type(y) and (x == y or (x != x and y != y)) for x, y in zip(a, b))

    def vtok(v):
        return v if isinstance(v, int) else float(v).hex()

    def arg_lim(c, normalised):
        """an admissible limit whose entries are exactly representable in container c; `normalised`: the entries
        already sum to exactly 1 (nothing is left for the constructor to do)"""
        if c == 'i64':
            zeros = rng.sample(range(3), 2 if normalised else rng.choice([1, 2]))
            return tuple(0 if i in zeros else (1 if normalised else rng.randint(1, 9)) for i in range(3))
        if not normalised:
            lim = rand_lim()
            if c == 'f64':
                lim = tuple(float(v) for v in lim)
            elif c == 'f32':
                lim = tuple(float(np.float32(v)) for v in lim)
            return lim
        nz = rng.sample(range(3), rng.choice([1, 2, 2, 2]))
        if len(nz) == 1:
            one = 1.0 if c in DT else rng.choice([1, 1.0])
            return tuple(one if i == nz[0] else (0.0 if c in DT else rng.choice([0, 0.0])) for i in range(3))
        m = rng.randint(1, 20)
        w = rng.randrange(1, 2 ** m) / 2 ** m if (c == 'f32' or rng.random() < 0.5) else rng.random()
        lim = [0.0, 0.0, 0.0]
        lim[nz[0]], lim[nz[1]] = w, 1.0 - w
        return tuple(lim)

    def garbage(c):
        """what a caller may put into its own buffer afterwards: the next limit of a sweep, or anything else"""
        r = rng.randrange(6)
        if r < 3:
            return arg_lim(c, r == 0)
        if c == 'i64':
            return rng.choice([(7, 7, 7), (0, 0, 0), (-1, 0, 2)])
        return rng.choice([(7.0, 7.0, 7.0), (0.0, 0.0, 0.0), (float('nan'), 0.0, 1.0), (-1.0, 0.0, 2.0), (float('inf'), 0.0, 0.0)])

    def arg_pos():
        pos = rng.choice(fixed_pos + (rand_pos(), rng.uniform(0, 1), 1.0, 0.5, 0.25))
        return pos, rng.choice(['float', 'np.float64'] + (['int'] * 2 if pos in (0.0, 1.0, -1.0) else []))

    def run_arg_history(containers, plan, kind):
        """plan: ('fill', b, vals) the caller (re)writes its buffer b | ('new', i, b, pos, pos_as) object i is constructed
        from buffer b as it is now | ('pd', i, p) | ('attr', i, names).  Objects are numbered in order of construction."""
        hist = Hist([])
        hist.buffers = [{'container': c} for c in containers]
        B, last, objs = [None] * len(containers), [None] * len(containers), {}
        ctx.count(('history', hist.hid), True, kind)

        def check_buffers(after):
            for b, c in enumerate(containers):
                if B[b] is not None and not same_content(content(c, B[b]), last[b]):
                    viol('caller-argument-modified', "the implementation wrote into the caller's argument object (%s)" % after,
                         with_hist({'model': 'slice', 'buffer': b, 'container': c, 'caller_wrote': [repr(v) for v in last[b]],
                                    'holds_now': [repr(v) for v in content(c, B[b])]}, hist))
                    last[b] = content(c, B[b])

        for op in plan:
            if op[0] == 'fill':
                _, b, vals = op
                c = containers[b]
                if B[b] is None or c == 'tuple':
                    B[b] = box(c, vals)
                else:
                    B[b][:] = list(vals)
                last[b] = content(c, B[b])
                hist.ops.append((b, 'fill', [vtok(v) for v in vals]))
                ctx.count(None, False, 'argown-fill')
                continue
            if op[0] == 'new':
                _, i_, b, pos, pos_as = op
                c = containers[b]
                snap = last[b]                                     # the values at construction time
                assert i_ == len(hist.specs) and documented_slice_vals(snap)
                inexact32 = c == 'f32' and not pow2(sum(F(v) for v in snap))
                if inexact32 and pos < 0:
                    # NumPy normalises a float32 array in binary32 (relative error 2^-24 in lim), and the opposite limit
                    # amplifies that without bound when lim is near the middle of an edge: negative positions and
                    # neg_lim reads only for float32 limits whose normalisation is exact
                    pos = -pos
                spec = {'model': 'slice', 'lim': list(snap), 'pos': pos, 'pos_hex': float(pos).hex(), 'buffer': b,
                        'container': c, 'pos_as': pos_as}
                hist.specs.append(spec)
                hist.ops.append((i_, 'new', b))
                ctx.count(('argown-new', hist.hid, i_), pos != 0, 'argown-new')
                objs[i_] = None
                try:
                    m = CenterSliceErrorModel(B[b], SCALARS[pos_as](pos))
                    u = CenterSliceErrorModel(box(c, snap), SCALARS[pos_as](pos))      # an unused twin from its own copy
                except Exception as e:  # noqa
                    if c in DT and isinstance(e, (TypeError, ValueError)):
                        # an ndarray is not the documented "3-tuple": a clean rejection is recorded, not reported
                        ctx.extra['ndarray_lim_rejected'] = ctx.extra.get('ndarray_lim_rejected', 0) + 1
                    else:
                        viol('ctor-domain', 'documented parameters rejected: %s' % exc_class(e), with_hist(spec, hist))
                    continue
                check_buffers('construction')
                objs[i_] = {'m': m, 'snap': snap, 'pos': pos, 'rel': REL32 if c == 'f32' else REL, 'first': {}, 'no_neg': inexact32,
                            'ref': {'label': u.label, 'repr': repr(u)},
                            'd': {'spec': spec, 'attrs': {'pos': pos}, 'slice': (snap, pos)}}
                continue
            o = objs.get(op[1])
            if o is None:
                continue
            m, snap, pos, rel = o['m'], o['snap'], o['pos'], o['rel']
            if op[0] == 'pd':
                p, p_as = op[2] if isinstance(op[2], tuple) else (op[2], 'float')
                p = p_value(p, p_as)
                hist.ops.append((op[1], 'pd', float(p).hex() + ('' if p_as == 'float' else ' as ' + p_as)))
                slice_case(snap, pos, p, 'argown-pd', sample=('hist' if rel == REL else False), inst=m, hist=hist, rel=rel, p_as=p_as)
                d, e = call_pd(m, p, p_as)
                fs = frac_dist(d) if e is None else None
                if fs is not None:
                    rep = with_hist(p_tag(dict(o['d']['spec'], p=p, p_hex=float(p).hex(), got=[repr(v) for v in d]), p_as), hist)
                    nzs = [k for k in range(3) if snap[k] != 0]
                    if pos == 1 and len(nzs) == 1:
                        fp = frac_dist(PURE[nzs[0]]().probability_distribution(p))
                        if fs[1:] != fp[1:] or abs(fs[0] - fp[0]) > p_tol(p_as)[0]:
                            viol('special-unit-lim', 'a unit limit at pos 1 is not the pure single-Pauli model', rep)
                    if pos == 0 and not close_dist(F(p), fs, frac_dist(DepolarizingErrorModel().probability_distribution(p)),
                                                   *p_tol(p_as, T50, rel)):
                        viol('special-pos0', 'pos 0 is not the depolarizing distribution', rep)
                scribble(d)
                check_buffers('probability_distribution')
            else:
                names = op[2]
                if o['no_neg']:
                    names = ','.join(nm for nm in names.split(',') if nm != 'neg_lim') or 'lim'
                hist.ops.append((op[1], 'attr', names))
                attr_op(o['d'], m, names, hist, o['ref'], o['first'], rel=rel)
                check_buffers('attribute read')

    def pow2(x):
        return x > 0 and (x.numerator & (x.numerator - 1)) == 0 and (x.denominator & (x.denominator - 1)) == 0

    def documented_slice_vals(v):
        return (len(v) == 3 and all(isinstance(x, (int, float)) and math.isfinite(x) and x >= 0 for x in v)
                and sum(1 for x in v if x != 0) in (1, 2))

    def queries(i_, n):
        out = []
        for _ in range(n):
            out.append(('pd', i_, typed({'ptypes': p_types_for}, hist_p(), 0.3)) if rng.random() < 0.55
                       else ('attr', i_, rng.choice(SL_NAMES)))
        return out

    def plan_single(c, normalised):
        """one object; its argument is overwritten by the caller after construction and between calls"""
        plan = [('fill', 0, arg_lim(c, normalised)), ('new', 0, 0) + arg_pos()]
        for _ in range(rng.randint(2, 6)):
            plan += [('fill', 0, garbage(c))] if rng.random() < 0.3 else queries(0, 1)
        plan += [('fill', 0, garbage(c)), ('pd', 0, hist_p())] + queries(0, 2)
        return plan + [('attr', 0, nm) for nm in rng.sample(SL_NAMES, 4)] + [('attr', 0, 'lim')]

    def plan_sweep(cs, normalised, k, interleave):
        """k objects built one after the other from reused buffers (refilled in between), queried in between
        (interleave) or only after the last one has been built (results collected before use)"""
        plan, filled = [], set()
        shared = arg_pos() if rng.random() < 0.5 else None
        for j in range(k):
            b = rng.randrange(len(cs))
            if b not in filled or rng.random() < 0.85:         # sometimes two objects from the same unchanged content
                plan.append(('fill', b, arg_lim(cs[b], normalised if rng.random() < 0.8 else not normalised)))
                filled.add(b)
            plan.append(('new', j, b) + (shared or arg_pos()))
            if interleave and rng.random() < 0.6:
                plan += queries(rng.randrange(j + 1), rng.randint(1, 2))
        for b in filled:
            if rng.random() < 0.6:
                plan.append(('fill', b, garbage(cs[b])))
        order = list(range(k))
        rng.shuffle(order)
        for j in order:
            plan += [('pd', j, hist_p())] + queries(j, 1) + [('attr', j, rng.choice(['lim', 'ratio,lim', 'repr', 'lim,neg_lim,ratio']))]
        return plan

    for c in CONTAINERS:
        # the documented special cases through every container: unit limits at pos 1, the buffer recycled afterwards
        for ax in range(3):
            unit = tuple((1 if c in ('i64', 'tuple') else 1.0) if k == ax else (0 if c in ('i64', 'tuple') else 0.0) for k in range(3))
            other = tuple(unit[(k + 1) % 3] for k in range(3))
            run_arg_history([c], [('fill', 0, unit), ('new', 0, 0, 1.0, rng.choice(['float', 'int', 'np.float64'])), ('fill', 0, other),
                                  ('pd', 0, hist_p()), ('attr', 0, 'lim'), ('fill', 0, garbage(c)), ('pd', 0, rng.choice([0.1, 0.4, 1.0]))]
                            + queries(0, 2), 'argown-unit')
        for normalised in (True, False):
            for _ in range(3 * scale):
                run_arg_history([c], plan_single(c, normalised), 'argown-single')
            for _ in range(2 * scale):
                cs = [c] if rng.random() < 0.7 else [c, rng.choice(CONTAINERS)]
                run_arg_history(cs, plan_sweep(cs, normalised, rng.randint(2, 5), True), 'argown-sweep')
                run_arg_history(cs, plan_sweep(cs, normalised, rng.randint(2, 5), False), 'argown-collect')
    # scalar parameters in the other numeric types a sweep produces (np.linspace gives np.float64; range gives int)
    for as_ in ('np.float64', 'int'):
        for bias in (10.0, 1.0, 3.0, 100.0, 1e12) + ((0.5, 1 / 3, 1e-6) if as_ != 'int' else ()):
            ds = [desc_biased(bias, rng.choice('XYZxyz'), as_)]
            run_history(ds, sweep_ops(ds, some_ps(ctx.pick(6, 22), hist_p)), 'argown-scalar')
        for bias in (0.0, 1.0, 2.0, 10.0) + ((0.5, 0.1) if as_ != 'int' else ()):
            ds = [desc_yx(bias, as_)]
            run_history(ds, sweep_ops(ds, [rng.uniform(0.01, 0.99) for _ in range(ctx.pick(5, 15))]), 'argown-scalar')

    lap('histories')
    # ---- 5. constructor domains ----------------------------------------------------------------------
    def ctor_result(f):
        try:
            f()
            return 'ok'
        except Exception as e:  # noqa
            return exc_class(e)

    nums_good = [0.5, 1, 10, 1e-300, 1e300, 3.5, True, 2 ** 70]
    nums_bad = [0, 0.0, -1, -0.5, -1e-300, float('nan'), float('inf'), float('-inf'), False, -0.0]
    nonnum = ['1', None, [1], (1, 2), 1j, {}]
    axes = ['X', 'Y', 'Z', 'x', 'y', 'z', 'A', '', 'XY', 'xx', ' X', 'I', None, 5, ('X',), 88]

    def documented_biased(b, a):
        return (isinstance(b, (int, float)) and not isinstance(b, complex) and b == b and b > 0 and math.isfinite(b)
                and isinstance(a, str) and a in ('X', 'Y', 'Z', 'x', 'y', 'z'))

    def documented_yx(b):
        return isinstance(b, (int, float)) and b == b and b >= 0 and math.isfinite(b)

    for b in nums_good + nums_bad + nonnum:
        for a in (axes if (b in nums_good[:3] or not isinstance(b, (int, float))) else axes[:2] + axes[6:8]):
            got = ctor_result(lambda: BiasedDepolarizingErrorModel(b, a))
            ctx.count(None, False, 'ctor-biased')
            rep = {'model': 'biased', 'bias': repr(b), 'axis': repr(a), 'got': got}
            if (got == 'ok') != documented_biased(b, a):
                viol('ctor-domain', 'constructor accepts/rejects against the documented domain', rep)
            if got not in ('ok', 'ValueError', 'TypeError'):
                viol('ctor-domain', 'constructor raises an undocumented exception class', rep)
            if got == 'ok':
                mm = BiasedDepolarizingErrorModel(b, a)
                if mm.axis != a.upper() or mm.bias != b:
                    viol('ctor-attrs', 'bias/axis attributes are not the constructor arguments', rep)
            ask('ctor_biased %s %s' % (pynum_tok(b), axis_tok(a)),
                lambda ans, got=got, rep=rep: ctx.cmp('ctor-biased', rep, got, ans))
    for b in nums_good + nums_bad + nonnum + [10 ** rng.uniform(-9, 9) * rng.choice([1, -1]) for _ in range(40 * scale)]:
        got = ctor_result(lambda: BiasedYXErrorModel(b))
        ctx.count(None, False, 'ctor-yx')
        rep = {'model': 'biased-yx', 'bias': repr(b), 'got': got}
        if (got == 'ok') != documented_yx(b):
            viol('ctor-domain', 'constructor accepts/rejects against the documented domain', rep)
        if got not in ('ok', 'ValueError', 'TypeError'):
            viol('ctor-domain', 'constructor raises an undocumented exception class', rep)
        ask('ctor_yx %s' % pynum_tok(b), lambda ans, got=got, rep=rep: ctx.cmp('ctor-yx', rep, got, ans))

    def documented_slice(lim, pos):
        if not isinstance(lim, (tuple, list)) or len(lim) != 3:
            return False
        if not all(isinstance(v, (int, float)) and math.isfinite(v) and v >= 0 for v in lim):
            return False
        if sum(1 for v in lim if v != 0) not in (1, 2):
            return False
        return isinstance(pos, (int, float)) and pos == pos and -1 <= pos <= 1

    def slice_ctor_case(lim, pos, kind):
        got = ctor_result(lambda: CenterSliceErrorModel(lim, pos))
        ctx.count(None, False, kind)
        rep = {'model': 'slice', 'lim': repr(lim), 'pos': repr(pos), 'got': got}
        signless = isinstance(lim, (tuple, list)) and any(
            isinstance(v, float) and (v != v or math.isinf(v)) or (isinstance(v, (int, float)) and v < 0) for v in lim)
        if got not in ('ok', 'ValueError', 'TypeError'):
            viol('ctor-domain', 'constructor raises an undocumented exception class', rep)
        if signless:
            # F4 region: the documented domain says reject; the code at the pinned commit has no sign/finiteness test
            # the implementation must agree exactly either with the documented-domain decision function (repaired)
            # or with the sign-less one (pinned commit: F4 when it accepts; its exception class otherwise)
            box = {}

            def fn_doc(ans, rep=rep, box=box):
                box['doc'] = ans
                rep['model_documented'] = ans

            def fn_uns(ans, got=got, rep=rep, box=box):
                rep['model_signless'] = ans
                if got == box['doc']:
                    return
                if got == ans:
                    if got == 'ok':
                        viol('F4-slice-lim-sign-accepted', 'limit with a negative or non-finite entry accepted', rep)
                    return
                ctx.cmp('ctor-slice(F4 region)', rep, got, 'documented: %s / sign-less: %s' % (box['doc'], ans))
            ask('ctor_slice %s %s' % (lim_tok(lim), pynum_tok(pos)), fn_doc)
            ask('ctor_slice_unsigned %s %s' % (lim_tok(lim), pynum_tok(pos)), fn_uns)
        else:
            if (got == 'ok') != documented_slice(lim, pos):
                viol('ctor-domain', 'constructor accepts/rejects against the documented domain', rep)
            ask('ctor_slice %s %s' % (lim_tok(lim), pynum_tok(pos)),
                lambda ans, got=got, rep=rep: ctx.cmp('ctor-slice', rep, got, ans))

    good_pos = [0, 1, -1, 0.5, -0.25, 1.0, -1.0]
    bad_pos = [1.0000001, -1.5, 2, float('nan'), float('inf'), float('-inf'), 'a', None, [0]]
    lims = [(1, 0, 0), (0, 2, 3), (0.0, 0.0, 1e-9), (0, 0, 0), (1, 1, 1), (1, 0), (1, 0, 0, 0), (), [1, 0, 0], [0, 0.5, 0.5],
            (0.0, 0.0, 0.0), (1e300, 0, 1e300), None, 5, 1.5]
    for lim in lims:
        for pos in good_pos + bad_pos:
            slice_ctor_case(lim, pos, 'ctor-slice')
    for _ in range(150 * scale):
        n = rng.choice([3, 3, 3, 3, 2, 4, 1, 0])
        lim = tuple(rng.choice([0, 0, 0.0, rng.random(), rng.randint(1, 5), 10 ** rng.uniform(-5, 5)]) for _ in range(n))
        slice_ctor_case(lim, rng.choice(good_pos + bad_pos + [rng.uniform(-1.2, 1.2)]), 'ctor-slice')
    # F4 probes (known finding): negative and non-finite limit entries
    f4 = [(-1, 0, 0), (1, -1, 0), (float('nan'), 0, 0), (float('inf'), 0, 0), (0, -0.5, 2), (0, 0, -3), (1, float('-inf'), 0),
          (-1, -1, 0), (-1, 2, 3), (float('nan'), float('nan'), float('nan'))]
    for lim in f4:
        for pos in (0.5, -0.5, 2, None):
            slice_ctor_case(lim, pos, 'ctor-slice-F4-probe')
    # what the accepted out-of-domain limits produce (part of the same finding)
    for lim in ((-1, 0, 0), (1, -1, 0), (float('nan'), 0, 0)):
        try:
            d = CenterSliceErrorModel(lim, 0.5).probability_distribution(0.1)
            bad = any((float(v) != float(v)) or float(v) < 0 for v in d)
            ctx.count(None, False, 'ctor-slice-F4-probe')
            if bad:
                viol('F4-slice-lim-sign-accepted', 'accepted out-of-domain limit yields negative or NaN probabilities',
                     {'model': 'slice', 'lim': repr(lim), 'pos': 0.5, 'p': 0.1, 'got': [repr(v) for v in d]})
        except Exception:  # noqa
            pass

    # out-of-domain VALUES are rejected whatever the container they arrive in
    nan_, inf_ = float('nan'), float('inf')
    for c in CONTAINERS:
        for vals in ((0, 0, 0), (1, 1, 1), (2, 3, 4), (-1, 0, 0), (1, -1, 0), (0, 0, -3), (nan_, 0, 0), (0, inf_, 1), (1, 0), (1, 0, 0, 0), ()):
            if c == 'i64' and any(isinstance(v, float) for v in vals):
                continue
            for pos in (0.5, np.float64(-0.25)):
                arg = box(c, vals)
                before = content(c, arg)
                got = ctor_result(lambda: CenterSliceErrorModel(arg, pos))
                ctx.count(None, False, 'ctor-slice-container')
                rep = {'model': 'slice', 'container': c, 'lim': [repr(v) for v in vals], 'pos': repr(pos), 'got': got}
                if got == 'ok':
                    signless = any(v != v or v < 0 or v == inf_ for v in vals)
                    viol('F4-slice-lim-sign-accepted' if signless else 'ctor-domain',
                         'out-of-domain limit accepted when passed as %s' % c, rep)
                elif got not in ('ValueError', 'TypeError'):
                    viol('ctor-domain', 'constructor raises an undocumented exception class', rep)
                if not same_content(content(c, arg), before):
                    viol('caller-argument-modified', "the constructor wrote into the caller's argument object", rep)
    for c in CONTAINERS:
        for bad_pos in (1.5, np.float64(-1.0000001), nan_, np.float64(nan_), None):
            got = ctor_result(lambda: CenterSliceErrorModel(box(c, (0, 1, 1)), bad_pos))
            ctx.count(None, False, 'ctor-slice-container')
            if got not in ('ValueError', 'TypeError'):
                viol('ctor-domain', 'out-of-domain pos %r with lim as %s: %s' % (bad_pos, c, got),
                     {'model': 'slice', 'container': c, 'lim': [0, 1, 1], 'pos': repr(bad_pos), 'got': got})
    for b in (np.float64(0.0), np.float64(-1.0), np.float64(nan_), np.float64(inf_)):
        for got, nm in ((ctor_result(lambda: BiasedDepolarizingErrorModel(b, 'X')), 'biased'),) + (
                () if b == 0 else ((ctor_result(lambda: BiasedYXErrorModel(b)), 'biased-yx'),)):
            ctx.count(None, False, 'ctor-scalar-type')
            if got not in ('ValueError', 'TypeError'):
                viol('ctor-domain', 'out-of-domain bias %r: %s' % (b, got), {'model': nm, 'bias': repr(b), 'got': got})

    lap('ctor')
    # ---- correspondence with the extracted model -----------------------------------------------------------
    out = ctx.model('c16', req)
    for fn, ans in zip(pend, out):
        fn(ans)

    lap('engine')
    # ---- in-kernel shard: verified checkers on a sample, inside Coq --------------------------------------------
    items = []
    k2 = kern2[::max(1, len(kern2) // ctx.pick(40, 120))][:ctx.pick(40, 120)]
    ctx.extra['kernel_cases_histories_endpoints'] = len(k2)
    for (p, fd, line) in kern[:150] + k2:
        t = line.split()
        pq = coq_q(F(p))
        if t[0] in ('depol', 'bitflip', 'phaseflip', 'bitphase'):
            fnm = {'depol': 'depolarizing', 'bitflip': 'bit_flip', 'phaseflip': 'phase_flip', 'bitphase': 'bit_phase_flip'}[t[0]]
            mod = 'Some (%s %s)' % (fnm, pq)
        elif t[0] == 'biased':
            mod = 'Some (biased %s A%s %s)' % (coq_q(tokq(t[1])), t[2], pq)
        elif t[0] == 'yx':
            mod = 'Some (biased_yx %s %s %s)' % (coq_q(tokq(t[1])), pq, coq_q(tokq(t[3])))
        else:
            mod = 'slice (%s, %s, %s) %s %s' % (coq_q(tokq(t[1])), coq_q(tokq(t[2])), coq_q(tokq(t[3])), coq_q(tokq(t[4])), pq)
        tol = 'tol_abs_yx' if t[0] == 'yx' else 'tol_abs'
        skip_valid = 'true' if any(v < 0 for v in fd) else 'valid_dist_tol %s %s %s' % (tol, pq, coq_dist(fd))
        items.append('(match %s with Some m => close_dist_tol %s %s %s m && %s | None => false end)'
                     % (mod, tol, pq, coq_dist(fd), skip_valid))
    text = ('From Coq Require Import QArith List Bool.\nFrom QV Require Import ErrorModels.DistQ.\nImport ListNotations.\n'
            'Open Scope Q_scope.\nDefinition checks : list bool :=\n [' + ';\n  '.join(items) + '].\n'
            'Example corr : forallb (fun b => b) checks = true.\nProof. vm_compute. reflexivity. Qed.\n')
    ctx.kernel_cases('sample', text)
    lap('kernel sample')
    ctx.extra['kernel_cases'] = len(items)
    # bit-exact shard: the binary64 model (ErrorModels/DistFloat.v) reproduces the implementation's floats exactly,
    # including the negative Pr(I) of finding F2
    step = max(1, len(fkern) // ctx.pick(400, 1500))
    fitems = ['(feq4 (%s) (%s, %s, %s, %s))' % ((call,) + tuple(coq_f(v) for v in d)) for call, d in fkern[::step]]
    ftext = ('From Coq Require Import Floats List Bool.\nFrom QV Require Import ErrorModels.DistQ ErrorModels.DistFloat.\n'
             'Import ListNotations.\nOpen Scope float_scope.\nDefinition checks : list bool :=\n ['
             + ';\n  '.join(fitems) + '].\nExample corr : forallb (fun b => b) checks = true.\n'
             'Proof. vm_compute. reflexivity. Qed.\n')
    ctx.kernel_cases('binary64', ftext)
    lap('kernel binary64')
    ctx.extra['kernel_cases_binary64'] = len(fitems)
    ctx.extra['engine_requests'] = len(req)
    ctx.extra['failing_inputs_by_key'] = dict(seen_keys)
    lap('violations by key: %r' % seen_keys)


def replay(path):
    """re-run a stored failing input on the implementation and print what it returns now"""
    from qecsim.models.generic import (DepolarizingErrorModel, BitFlipErrorModel, PhaseFlipErrorModel,
                                       BitPhaseFlipErrorModel, BiasedDepolarizingErrorModel, BiasedYXErrorModel,
                                       CenterSliceErrorModel)
    d = json.load(open(path))
    print(json.dumps(d, indent=1))
    r = d.get('replay', {})

    import numpy as np
    scalars = {'float': float, 'np.float64': np.float64, 'int': int}
    dt = {'f64': np.float64, 'i64': np.int64, 'f32': np.float32}

    def build(sp):
        name = sp.get('model')
        if name == 'biased':
            return BiasedDepolarizingErrorModel(scalars[sp.get('bias_as', 'float')](float.fromhex(sp['bias_hex'])), sp['axis'])
        if name == 'biased-yx':
            return BiasedYXErrorModel(scalars[sp.get('bias_as', 'float')](float.fromhex(sp['bias_hex'])))
        if name == 'slice':
            return CenterSliceErrorModel(tuple(sp['lim']), float.fromhex(sp['pos_hex']) if 'pos_hex' in sp else sp['pos'])
        return {'depolarizing': DepolarizingErrorModel, 'bit-flip': BitFlipErrorModel, 'phase-flip': PhaseFlipErrorModel,
                'bit-phase-flip': BitPhaseFlipErrorModel}[name]()

    from fractions import Fraction
    ptypes = {'float': float, 'int': int, 'bool': bool, 'np.int64': np.int64, 'np.int32': np.int32, 'np.bool_': np.bool_,
              'np.float64': np.float64, 'np.float32': np.float32, 'Fraction': Fraction}

    def pconv(p, p_as):
        return ptypes[p_as](int(p) if p_as in ('int', 'bool', 'np.int64', 'np.int32', 'np.bool_') else p)

    def parg(arg):
        """'<hex>' or '<hex> as <type>' -> the probability in the type it was handed over in"""
        h_, _, a_ = arg.partition(' as ')
        return pconv(float.fromhex(h_), a_ or 'float')

    if isinstance(r.get('history'), dict):
        # an operation history over live objects: rebuild the pool and run the operations again, in order
        try:
            h = r['history']
            owned = 'buffers' in h      # caller-owned arguments: objects are built by 'new' operations from live buffers
            pool = [None if owned else build(sp) for sp in h['instances']]
            bufs = [None] * len(h.get('buffers', []))
            for k, (i, what, arg) in enumerate(h['ops']):
                try:
                    if what == 'fill':
                        c = h['buffers'][i]['container']
                        vals = [float.fromhex(t) if isinstance(t, str) else t for t in arg]
                        if bufs[i] is None or c == 'tuple':
                            bufs[i] = tuple(vals) if c == 'tuple' else list(vals) if c == 'list' else np.array(vals, dtype=dt[c])
                        else:
                            bufs[i][:] = vals
                        print('now: op %d caller fills buffer %d (%s) -> %r' % (k, i, c, bufs[i]))
                        continue
                    if what == 'new':
                        sp = h['instances'][i]
                        pool[i] = CenterSliceErrorModel(bufs[arg], scalars[sp.get('pos_as', 'float')](float.fromhex(sp['pos_hex'])))
                        print('now: op %d object %d = CenterSliceErrorModel(buffer %d, %r); constructed from lim %r; the buffer '
                              'holds %r afterwards' % (k, i, arg, pool[i].pos, sp['lim'], bufs[arg]))
                        continue
                    if what == 'pd':
                        out = pool[i].probability_distribution(parg(arg))
                    else:
                        out = [repr(pool[i]) if nm == 'repr' else getattr(pool[i], nm) for nm in arg.split(',')]
                except Exception as e:  # noqa
                    out = '%s: %s' % (type(e).__name__, e)
                print('now: op %d%s object %d %s %s -> %r' % (k, ' (failing)' if k == h.get('failing_op') else '', i, what,
                                                                repr(parg(arg)) if what == 'pd' else arg, out))
        except Exception as e:  # noqa
            print('replay: %s: %s' % (type(e).__name__, e))
        return 0
    if r.get('model') == 'slice' and 'read_order' in r:
        try:
            m = build(r)
            print('now:', [(nm, getattr(m, nm)) for nm in r['read_order']])
        except Exception as e:  # noqa
            print('replay: %s: %s' % (type(e).__name__, e))
        return 0
    try:
        name = r.get('model')
        p = float.fromhex(r['p_hex']) if 'p_hex' in r else r.get('p')
        p_as = r.get('p_as') or (r.get('params') or {}).get('p_as') or 'float'
        p = pconv(p, p_as)
        if 'bias_hex' not in r and isinstance(r.get('params'), dict):
            r = dict(r, **r['params'])
        if name == 'biased':
            m = BiasedDepolarizingErrorModel(float.fromhex(r['bias_hex']), r['axis'])
        elif name == 'biased-yx':
            m = BiasedYXErrorModel(float.fromhex(r['bias_hex']))
        elif name == 'slice' and isinstance(r.get('lim'), list):
            m = CenterSliceErrorModel(tuple(r['lim']), float.fromhex(r['pos_hex']) if 'pos_hex' in r else r['pos'])
        else:
            m = {'depolarizing': DepolarizingErrorModel, 'bit-flip': BitFlipErrorModel, 'phase-flip': PhaseFlipErrorModel,
                 'bit-phase-flip': BitPhaseFlipErrorModel}[name]()
        print('now: %r.probability_distribution(%r) -> %r' % (m, p, m.probability_distribution(p)))
    except Exception as e:  # noqa
        print('replay: %s: %s' % (type(e).__name__, e))
    return 0
