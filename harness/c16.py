"""C16 — error-model distributions are valid and as documented.

For every IID error model (depolarizing, bit-flip, phase-flip, bit-phase-flip, biased-depolarizing on each
axis, biased-Y-X, centre-slice) the implementation's float distribution is converted *exactly* to
Fractions and
 (a) tested directly against the property text (non-negative, |sum-1| <= 2^-50, |Pr(I)-(1-p)| <= 2^-50,
     documented shape, special cases) with independent Python code, and
 (b) compared with the exact rational Gallina model (ErrorModels/DistQ.v) evaluated by the extracted engine
     on the same exactly-converted inputs (|impl-model| <= 1e-9*|model| + 2^-50*p + 2^-1070 per X/Y/Z entry,
     2^-50 absolute for Pr(I)).
Constructor domains are compared with the model's decision functions (exception classes).
A sample is re-checked inside Coq (vm_compute) with the verified checkers valid_dist / close_dist."""
import json
import math
import warnings
from fractions import Fraction as F

from harness.common import exc_class

T50 = F(1, 2 ** 50)
T44 = F(1, 2 ** 44)   # biased-Y-X only: sqrt closed forms, conditioning ~ 1/bias
REL = F(1, 10 ** 9)
TINY = F(1, 2 ** 1070)
LET = 'IXYZ'


# ---------------------------------------------------------------- rationals <-> tokens
def qtok(x):
    x = F(x)
    n, d = x.numerator, x.denominator
    return ('-' if n < 0 else '') + '%x/%x' % (abs(n), d)


def tokq(t):
    a, b = t.split('/')
    neg = a.startswith('-')
    v = F(int(a.lstrip('-'), 16), int(b, 16))
    return -v if neg else v


def coq_q(x):
    x = F(x)
    n, d = x.numerator, x.denominator
    return '(Qmake (%s0x%x)%%Z 0x%x%%positive)' % ('-' if n < 0 else '', abs(n), d)


def coq_dist(d):
    return '(mkD %s %s %s %s)' % tuple(coq_q(v) for v in d)


def coq_f(x):
    """binary64 value -> Coq primitive-float literal (hexadecimal, exact)"""
    h = float(x).hex()
    return '(%s)%%float' % h


def frac_dist(d):
    """implementation output -> 4 exact Fractions (None when an entry is not a finite real number)"""
    out = []
    for v in d:
        f = float(v)
        if not math.isfinite(f):
            return None
        out.append(F(f))
    return out if len(out) == 4 else None


def isqrt_frac(x, bits):
    """sqrt of a Fraction x >= 0 rounded down to a multiple of 2^-bits"""
    return F(math.isqrt((x.numerator << (2 * bits)) // x.denominator), 1 << bits)


def close(p, impl, model):
    return abs(impl - model) <= REL * abs(model) + T50 * p + TINY


def close_dist(p, impl, model, t=T50):
    return abs(impl[0] - model[0]) <= t and all(close(p, impl[i], model[i]) for i in (1, 2, 3))


def pynum_tok(v):
    """classify a Python constructor argument the way DistQ.pynum does"""
    if isinstance(v, bool):
        return qtok(int(v))
    if isinstance(v, (int, float)):
        if isinstance(v, float):
            if math.isnan(v):
                return 'nan'
            if math.isinf(v):
                return 'inf' if v > 0 else '-inf'
        return qtok(F(v))
    return 'notnum'


def axis_tok(a):
    if isinstance(a, str):
        return 's:' + (','.join(str(ord(c)) for c in a) if a else '-')
    return 'other'


def lim_tok(lim):
    if not isinstance(lim, (tuple, list)):
        return 'notsized'
    return ','.join(pynum_tok(v) for v in lim) if len(lim) else '-'


# ---------------------------------------------------------------- the healthy region of the Y-X closed forms
def yx_healthy(bias, p):
    """region where the unchanged closed forms are accurate to 1e-9 (measured: <= 3e-11); outside it the
    cancellation defect F3 is a known finding"""
    return bias == 0 or (0.01 <= bias <= 100 and 0.01 <= p <= 0.99)


def run(ctx):
    from qecsim.models.generic import (DepolarizingErrorModel, BitFlipErrorModel, PhaseFlipErrorModel,
                                       BitPhaseFlipErrorModel, BiasedDepolarizingErrorModel, BiasedYXErrorModel,
                                       CenterSliceErrorModel)
    rng = ctx.rng
    warnings.filterwarnings('ignore', category=RuntimeWarning)   # nan/inf limits of the F4 probes
    ctx.rule = ('every IID model; p over the grid {0, 1, 2^-1074, 1e-300, 1e-17, ..., 1-2^-53} and random in [0,1]; '
                'bias log-uniform in [1e-6,1e12] (biased-depolarizing, all axes, both cases) and in [1e-2,1e2] plus 0 '
                '(Y-X healthy region, p in [0.01,0.99]) with the cancellation region (F3) swept separately; slice '
                'limits with one or two zeros, pos in [-1,1] incl. 0, +-1, +-1e-12; constructor stream (negative / nan / '
                'inf / non-numeric bias, bad axis, lim of wrong length / all zero / no zero / negative / nan entries, '
                'pos out of range, wrong types). nontrivial = p not in {0,1} with a non-default parameter')
    ctx.props_obligations()
    # Print Assumptions prints the three Reals axioms over several lines; name them properly
    try:
        import os
        import re
        from harness.common import BUILD
        txt = open(os.path.join(BUILD, 'assumptions', 'C16.txt')).read()
        axs = sorted(set(re.findall(r'^([A-Z][\w.]*\.[a-z_]\w*)\b', txt, flags=re.M)))
        closed = txt.count('Closed under the global context')
        if ctx.assumptions:
            ctx.assumptions[-1] = ('Print Assumptions: %d theorems closed under the global context; the 4 biased-Y-X '
                                   'theorems over R (c16_yx_disc_nonneg, c16_yx_ratio, c16_yx_unique, c16_zero_bias_pure_x) '
                                   'use the standard-library axioms: %s' % (closed, ', '.join(axs) or 'none'))
            ctx.extra['print_assumptions'] = {'closed': closed, 'axioms': axs}
    except OSError:
        pass
    ctx.trusted += [
        'Python fractions.Fraction(float) as the exact value of a binary64 number; math.isqrt for the rational root '
        'handed to the Y-X model (accuracy 2^-bits, bits >= 400)',
        'Coq Reals standard-library axioms for the four biased-Y-X theorems over R (named by Print Assumptions)',
    ]
    nq, nt = 1, 8
    scale = ctx.pick(nq, nt)

    pgrid = [0.0, 1.0, 2.0 ** -1074, 1e-300, 1e-17, 1e-9, 1e-3, 0.01, 0.1, 0.25, 1 / 3, 0.4, 0.5, 2 / 3, 0.75, 0.9,
             0.99, 0.999, 1 - 2.0 ** -20, 1 - 2.0 ** -53]

    def rand_p():
        r = rng.random()
        if r < 0.7:
            return rng.random()
        if r < 0.8:
            return 10 ** rng.uniform(-17, 0)
        if r < 0.9:
            return 1 - 10 ** rng.uniform(-16, 0)
        return rng.choice(pgrid)

    req, pend = [], []     # engine requests and what to do with the answers

    def ask(line, fn):
        req.append(line)
        pend.append(fn)

    kern = []              # in-kernel sample
    fkern = []             # bit-exact binary64 cases (simple models and biased-depolarizing)

    seen_keys = {}

    def viol(key, what, rep):
        # at most 3 recorded inputs per key (Ctx keeps 200 in all; a region finding must not crowd out others)
        seen_keys[key] = seen_keys.get(key, 0) + 1
        if seen_keys[key] <= 3:
            ctx.violation(key, what, rep)

    def call_pd(model, p):
        try:
            return model.probability_distribution(p), None
        except Exception as e:  # noqa
            return None, e

    # ---- (a) the property evaluated directly on the floats ----------------------------------
    def direct_common(name, params, p, d, keys, t=T50):
        """non-negativity, sum, Pr(I); `keys` maps a defect class to a (known) key where a region is known"""
        rep = {'model': name, 'params': params, 'p': p, 'p_hex': float(p).hex(), 'got': [repr(v) for v in d]}
        fd = frac_dist(d)
        if fd is None:
            viol(keys.get('nan', 'non-finite-entry'), 'distribution has a non-finite entry', rep)
            return None
        pf = F(p)
        for i, v in enumerate(fd):
            if v < 0:
                k = 'negative-entry'
                if i == 0 and p == 1.0 and v >= -2 * T50 and 'negI' in keys:
                    k = keys['negI']
                elif i > 0 and 'negXYZ' in keys and v >= -2 * T50:
                    k = keys['negXYZ']
                elif 'neg' in keys:
                    k = keys['neg']
                viol(k, 'Pr(%s) < 0' % LET[i], rep)
        if abs(sum(fd) - 1) > t:
            viol(keys.get('acc', 'sum-not-1'), '|sum - 1| > 2^%d' % (-50 if t == T50 else -44), rep)
        if abs(fd[0] - (1 - pf)) > t:
            viol(keys.get('acc', 'pI-not-1-p'), '|Pr(I) - (1-p)| > 2^%d' % (-50 if t == T50 else -44), rep)
        return fd

    def relclose(a, b, p):
        return abs(a - b) <= REL * abs(b) + T50 * p + TINY

    def model_cmp(name, params, p, fd, line, keys, sample=False, t=T50):
        def fn(ans):
            rep = {'model': name, 'params': params, 'p': p, 'p_hex': float(p).hex(),
                   'impl': [str(v) for v in fd], 'model_answer': ans}
            if ans.startswith('ERR'):
                ctx.cmp(name, rep, 'distribution', ans)
                return
            md = [tokq(t) for t in ans.split()]
            if not close_dist(F(p), fd, md, t):
                if 'acc' in keys:
                    viol(keys['acc'], 'implementation differs from the exact model by more than the tolerance', rep)
                else:
                    # correspondence mismatch: adjudicated by the direct checks (violation if they fail too)
                    ctx.cmp(name, rep, ' '.join(qtok(v) for v in fd), ans)
            elif sample and len(kern) < 160:
                kern.append((p, fd, line))
        ask(line, fn)

    def nontriv(p, nondefault):
        return nondefault and p not in (0.0, 1.0)

    # ---- 1. simple models --------------------------------------------------------------------
    simple = [('depolarizing', DepolarizingErrorModel, 'depol', lambda pf: (1 - pf, pf / 3, pf / 3, pf / 3)),
              ('bit-flip', BitFlipErrorModel, 'bitflip', lambda pf: (1 - pf, pf, 0, 0)),
              ('phase-flip', PhaseFlipErrorModel, 'phaseflip', lambda pf: (1 - pf, 0, 0, pf)),
              ('bit-phase-flip', BitPhaseFlipErrorModel, 'bitphase', lambda pf: (1 - pf, 0, pf, 0))]
    for name, cls, tok, shape in simple:
        ps = pgrid + [rand_p() for _ in range(120 * scale)]
        for p in ps:
            m = cls()
            d, e = call_pd(m, p)
            ctx.count((name, p), nontriv(p, True), name, {'model': name, 'p': p, 'dist': [float(v) for v in d]}
                      if p == 0.4 else None)
            if e is not None:
                viol('exception', 'probability_distribution raised %s' % exc_class(e), {'model': name, 'p': p})
                continue
            fd = direct_common(name, {}, p, d, {})
            if fd is None:
                continue
            pf = F(p)
            want = shape(pf)
            rep = {'model': name, 'p': p, 'p_hex': float(p).hex(), 'got': [repr(v) for v in d]}
            if name == 'depolarizing':
                if not (fd[1] == fd[2] == fd[3]):
                    viol('depolarizing-thirds', 'X, Y, Z probabilities are not equal', rep)
            for i in (1, 2, 3):
                if want[i] == 0 and fd[i] != 0:
                    viol('pure-model-leak', 'Pr(%s) != 0 in a pure model' % LET[i], rep)
                if not relclose(fd[i], F(want[i]), pf):
                    viol('shape', 'Pr(%s) is not the documented value' % LET[i], rep)
            model_cmp(name, {}, p, fd, '%s %s' % (tok, qtok(pf)), {}, sample=(p in pgrid))
            if len(fkern) < 4000:
                fkern.append(('%sF %s' % ({'depol': 'depolarizing', 'bitflip': 'bit_flip', 'phaseflip': 'phase_flip',
                                           'bitphase': 'bit_phase_flip'}[tok], coq_f(p)), d))

    # ---- 2. biased depolarizing ----------------------------------------------------------------
    def biased_case(bias, axis, p, kind, sample=False):
        try:
            m = BiasedDepolarizingErrorModel(bias, axis)
        except Exception as e:  # noqa
            viol('ctor-domain', 'documented parameters rejected: %s' % exc_class(e), {'model': 'biased', 'bias': bias, 'axis': axis})
            return
        d, e = call_pd(m, p)
        params = {'bias': bias, 'bias_hex': float(bias).hex(), 'axis': axis}
        ctx.count(('biased', bias, axis, p), nontriv(p, True), kind,
                  {'model': 'biased', 'bias': bias, 'axis': axis, 'p': p, 'dist': [float(v) for v in d]} if sample and p == 0.4 else None)
        if e is not None:
            viol('exception', 'probability_distribution raised %s' % exc_class(e), dict(params, model='biased', p=p))
            return
        fd = direct_common('biased', params, p, d, {'negI': 'F2-biased-negative-pI-at-p1'})
        if fd is None:
            return
        pf, bf = F(p), F(bias)
        ax = axis.upper()
        hi = fd[LET.index(ax)]
        lo = [fd[i] for i in (1, 2, 3) if LET[i] != ax]
        rep = dict(params, model='biased', p=p, p_hex=float(p).hex(), got=[repr(v) for v in d])
        if lo[0] != lo[1]:
            viol('biased-low-rates', 'the two off-axis probabilities differ', rep)
        # bias = high rate / sum of the low rates (division free, relative 1e-9)
        if not relclose(hi, bf * (lo[0] + lo[1]), pf):
            viol('biased-ratio', 'high-rate / (sum of low rates) != bias', rep)
        if not relclose(hi + lo[0] + lo[1], pf, pf):
            viol('biased-sum', 'X+Y+Z != p', rep)
        model_cmp('biased', params, p, fd, 'biased %s %s %s' % (qtok(bf), ax, qtok(pf)), {}, sample=sample)
        if isinstance(bias, float) and len(fkern) < 4000:
            fkern.append(('biasedF %s A%s %s' % (coq_f(bias), ax, coq_f(p)), d))

    for axis in 'XYZ':
        for bias in (0.5, 1.0, 10.0, 100.0, 0.001, 1e-6, 1e12, 3.0, 1 / 3):
            for p in pgrid:
                biased_case(bias, axis, p, 'biased-grid', sample=True)
    for _ in range(600 * scale):
        biased_case(10 ** rng.uniform(-6, 12), rng.choice('XYZxyz'), rand_p(), 'biased-random')
    # the F2 input and its neighbours, probed individually
    for axis in 'XYZ':
        biased_case(0.001, axis, 1.0, 'biased-F2-probe')
    # special case: bias 1/2 is depolarizing
    for axis in 'XYZ':
        for p in pgrid + [rand_p() for _ in range(20 * scale)]:
            db = BiasedDepolarizingErrorModel(0.5, axis).probability_distribution(p)
            dd = DepolarizingErrorModel().probability_distribution(p)
            ctx.count(('half', axis, p), nontriv(p, True), 'special-bias-half')
            fb, fdp = frac_dist(db), frac_dist(dd)
            if fb is None or fdp is None or not close_dist(F(p), fb, fdp):
                viol('special-bias-half', 'bias 1/2 is not the depolarizing distribution',
                     {'axis': axis, 'p': p, 'biased': [repr(v) for v in db], 'depolarizing': [repr(v) for v in dd]})

    # ---- 3. biased Y-X -----------------------------------------------------------------------------
    def yx_case(bias, p, kind, sample=False):
        healthy = yx_healthy(bias, p)
        keys = {} if healthy else {'neg': 'F3-yx-negative', 'negI': 'F3-yx-negative', 'negXYZ': 'F3-yx-negative',
                                   'acc': 'F3-yx-inaccurate', 'exc': 'F3-yx-domain-error', 'nan': 'F3-yx-inaccurate'}
        try:
            m = BiasedYXErrorModel(bias)
        except Exception as e:  # noqa
            viol('ctor-domain', 'documented parameters rejected: %s' % exc_class(e), {'model': 'biased-yx', 'bias': bias})
            return
        d, e = call_pd(m, p)
        params = {'bias': bias, 'bias_hex': float(bias).hex()}
        ctx.count(('yx', bias, p), nontriv(p, bias != 0), kind,
                  {'model': 'biased-yx', 'bias': bias, 'p': p, 'dist': [float(v) for v in d]} if sample and p == 0.4 and d else None)
        rep = dict(params, model='biased-yx', p=p, p_hex=float(p).hex(), got=[repr(v) for v in d] if d else None)
        if e is not None:
            viol(keys.get('exc', 'exception'), 'probability_distribution raised %s: %s' % (exc_class(e), e), rep)
            return
        fd = direct_common('biased-yx', params, p, d, keys, t=T44)
        if fd is None:
            return
        pf, bf = F(p), F(bias)
        if bias == 0:
            if fd[1] != pf or fd[2] != 0 or fd[3] != 0:
                viol('special-zero-bias', 'zero bias is not pure X noise', rep)
            ask('yx 0/1 %s 0/1' % qtok(pf), lambda ans, fd=fd, rep=rep, pf=pf: (
                None if close_dist(pf, fd, [tokq(t_) for t_ in ans.split()])
                else ctx.cmp('biased-yx', rep, ' '.join(qtok(v) for v in fd), ans)))
            return
        # documented system on the floats: independent flips with rates rx = pX + pZ, ry = pY + pZ
        rx, ry = fd[1] + fd[3], fd[2] + fd[3]
        ok = (relclose(fd[2], bf * fd[1], pf) and relclose(fd[3], rx * ry, pf) and relclose(fd[1], rx * (1 - ry), pf)
              and relclose(fd[2], ry * (1 - rx), pf) and relclose(fd[1] + fd[2] + fd[3], pf, pf)
              and 0 <= rx <= 1 and 0 <= ry <= 1)
        if not ok:
            viol(keys.get('acc', 'yx-shape'), 'Y:X != bias or X, Y flips not independent or X+Y+Z != p (relative 1e-9)', rep)
        # exact model relative to a rational root of the discriminant
        A = 1 + bf + pf - bf * pf
        disc = A * A - 4 * pf
        bits = 400 + 2 * max(0, -math.floor(math.log2(p))) if p > 0 else 400
        s = isqrt_frac(disc, bits) if disc > 0 else F(0)
        model_cmp('biased-yx', params, p, fd, 'yx %s %s %s' % (qtok(bf), qtok(pf), qtok(s)), keys,
                  sample=sample and healthy, t=T44)

    for bias in (0.0, 0.01, 0.1, 0.5, 1.0, 2.0, 10.0, 100.0):
        for p in pgrid:
            if yx_healthy(bias, p):
                yx_case(bias, p, 'yx-grid', sample=True)
    for _ in range(500 * scale):
        yx_case(rng.choice([0.0] + [10 ** rng.uniform(-2, 2)] * 9), rng.uniform(0.01, 0.99), 'yx-random')
    # the cancellation region (known finding F3): listed inputs and a sweep, reported under their own keys
    for bias, p in ((1e-6, 1 - 2.0 ** -53), (1e-9, 0.5), (1e-10, 0.3), (1e12, 0.5), (1e6, 0.5), (1e9, 0.1),
                    (0.3, 1.0), (1.038, 1.0), (1.0, 1.0), (10.0, 1.0), (0.001, 1e-15), (10.0, 1e-12), (0.3, 1 - 2.0 ** -53)):
        yx_case(bias, p, 'yx-F3-probe')
    for _ in range(150 * scale):
        bias = 10 ** rng.uniform(-9, 12)
        p = rng.choice([rand_p(), 1.0, 1 - 2.0 ** -53, 10 ** rng.uniform(-15, -3)])
        if not yx_healthy(bias, p):
            yx_case(bias, p, 'yx-F3-sweep')

    # ---- 4. centre-slice -------------------------------------------------------------------------------
    C3 = F(1, 3)

    def slice_expected(lim, pos):
        """independent statement of the documented geometry over Fractions: the ratio is the point at signed
        parameter pos on the line centre->lim, negative parameters being measured towards the second
        intersection N of that line with the triangle's boundary"""
        l = [F(v) for v in lim]
        s = sum(l)
        L = [v / s for v in l]
        # N = C - t (L - C) with t > 0 maximal such that all coordinates stay >= 0
        t = min(C3 / (L[k] - C3) for k in range(3) if L[k] > C3)
        N = [C3 - t * (L[k] - C3) for k in range(3)]
        pf = F(pos)
        end = L if pf >= 0 else N
        r = [C3 + abs(pf) * (end[k] - C3) for k in range(3)]
        return L, N, r

    def slice_case(lim, pos, p, kind, sample=False):
        try:
            m = CenterSliceErrorModel(lim, pos)
        except Exception as e:  # noqa
            viol('ctor-domain', 'documented parameters rejected: %s' % exc_class(e), {'model': 'slice', 'lim': list(lim), 'pos': pos})
            return
        d, e = call_pd(m, p)
        params = {'lim': list(lim), 'pos': pos, 'pos_hex': float(pos).hex()}
        ctx.count(('slice', tuple(lim), pos, p), nontriv(p, pos != 0), kind,
                  {'model': 'slice', 'lim': list(lim), 'pos': pos, 'p': p, 'dist': [float(v) for v in d]} if sample and p == 0.4 and d else None)
        rep = dict(params, model='slice', p=p, p_hex=float(p).hex(), got=[repr(v) for v in d] if d else None)
        if e is not None:
            viol('exception', 'probability_distribution raised %s: %s' % (exc_class(e), e), rep)
            return
        keys = {'negI': 'slice-negative-pI-at-p1'}
        if pos <= -1 + 2.0 ** -50:
            keys['negXYZ'] = 'slice-neglim-negative-entry'
        fd = direct_common('slice', params, p, d, keys)
        if fd is None:
            return
        pf = F(p)
        L, N, r = slice_expected(lim, pos)
        for i in (1, 2, 3):
            if not relclose(fd[i], r[i - 1] * pf, pf):
                viol('slice-line', 'Pr(%s) is not p times the point at position pos on the centre-limit line' % LET[i], rep)
                break
        model_cmp('slice', params, p, fd,
                  'slice %s %s %s %s %s' % (qtok(F(lim[0])), qtok(F(lim[1])), qtok(F(lim[2])), qtok(F(pos)), qtok(pf)),
                  {}, sample=sample)

    def slice_attrs(lim, pos):
        m = CenterSliceErrorModel(lim, pos)
        L, N, r = slice_expected(lim, pos)
        got = {'lim': m.lim, 'neg_lim': m.neg_lim, 'ratio': m.ratio}
        rep = {'model': 'slice', 'lim': list(lim), 'pos': pos, 'got': {k: [repr(v) for v in got[k]] for k in got}}
        ctx.count(('slice-attrs', tuple(lim), pos), pos != 0, 'slice-attrs')
        vals = {}
        for k, want in (('lim', L), ('neg_lim', N), ('ratio', r)):
            try:
                vals[k] = [F(float(v)) for v in got[k]]
            except (ValueError, OverflowError):
                viol('slice-attrs', '%s has a non-finite entry' % k, rep)
                return
            if len(vals[k]) != 3 or any(abs(a - b) > REL * abs(b) + T50 for a, b in zip(vals[k], want)):
                viol('slice-attrs', 'attribute %s is not the documented point' % k, rep)
        # direct geometric statement: neg_lim on the boundary, centre strictly between lim and neg_lim
        if 'neg_lim' in vals and 'lim' in vals:
            n_, l_ = vals['neg_lim'], vals['lim']
            if abs(sum(n_) - 1) > T50 or min(n_) < -T50 or min(abs(v) for v in n_) > T50:
                viol('slice-attrs', 'neg_lim is not on the boundary of the triangle', rep)
            cr = [(l_[1] - C3) * (n_[2] - C3) - (l_[2] - C3) * (n_[1] - C3), (l_[2] - C3) * (n_[0] - C3) - (l_[0] - C3) * (n_[2] - C3)]
            dotp = sum((l_[k] - C3) * (n_[k] - C3) for k in range(3))
            if any(abs(c) > 8 * T50 for c in cr) or dotp >= 0:
                viol('slice-attrs', 'lim, centre, neg_lim are not collinear with the centre in between', rep)

        def fn(ans):
            if ans.startswith('ERR'):
                ctx.cmp('slice-attrs', rep, 'attributes', ans)
                return
            mv = [tokq(t) for t in ans.split()]
            flat = [F(float(v)) for k in ('lim', 'neg_lim', 'ratio') for v in got[k]]
            if any(abs(a - b) > REL * abs(b) + T50 for a, b in zip(flat, mv)):
                ctx.cmp('slice-attrs', rep, ' '.join(qtok(v) for v in flat), ans)
        ask('sliceattrs %s %s %s %s' % (qtok(F(lim[0])), qtok(F(lim[1])), qtok(F(lim[2])), qtok(F(pos))), fn)

    def rand_lim():
        k = rng.choice([1, 2])
        zeros = rng.sample(range(3), k)
        style = rng.randrange(4)
        out = []
        for i in range(3):
            if i in zeros:
                out.append(0 if style else 0.0)
            elif style == 0:
                out.append(rng.random())
            elif style == 1:
                out.append(rng.randint(1, 9))
            elif style == 2:
                out.append(10 ** rng.uniform(-6, 6))
            else:
                out.append(rng.choice([0.5, 1.0, 1.0, 2.0, 0.25]))
        return tuple(out)

    def rand_pos():
        r = rng.random()
        if r < 0.6:
            return rng.uniform(-1, 1)
        return rng.choice([0.0, 1.0, -1.0, 1e-12, -1e-12, 0.5, -0.5, -0.999, 0.999, -1 + 1e-9, 1 - 1e-9])

    fixed_lims = [(1, 0, 0), (0, 1, 0), (0, 0, 1), (1, 1, 0), (0, 1, 1), (1, 0, 1), (0.2, 0.8, 0), (0, 3, 1), (5, 0, 0.5),
                  (0.5, 0.5, 0), (2, 0, 0), (0, 1e-3, 1)]
    for lim in fixed_lims:
        for pos in (1.0, 0.5, 0.0, -0.5, -1.0, 1e-12, -1e-12):
            slice_attrs(lim, pos)
            for p in pgrid:
                slice_case(lim, pos, p, 'slice-grid', sample=True)
    for _ in range(500 * scale):
        lim, pos = rand_lim(), rand_pos()
        slice_case(lim, pos, rand_p(), 'slice-random')
        if rng.random() < 0.3:
            slice_attrs(lim, pos)
    # the known-bad inputs of the two rounding findings, probed individually
    slice_case((0.032, 0, 0.987), 1.0, 1.0, 'slice-F2-probe')
    slice_case((0.39196807998287797, 0, 0.00795003897287172), -1.0, 0.5, 'slice-F6-probe')
    # special cases: pos 0 is depolarizing; unit limits at pos 1 are the pure models
    for _ in range(40 * scale):
        lim, p = rand_lim(), rand_p()
        ds = CenterSliceErrorModel(lim, 0).probability_distribution(p)
        dd = DepolarizingErrorModel().probability_distribution(p)
        ctx.count(('pos0', lim, p), nontriv(p, True), 'special-pos0')
        fs, fdp = frac_dist(ds), frac_dist(dd)
        if fs is None or not close_dist(F(p), fs, fdp):
            viol('special-pos0', 'pos 0 is not the depolarizing distribution', {'lim': list(lim), 'p': p, 'got': [repr(v) for v in ds]})
    for lim, cls in (((1, 0, 0), BitFlipErrorModel), ((0, 1, 0), BitPhaseFlipErrorModel), ((0, 0, 1), PhaseFlipErrorModel),
                     ((7, 0, 0), BitFlipErrorModel), ((0, 0.25, 0), BitPhaseFlipErrorModel), ((0, 0, 1e6), PhaseFlipErrorModel)):
        for p in pgrid + [rand_p() for _ in range(10 * scale)]:
            ds = CenterSliceErrorModel(lim, 1.0).probability_distribution(p)
            dp = cls().probability_distribution(p)
            ctx.count(('unit', lim, p), nontriv(p, True), 'special-unit-lim')
            fs, fp = frac_dist(ds), frac_dist(dp)
            if fs is None or fs[1:] != fp[1:] or abs(fs[0] - fp[0]) > T50:
                viol('special-unit-lim', 'a unit limit at pos 1 is not the pure single-Pauli model',
                     {'lim': list(lim), 'p': p, 'got': [repr(v) for v in ds]})

    # ---- 5. constructor domains ----------------------------------------------------------------------
    def ctor_result(f):
        try:
            f()
            return 'ok'
        except Exception as e:  # noqa
            return exc_class(e)

    nums_good = [0.5, 1, 10, 1e-300, 1e300, 3.5, True, 2 ** 70]
    nums_bad = [0, 0.0, -1, -0.5, -1e-300, float('nan'), float('inf'), float('-inf'), False, -0.0]
    nonnum = ['1', None, [1], (1, 2), 1j, {}]
    axes = ['X', 'Y', 'Z', 'x', 'y', 'z', 'A', '', 'XY', 'xx', ' X', 'I', None, 5, ('X',), 88]

    def documented_biased(b, a):
        return (isinstance(b, (int, float)) and not isinstance(b, complex) and b == b and b > 0 and math.isfinite(b)
                and isinstance(a, str) and a in ('X', 'Y', 'Z', 'x', 'y', 'z'))

    def documented_yx(b):
        return isinstance(b, (int, float)) and b == b and b >= 0 and math.isfinite(b)

    for b in nums_good + nums_bad + nonnum:
        for a in (axes if (b in nums_good[:3] or not isinstance(b, (int, float))) else axes[:2] + axes[6:8]):
            got = ctor_result(lambda: BiasedDepolarizingErrorModel(b, a))
            ctx.count(None, False, 'ctor-biased')
            rep = {'model': 'biased', 'bias': repr(b), 'axis': repr(a), 'got': got}
            if (got == 'ok') != documented_biased(b, a):
                viol('ctor-domain', 'constructor accepts/rejects against the documented domain', rep)
            if got not in ('ok', 'ValueError', 'TypeError'):
                viol('ctor-domain', 'constructor raises an undocumented exception class', rep)
            if got == 'ok':
                mm = BiasedDepolarizingErrorModel(b, a)
                if mm.axis != a.upper() or mm.bias != b:
                    viol('ctor-attrs', 'bias/axis attributes are not the constructor arguments', rep)
            ask('ctor_biased %s %s' % (pynum_tok(b), axis_tok(a)),
                lambda ans, got=got, rep=rep: ctx.cmp('ctor-biased', rep, got, ans))
    for b in nums_good + nums_bad + nonnum + [10 ** rng.uniform(-9, 9) * rng.choice([1, -1]) for _ in range(40 * scale)]:
        got = ctor_result(lambda: BiasedYXErrorModel(b))
        ctx.count(None, False, 'ctor-yx')
        rep = {'model': 'biased-yx', 'bias': repr(b), 'got': got}
        if (got == 'ok') != documented_yx(b):
            viol('ctor-domain', 'constructor accepts/rejects against the documented domain', rep)
        if got not in ('ok', 'ValueError', 'TypeError'):
            viol('ctor-domain', 'constructor raises an undocumented exception class', rep)
        ask('ctor_yx %s' % pynum_tok(b), lambda ans, got=got, rep=rep: ctx.cmp('ctor-yx', rep, got, ans))

    def documented_slice(lim, pos):
        if not isinstance(lim, (tuple, list)) or len(lim) != 3:
            return False
        if not all(isinstance(v, (int, float)) and math.isfinite(v) and v >= 0 for v in lim):
            return False
        if sum(1 for v in lim if v != 0) not in (1, 2):
            return False
        return isinstance(pos, (int, float)) and pos == pos and -1 <= pos <= 1

    def slice_ctor_case(lim, pos, kind):
        got = ctor_result(lambda: CenterSliceErrorModel(lim, pos))
        ctx.count(None, False, kind)
        rep = {'model': 'slice', 'lim': repr(lim), 'pos': repr(pos), 'got': got}
        signless = isinstance(lim, (tuple, list)) and any(
            isinstance(v, float) and (v != v or math.isinf(v)) or (isinstance(v, (int, float)) and v < 0) for v in lim)
        if got not in ('ok', 'ValueError', 'TypeError'):
            viol('ctor-domain', 'constructor raises an undocumented exception class', rep)
        if signless:
            # F4 region: the documented domain says reject; the code at the pinned commit has no sign/finiteness test
            # the implementation must agree exactly either with the documented-domain decision function (repaired)
            # or with the sign-less one (pinned commit: F4 when it accepts; its exception class otherwise)
            box = {}

            def fn_doc(ans, rep=rep, box=box):
                box['doc'] = ans
                rep['model_documented'] = ans

            def fn_uns(ans, got=got, rep=rep, box=box):
                rep['model_signless'] = ans
                if got == box['doc']:
                    return
                if got == ans:
                    if got == 'ok':
                        viol('F4-slice-lim-sign-accepted', 'limit with a negative or non-finite entry accepted', rep)
                    return
                ctx.cmp('ctor-slice(F4 region)', rep, got, 'documented: %s / sign-less: %s' % (box['doc'], ans))
            ask('ctor_slice %s %s' % (lim_tok(lim), pynum_tok(pos)), fn_doc)
            ask('ctor_slice_unsigned %s %s' % (lim_tok(lim), pynum_tok(pos)), fn_uns)
        else:
            if (got == 'ok') != documented_slice(lim, pos):
                viol('ctor-domain', 'constructor accepts/rejects against the documented domain', rep)
            ask('ctor_slice %s %s' % (lim_tok(lim), pynum_tok(pos)),
                lambda ans, got=got, rep=rep: ctx.cmp('ctor-slice', rep, got, ans))

    good_pos = [0, 1, -1, 0.5, -0.25, 1.0, -1.0]
    bad_pos = [1.0000001, -1.5, 2, float('nan'), float('inf'), float('-inf'), 'a', None, [0]]
    lims = [(1, 0, 0), (0, 2, 3), (0.0, 0.0, 1e-9), (0, 0, 0), (1, 1, 1), (1, 0), (1, 0, 0, 0), (), [1, 0, 0], [0, 0.5, 0.5],
            (0.0, 0.0, 0.0), (1e300, 0, 1e300), None, 5, 1.5]
    for lim in lims:
        for pos in good_pos + bad_pos:
            slice_ctor_case(lim, pos, 'ctor-slice')
    for _ in range(150 * scale):
        n = rng.choice([3, 3, 3, 3, 2, 4, 1, 0])
        lim = tuple(rng.choice([0, 0, 0.0, rng.random(), rng.randint(1, 5), 10 ** rng.uniform(-5, 5)]) for _ in range(n))
        slice_ctor_case(lim, rng.choice(good_pos + bad_pos + [rng.uniform(-1.2, 1.2)]), 'ctor-slice')
    # F4 probes (known finding): negative and non-finite limit entries
    f4 = [(-1, 0, 0), (1, -1, 0), (float('nan'), 0, 0), (float('inf'), 0, 0), (0, -0.5, 2), (0, 0, -3), (1, float('-inf'), 0),
          (-1, -1, 0), (-1, 2, 3), (float('nan'), float('nan'), float('nan'))]
    for lim in f4:
        for pos in (0.5, -0.5, 2, None):
            slice_ctor_case(lim, pos, 'ctor-slice-F4-probe')
    # what the accepted out-of-domain limits produce (part of the same finding)
    for lim in ((-1, 0, 0), (1, -1, 0), (float('nan'), 0, 0)):
        try:
            d = CenterSliceErrorModel(lim, 0.5).probability_distribution(0.1)
            bad = any((float(v) != float(v)) or float(v) < 0 for v in d)
            ctx.count(None, False, 'ctor-slice-F4-probe')
            if bad:
                viol('F4-slice-lim-sign-accepted', 'accepted out-of-domain limit yields negative or NaN probabilities',
                     {'model': 'slice', 'lim': repr(lim), 'pos': 0.5, 'p': 0.1, 'got': [repr(v) for v in d]})
        except Exception:  # noqa
            pass

    # ---- correspondence with the extracted model -----------------------------------------------------------
    out = ctx.model('c16', req)
    for fn, ans in zip(pend, out):
        fn(ans)

    # ---- in-kernel shard: verified checkers on a sample, inside Coq --------------------------------------------
    items = []
    for (p, fd, line) in kern[:150]:
        t = line.split()
        pq = coq_q(F(p))
        if t[0] in ('depol', 'bitflip', 'phaseflip', 'bitphase'):
            fnm = {'depol': 'depolarizing', 'bitflip': 'bit_flip', 'phaseflip': 'phase_flip', 'bitphase': 'bit_phase_flip'}[t[0]]
            mod = 'Some (%s %s)' % (fnm, pq)
        elif t[0] == 'biased':
            mod = 'Some (biased %s A%s %s)' % (coq_q(tokq(t[1])), t[2], pq)
        elif t[0] == 'yx':
            mod = 'Some (biased_yx %s %s %s)' % (coq_q(tokq(t[1])), pq, coq_q(tokq(t[3])))
        else:
            mod = 'slice (%s, %s, %s) %s %s' % (coq_q(tokq(t[1])), coq_q(tokq(t[2])), coq_q(tokq(t[3])), coq_q(tokq(t[4])), pq)
        tol = 'tol_abs_yx' if t[0] == 'yx' else 'tol_abs'
        skip_valid = 'true' if any(v < 0 for v in fd) else 'valid_dist_tol %s %s %s' % (tol, pq, coq_dist(fd))
        items.append('(match %s with Some m => close_dist_tol %s %s %s m && %s | None => false end)'
                     % (mod, tol, pq, coq_dist(fd), skip_valid))
    text = ('From Coq Require Import QArith List Bool.\nFrom QV Require Import ErrorModels.DistQ.\nImport ListNotations.\n'
            'Open Scope Q_scope.\nDefinition checks : list bool :=\n [' + ';\n  '.join(items) + '].\n'
            'Example corr : forallb (fun b => b) checks = true.\nProof. vm_compute. reflexivity. Qed.\n')
    ctx.kernel_cases('sample', text)
    ctx.extra['kernel_cases'] = len(items)
    # bit-exact shard: the binary64 model (ErrorModels/DistFloat.v) reproduces the implementation's floats exactly,
    # including the negative Pr(I) of finding F2
    step = max(1, len(fkern) // ctx.pick(400, 1500))
    fitems = ['(feq4 (%s) (%s, %s, %s, %s))' % ((call,) + tuple(coq_f(v) for v in d)) for call, d in fkern[::step]]
    ftext = ('From Coq Require Import Floats List Bool.\nFrom QV Require Import ErrorModels.DistQ ErrorModels.DistFloat.\n'
             'Import ListNotations.\nOpen Scope float_scope.\nDefinition checks : list bool :=\n ['
             + ';\n  '.join(fitems) + '].\nExample corr : forallb (fun b => b) checks = true.\n'
             'Proof. vm_compute. reflexivity. Qed.\n')
    ctx.kernel_cases('binary64', ftext)
    ctx.extra['kernel_cases_binary64'] = len(fitems)
    ctx.extra['engine_requests'] = len(req)


def replay(path):
    """re-run a stored failing input on the implementation and print what it returns now"""
    from qecsim.models.generic import (DepolarizingErrorModel, BitFlipErrorModel, PhaseFlipErrorModel,
                                       BitPhaseFlipErrorModel, BiasedDepolarizingErrorModel, BiasedYXErrorModel,
                                       CenterSliceErrorModel)
    d = json.load(open(path))
    print(json.dumps(d, indent=1))
    r = d.get('replay', {})
    try:
        name = r.get('model')
        p = float.fromhex(r['p_hex']) if 'p_hex' in r else r.get('p')
        if name == 'biased':
            m = BiasedDepolarizingErrorModel(float.fromhex(r['bias_hex']), r['axis'])
        elif name == 'biased-yx':
            m = BiasedYXErrorModel(float.fromhex(r['bias_hex']))
        elif name == 'slice' and isinstance(r.get('lim'), list):
            m = CenterSliceErrorModel(tuple(r['lim']), float.fromhex(r['pos_hex']) if 'pos_hex' in r else r['pos'])
        else:
            m = {'depolarizing': DepolarizingErrorModel, 'bit-flip': BitFlipErrorModel, 'phase-flip': PhaseFlipErrorModel,
                 'bit-phase-flip': BitPhaseFlipErrorModel}[name]()
        print('now:', m, p, m.probability_distribution(p))
    except Exception as e:  # noqa
        print('replay: %s: %s' % (type(e).__name__, e))
    return 0
