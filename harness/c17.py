"""C17 — generated qubit and measurement errors follow their stated distributions.

(a) exact: the real SimpleErrorModel.generate(code, p, rng) of every IID model against the Gallina model
    (ErrorModels/Generate.v, extracted) fed with the uniforms np.random.default_rng(seed).random(n) of an
    identically seeded twin generator and with the implementation's float distribution as exact rationals;
    the flips seen by a recording DecoderFTP in run_once_ftp / run_ftp likewise (whole-run stream layout).
(b) the property evaluated directly on the implementation by independent Python: shape, binariness,
    zero-probability letters never appear, same seed same error, generator advanced by exactly n (n+m per
    step) uniforms, every qubit the inverse-cdf image of its own uniform with X in bit j and Z in bit n+j,
    flips never for q = 0 / always for q = 1.
(c) statistical support with fixed seeds: single-qubit and adjacent-pair frequencies over 2*10^5 draws against
    the distribution and independence; failing only beyond 6 sigma.
(d) histories of calls (harness/c17_extra.py): several instances of one parameterised model class at the same
    probability in one process, one instance at several probabilities, caller overwriting a returned error; every
    instance is judged against its own stated distribution.
(e) joint statistics of fault-tolerant runs (harness/c17_extra.py): every pair of different output bits of a run
    (qubit hit / X part / Z part in any step, syndrome bit flipped in any step) and every such pair across consecutive
    runs of one generator must be independent: exact 2x2 contingency tests, Bonferroni over all pairs at family error
    rate 1e-9, plus pooled (step lag, index offset) and weight-against-flip-count correlations.
(f) reproducibility as a direct clause (harness/c17_repro.py): short histories of generate / run_once / run_once_ftp calls
    on one caller-owned generator (any numpy bit generator, already used before the checkpoint): restoring the recorded
    bit_generator.state, or copying it into a second generator, reproduces every error and every vector of flips; the
    calls consumed variates unless every output is deterministic; child interpreters with other string-hash salts
    (PYTHONHASHSEED 0, 1, 2, random) give the same outputs from the same seeds."""
import bisect
import json
import logging
import math
from fractions import Fraction as F

import numpy as np

from harness.common import bitstr, exc_class, coq_list
from harness import c17_extra as c17x
from harness import c17_repro as c17r

LET = 'IXYZ'
EDGE = 2.0 ** -45          # uniforms this close to a cumulative bound are not compared (float vs exact cdf)


def qtok(x):
    x = F(x)
    return ('-' if x.numerator < 0 else '') + '%x/%x' % (abs(x.numerator), x.denominator)


def utok(u):
    """a numpy uniform is K * 2^-53"""
    k = int(u * 2.0 ** 53)
    assert k * 2.0 ** -53 == u
    return '%x' % k


def coq_q(x):
    x = F(x)
    return '(Qmake (%s0x%x)%%Z 0x%x%%positive)' % ('-' if x.numerator < 0 else '', abs(x.numerator), x.denominator)


class StubCode:
    """generate() only reads code.n_k_d[0]"""

    def __init__(self, n):
        self.n_k_d = (n, 1, None)
        self.label = 'stub %d' % n

    def __repr__(self):
        return 'StubCode(%d)' % self.n_k_d[0]


def float_cdf(d):
    c = np.cumsum(np.array([float(v) for v in d], dtype=float))
    return c / c[-1]


def expected_letters(d, us):
    """independent statement of the draw: index of the first cumulative bound exceeding the uniform"""
    c = list(float_cdf(d))
    return [bisect.bisect_right(c, u) for u in us]


def borderline(d, us):
    c = float_cdf(d)
    return bool(np.any(np.abs(np.asarray(us)[:, None] - c[None, :]) < EDGE))


def letters_of_bsf(e, n):
    return [int(e[j]) + 2 * int(e[n + j]) for j in range(n)]   # 0 I, 1 X, 2 Z, 3 Y


XZ = {0: 0, 1: 1, 2: 3, 3: 2}   # index in IXYZ -> x + 2z code


def run(ctx):
    from qecsim import app
    from qecsim.models.generic import (DepolarizingErrorModel, BitFlipErrorModel, PhaseFlipErrorModel,
                                       BitPhaseFlipErrorModel, BiasedDepolarizingErrorModel, BiasedYXErrorModel,
                                       CenterSliceErrorModel)
    from qecsim.models.basic import FiveQubitCode, SteaneCode
    from qecsim.models.planar import PlanarCode
    from qecsim.models.toric import ToricCode
    from qecsim.models.rotatedplanar import RotatedPlanarCode
    from qecsim.models.color import Color666Code
    from harness.proxies import ScriptedDecoder
    logging.getLogger('qecsim').setLevel(logging.CRITICAL)
    rng = ctx.rng
    ctx.rule = ('every IID model (depolarizing, bit/phase/bit-phase flip, biased-depolarizing bias in [1e-3,1e3] all axes, '
                'biased-Y-X bias 0 or in [1e-2,1e2] with p in [0.01,0.99], centre-slice pos in (-1,1]); p in {0,1} and '
                'random; library codes and stub codes n = 4..%d; seeds 0..2^32; run_once_ftp / run_ftp with T <= 6, '
                'q in {None, 0, 1, random}; statistical support %d draws per configuration, 6 sigma; histories: 5 instances '
                'of each parameterised class at one p, in order and reversed, one instance at several p; joint statistics: '
                '%d fault-tolerant configurations (4+ fixed, the rest random: code n <= %d, any IID model, p in [0.05,0.6], '
                'q None or in [0.05,0.7], T in 2..6, run_ftp or run_once_ftp on one generator) of %d runs each, all pairs of '
                'output bits within a run and across consecutive runs, exact tests at family error rate 1e-9; reproducibility: %d '
                'histories of 1..3 calls of generate (same model / p / code domains) or run_once / run_once_ftp (T <= 5, q in '
                '{None, 0, 1, random}) on a generator of any numpy bit-generator class after 0..100 earlier draws: state restored, '
                'state copied into a second generator, state advanced, and the same histories in child interpreters with '
                'PYTHONHASHSEED 0, 1, 2, random. nontrivial = at '
                'least two non-zero error letters and n >= 9' % (ctx.pick(400, 800), 200000, ctx.pick(7, 16), ctx.pick(24, 61),
                                                                 ctx.pick(1500, 4000), ctx.pick(360, 1500)))
    ctx.props_obligations()
    ctx.trusted += [
        'numpy SeedSequence / PCG64 / Generator.random as the uniform source (uniformity and independence trusted; '
        'sampled by the fixed-seed frequency check); Generator.choice(a, size, p) == cdf.searchsorted(random(size), '
        'side="right") is checked on every case, not assumed',
        'float cumulative sums versus the exact rational cumulative sums of the same float distribution: uniforms '
        'within 2^-45 of a bound are excluded from the exact comparison and counted',
    ]

    def rand_model():
        k = rng.randrange(10)
        if k == 0:
            return DepolarizingErrorModel(), 'depolarizing'
        if k == 1:
            return BitFlipErrorModel(), 'bit-flip'
        if k == 2:
            return PhaseFlipErrorModel(), 'phase-flip'
        if k == 3:
            return BitPhaseFlipErrorModel(), 'bit-phase-flip'
        if k in (4, 5):
            b = rng.choice([0.5, 10.0, 100.0, 10 ** rng.uniform(-3, 3)])
            return BiasedDepolarizingErrorModel(b, rng.choice('XYZ')), 'biased'
        if k in (6, 7):
            b = rng.choice([0.0, 1.0, 10.0, 10 ** rng.uniform(-2, 2)])
            return BiasedYXErrorModel(b), 'biased-yx'
        zeros = rng.sample(range(3), rng.choice([1, 2]))
        lim = tuple(0 if i in zeros else rng.choice([1, 2, 0.5, rng.random() + 0.01]) for i in range(3))
        pos = rng.choice([1.0, 0.5, 0.0, -0.5, rng.uniform(-0.999, 1)])
        return CenterSliceErrorModel(lim, pos), 'slice'

    def rand_p(kind):
        if kind == 'biased-yx':
            return rng.uniform(0.01, 0.99)
        r = rng.random()
        if r < 0.08:
            return 0.0
        if r < 0.16:
            return 1.0
        if r < 0.3:
            return rng.choice([0.5, 0.1, 0.01, 0.25, 0.9])
        return rng.random()

    lib = [FiveQubitCode(), SteaneCode(), PlanarCode(2, 2), PlanarCode(3, 3), PlanarCode(4, 5), ToricCode(2, 2), ToricCode(3, 4),
           RotatedPlanarCode(3, 3), RotatedPlanarCode(5, 4), Color666Code(3), Color666Code(5)]
    if not ctx.quick:
        lib += [PlanarCode(9, 9), ToricCode(8, 8), RotatedPlanarCode(9, 9), Color666Code(9)]
    nmax = ctx.pick(400, 800)

    def rand_code():
        if rng.random() < 0.4:
            return rng.choice(lib)
        return StubCode(rng.choice([4, 5, 8, 9, 16, 33, 64, 100, rng.randint(4, nmax), rng.randint(4, 60)]))

    def valid_dist(d):
        try:
            fd = [F(float(v)) for v in d]
        except (ValueError, OverflowError):
            return None
        if len(fd) != 4 or any(v < 0 for v in fd) or abs(sum(fd) - 1) > F(1, 2 ** 40):
            return None
        return fd

    req, pend = [], []
    kern = []
    seen = {}

    def viol(key, what, rep):
        seen[key] = seen.get(key, 0) + 1
        if seen[key] <= 3:
            ctx.violation(key, what, rep)

    # ------------------------------------------------------------------ (a)+(b) generate
    for it in range(ctx.pick(1800, 14000)):
        m, kind = rand_model()
        p = rand_p(kind)
        code = rand_code()
        n = code.n_k_d[0]
        seed = rng.randrange(2 ** 32)
        try:
            d = m.probability_distribution(p)
        except Exception as e:  # noqa  (C16's business)
            ctx.count(None, False, 'skipped:distribution-raises(C16)')
            continue
        fd = valid_dist(d)
        if fd is None:
            ctx.count(None, False, 'skipped:invalid-distribution(C16 finding)')
            continue
        rep = {'model': repr(m), 'p': p, 'p_hex': float(p).hex(), 'n': n, 'seed': seed, 'dist': [repr(v) for v in d]}
        g = np.random.default_rng(seed)
        twin = np.random.default_rng(seed)
        try:
            e = m.generate(code, p, g)
        except Exception as ex:  # noqa
            viol('generate-raises', 'generate raised %s: %s' % (exc_class(ex), ex), rep)
            continue
        us = twin.random(n)
        nz = sum(1 for v in fd[1:] if v > 0)
        ctx.count((repr(m), p, n, seed), nz >= 2 and n >= 9 and 0 < p, 'generate:' + kind,
                  {'model': repr(m), 'p': p, 'n': n, 'seed': seed, 'error': bitstr(e)} if n == 5 and len(ctx.samples) < 3 else None)
        # --- direct checks
        arr = np.asarray(e)
        if not (arr.ndim == 1 and arr.shape[0] == 2 * n and set(np.unique(arr).tolist()) <= {0, 1}):
            viol('shape', 'error is not a binary vector of length 2n', dict(rep, got=repr(e)[:200]))
            continue
        rep['error'] = bitstr(arr)
        lets = letters_of_bsf(arr, n)
        for k in (1, 2, 3):
            if fd[k] == 0 and XZ[k] in lets:
                viol('zero-probability-letter', 'a Pauli of probability 0 (%s) was generated' % LET[k], rep)
                break
        if fd[0] == 0 and 0 in lets:
            viol('zero-probability-letter', 'identity generated although Pr(I) = 0', rep)
        e2 = m.generate(code, p, np.random.default_rng(seed))
        if not np.array_equal(arr, np.asarray(e2)):
            viol('not-reproducible', 'the same generator state gave a different error', dict(rep, second=bitstr(e2)))
        # numpy's algorithm restated in Python (correspondence, not the property itself: a different but correct
        # sampler would be a mismatch adjudicated by the direct and statistical checks)
        if g.random() != twin.random():
            ctx.cmp('generate:stream-advance', rep, 'generator not advanced by exactly n uniforms', 'advanced by n uniforms')
        edge = borderline(d, us)
        if not edge:
            want = [XZ[k] if k < 4 else None for k in expected_letters(d, us)]
            if want != lets:
                j = next(i for i in range(n) if want[i] != lets[i])
                ctx.cmp('generate:inverse-cdf(python restatement)',
                        dict(rep, qubit=j, uniform=float(us[j]).hex()), 'xz=%s' % lets[j], 'xz=%s' % want[j])
        else:
            ctx.count(None, False, 'borderline-uniform(not compared exactly)')
            continue
        # --- model
        line = 'gen %s %s' % (','.join(qtok(v) for v in fd), ','.join(utok(u) for u in us))
        req.append(line)
        pend.append(('generate', rep, bitstr(arr)))
        if n <= 16 and len(kern) < 120:
            kern.append(('gen', fd, [F(float(u)) for u in us], arr.tolist()))
    # cumulative sums: exact model cdf vs numpy's float cdf
    for _ in range(ctx.pick(60, 400)):
        m, kind = rand_model()
        p = rand_p(kind)
        try:
            d = m.probability_distribution(p)
        except Exception:  # noqa
            continue
        fd = valid_dist(d)
        if fd is None:
            continue
        fc = [F(float(v)) for v in float_cdf(d)]
        req.append('cdf ' + ','.join(qtok(v) for v in fd))
        pend.append(('cdf', {'model': repr(m), 'p': p}, fc))
        ctx.count(None, False, 'cdf')

    # ------------------------------------------------------------------ (a)+(b) fault-tolerant runs
    ftp_codes = [FiveQubitCode(), SteaneCode(), PlanarCode(2, 2), PlanarCode(3, 3), ToricCode(2, 2), ToricCode(3, 3),
                 RotatedPlanarCode(3, 3), PlanarCode(4, 5), Color666Code(3), Color666Code(5)]
    if not ctx.quick:
        ftp_codes += [PlanarCode(8, 8), ToricCode(10, 10), RotatedPlanarCode(9, 9)]
    for it in range(ctx.pick(500, 4000)):
        code = rng.choice(ftp_codes)
        n, mstab = code.n_k_d[0], code.stabilizers.shape[0]
        m, kind = rand_model()
        p = rand_p(kind)
        T = rng.randint(1, 6)
        qsel = rng.choice(['none', 'zero', 'one', 'rand', 'rand', 'half'])
        q = {'none': None, 'zero': 0.0, 'one': 1.0, 'rand': rng.random(), 'half': 0.5}[qsel]
        seed = rng.randrange(2 ** 32)
        try:
            fd = valid_dist(m.probability_distribution(p))
        except Exception:  # noqa
            fd = None
        if fd is None:
            ctx.count(None, False, 'skipped:invalid-distribution(C16 finding)')
            continue
        use_run = rng.random() < 0.3
        runs = rng.randint(1, 3) if use_run else 1
        dec = ScriptedDecoder([np.zeros(2 * n, dtype=int)])
        rep = {'code': repr(code), 'model': repr(m), 'p': p, 'p_hex': float(p).hex(), 'T': T, 'q': q, 'seed': seed,
               'api': 'run_ftp(max_runs=%d)' % runs if use_run else 'run_once_ftp'}
        try:
            if use_run:
                app.run_ftp(code, T, m, dec, p, q, max_runs=runs, random_seed=seed)
            else:
                app.run_once_ftp(code, T, m, dec, p, q, np.random.default_rng(seed))
        except Exception as ex:  # noqa
            viol('ftp-raises', 'fault-tolerant run raised %s: %s' % (exc_class(ex), ex), rep)
            continue
        q_eff = (0.0 if T == 1 else p) if q is None else q
        per_step = n + (mstab if q_eff else 0)
        us = np.random.default_rng(seed).random(runs * T * per_step)
        nz = sum(1 for v in fd[1:] if v > 0)
        ctx.count((repr(code), repr(m), p, T, q, seed, use_run), nz >= 2 and n >= 9 and 0 < q_eff < 1, 'ftp:' + qsel,
                  {'code': repr(code), 'T': T, 'q': q, 'seed': seed} if it < 2 else None)
        if len(dec.calls) != runs:
            viol('ftp-decoder-calls', 'decode_ftp was not called once per run', rep)
            continue
        steps = []
        ok = True
        for call in dec.calls:
            kw = call['kwargs']
            se, sm = kw.get('step_errors'), kw.get('step_measurement_errors')
            if se is None or sm is None or len(se) != T or len(sm) != T:
                viol('ftp-context', 'step_errors / step_measurement_errors missing or not one per time step', rep)
                ok = False
                break
            if kw.get('measurement_error_probability') != q_eff:
                viol('ftp-context', 'measurement_error_probability in the decoder context is not the effective q', rep)
            steps += list(zip(se, sm))
        if not ok:
            continue
        dcdf = [float(v) for v in fd]
        edge = borderline(dcdf, us) or (bool(q_eff) and borderline([1 - q_eff, q_eff], us))
        for t, (e, f) in enumerate(steps):
            f = np.asarray(f)
            if not (f.ndim == 1 and f.shape[0] == mstab and set(np.unique(f).tolist()) <= {0, 1}):
                viol('flips-shape', 'step_measurement_error is not a binary vector with one bit per stabilizer', dict(rep, step=t))
                ok = False
                break
            if q_eff == 0 and f.any():
                viol('flips-q0', 'a syndrome bit was flipped although q = 0', dict(rep, step=t, flips=bitstr(f)))
            if q_eff == 1 and not f.all():
                viol('flips-q1', 'a syndrome bit was not flipped although q = 1', dict(rep, step=t, flips=bitstr(f)))
            if not edge:
                ue = us[t * per_step: t * per_step + n]
                want = [XZ[k] if k < 4 else None for k in expected_letters(dcdf, ue)]
                if want != letters_of_bsf(np.asarray(e), n):
                    ctx.cmp('ftp:step-error inverse-cdf(python restatement)', dict(rep, step=t), bitstr(e), 'inverse-cdf image')
                if q_eff:
                    uf = us[t * per_step + n: (t + 1) * per_step]
                    wantf = [1 if u >= float_cdf([1 - q_eff, q_eff])[0] else 0 for u in uf]
                    if wantf != f.tolist():
                        ctx.cmp('ftp:flips bernoulli(python restatement)', dict(rep, step=t), bitstr(f), bitstr(wantf))
        if not ok:
            continue
        if it % 4 == 0:   # the same seed reproduces the same errors and flips
            dec2 = ScriptedDecoder([np.zeros(2 * n, dtype=int)])
            if use_run:
                app.run_ftp(code, T, m, dec2, p, q, max_runs=runs, random_seed=seed)
            else:
                app.run_once_ftp(code, T, m, dec2, p, q, np.random.default_rng(seed))
            steps2 = [(a, b) for c in dec2.calls for a, b in zip(c['kwargs']['step_errors'], c['kwargs']['step_measurement_errors'])]
            if len(steps2) != len(steps) or any(not (np.array_equal(a, c) and np.array_equal(b, d_))
                                                 for (a, b), (c, d_) in zip(steps, steps2)):
                viol('not-reproducible', 'the same seed gave different step errors or measurement flips', rep)
        if edge:
            ctx.count(None, False, 'borderline-uniform(not compared exactly)')
            continue
        impl = ';'.join('%s:%s' % (bitstr(e), bitstr(f)) for e, f in steps)
        req.append('run %d %d %d %s %s %s' % (runs * T, n, mstab, ','.join(qtok(v) for v in fd), qtok(F(q_eff)),
                                            ','.join(utok(u) for u in us)))
        pend.append(('run_stream', rep, impl))
        if n <= 9 and T <= 2 and runs == 1 and len(kern) < 150:
            kern.append(('run', (T, n, mstab, fd, F(q_eff)), [F(float(u)) for u in us],
                         [(np.asarray(e).tolist(), np.asarray(f).tolist()) for e, f in steps]))

    # ------------------------------------------------------------------ correspondence
    out = ctx.model('c17', req)
    for (fn, rep, impl), ans in zip(pend, out):
        if fn == 'cdf':
            mc = [F(int(a.split('/')[0], 16), int(a.split('/')[1], 16)) for a in ans.split()] if not ans.startswith('ERR') else []
            if len(mc) != 4 or any(abs(a - b) > F(1, 2 ** 50) for a, b in zip(mc, impl)):
                ctx.cmp('cdf', rep, ' '.join(str(float(v)) for v in impl), ans)
        else:
            ctx.cmp(fn, rep, impl, ans)

    # ------------------------------------------------------------------ (c) statistical support, fixed seeds
    stats = []
    N_CALLS, N_Q = 500, 400
    cfgs = [(DepolarizingErrorModel(), 0.3), (BitFlipErrorModel(), 0.1), (BiasedDepolarizingErrorModel(10.0, 'Z'), 0.4),
            (BiasedYXErrorModel(3.0), 0.2), (CenterSliceErrorModel((1, 2, 0), -0.5), 0.5), (PhaseFlipErrorModel(), 0.9),
            # low rates on many qubits (Pr(I) > 0.9, n > 256): the regime of sparse-sampling shortcuts
            (DepolarizingErrorModel(), 0.099), (BitFlipErrorModel(), 0.099)]
    if not ctx.quick:
        cfgs += [(BitPhaseFlipErrorModel(), 0.5), (BiasedDepolarizingErrorModel(0.5, 'X'), 0.05),
                 (CenterSliceErrorModel((0, 0, 1), 1.0), 0.7), (BiasedYXErrorModel(0.0), 0.35), (DepolarizingErrorModel(), 0.75)]
    for ci, (m, p) in enumerate(cfgs):
        d = [float(v) for v in m.probability_distribution(p)]
        g = np.random.default_rng(1000 * (ctx.seed + 1) + ci)
        code = StubCode(N_Q)
        L = np.empty((N_CALLS, N_Q), dtype=int)
        for r in range(N_CALLS):
            e = np.asarray(m.generate(code, p, g))
            L[r] = e[:N_Q] + 2 * e[N_Q:]
        L = np.array([0, 1, 3, 2])[L]     # x+2z code -> index in IXYZ
        N = L.size
        worst = 0.0
        rep = {'model': repr(m), 'p': p, 'draws': int(N), 'seed': 1000 * (ctx.seed + 1) + ci}
        for k in range(4):
            cnt = int((L == k).sum())
            sd = math.sqrt(N * d[k] * (1 - d[k]))
            z = abs(cnt - N * d[k]) / sd if sd > 0 else (0.0 if cnt == N * d[k] else float('inf'))
            worst = max(worst, z)
            if z > 6:
                viol('frequency', 'single-qubit frequency of %s is %.1f sigma from the distribution' % (LET[k], z),
                     dict(rep, letter=LET[k], count=cnt, expected=N * d[k]))
        # adjacent pairs within a call (independence between qubits) and same qubit in consecutive calls
        for name, A, B in (('adjacent-qubits', L[:, :-1], L[:, 1:]), ('consecutive-calls', L[:-1, :], L[1:, :])):
            M = A.size
            for a in range(4):
                for b in range(4):
                    pr = d[a] * d[b]
                    cnt = int(((A == a) & (B == b)).sum())
                    sd = math.sqrt(M * pr * (1 - pr))
                    z = abs(cnt - M * pr) / sd if sd > 0 else (0.0 if cnt == 0 else float('inf'))
                    worst = max(worst, z)
                    if z > 6:
                        viol('independence', 'pair frequency (%s,%s) over %s is %.1f sigma from the product distribution'
                             % (LET[a], LET[b], name, z), dict(rep, pair=LET[a] + LET[b], count=cnt, expected=M * pr, kind=name))
        # per-position marginals: every qubit position individually (no position is special)
        for k in range(4):
            if 0 < d[k] < 1:
                col = (L == k).sum(axis=0)
                sd = math.sqrt(N_CALLS * d[k] * (1 - d[k]))
                zmax = float(np.max(np.abs(col - N_CALLS * d[k])) / sd)
                if zmax > 6.5:
                    viol('frequency', 'a single qubit position has frequency of %s %.1f sigma off' % (LET[k], zmax), dict(rep, letter=LET[k]))
        stats.append({'model': repr(m), 'p': p, 'draws': int(N), 'worst_sigma': round(worst, 2)})
        ctx.count(('stat', repr(m), p), True, 'statistical', n=1)
    # flips statistics through run_once_ftp
    code = PlanarCode(5, 5)
    mstab = code.stabilizers.shape[0]
    for qi, q in enumerate([0.25, 0.5, 0.03] if ctx.quick else [0.25, 0.5, 0.03, 0.9, 0.6]):
        g = np.random.default_rng(5000 * (ctx.seed + 1) + qi)
        dec = ScriptedDecoder([np.zeros(2 * code.n_k_d[0], dtype=int)])
        Tst = 6
        for r in range(ctx.pick(250, 700)):
            app.run_once_ftp(code, Tst, DepolarizingErrorModel(), dec, 0.1, q, g)
        Fm = np.array([np.asarray(f) for c in dec.calls for f in c['kwargs']['step_measurement_errors']])
        N = Fm.size
        cnt = int(Fm.sum())
        sd = math.sqrt(N * q * (1 - q))
        z = abs(cnt - N * q) / sd
        rep = {'code': repr(code), 'q': q, 'T': Tst, 'bits': int(N), 'seed': 5000 * (ctx.seed + 1) + qi}
        worst = z
        if z > 6:
            viol('flip-frequency', 'syndrome bits flipped with frequency %.5f, %.1f sigma from q' % (cnt / N, z), dict(rep, count=cnt))
        for name, A, B in (('adjacent-bits', Fm[:, :-1], Fm[:, 1:]), ('consecutive-steps', Fm[:-1, :], Fm[1:, :])):
            M = A.size
            c11 = int((A & B).sum())
            sd = math.sqrt(M * q * q * (1 - q * q))
            z = abs(c11 - M * q * q) / sd
            worst = max(worst, z)
            if z > 6:
                viol('flip-independence', 'joint flips over %s are %.1f sigma from q^2' % (name, z), dict(rep, kind=name, count=c11))
        stats.append({'flips': True, 'q': q, 'bits': int(N), 'worst_sigma': round(worst, 2)})
        ctx.count(('stat-flips', q), True, 'statistical', n=1)
    # ------------------------------------------------------------------ (d) histories of calls, fixed seeds
    def f_biased(r):
        return BiasedDepolarizingErrorModel(r.choice([0.5, 10.0, 100.0, 1e-3, 1e3, 10 ** r.uniform(-3, 3)]), r.choice('XYZ'))

    def f_yx(r):
        return BiasedYXErrorModel(r.choice([0.0, 1.0, 10.0, 100.0, 10 ** r.uniform(-2, 2)]))

    def f_slice(r):
        zeros = r.sample(range(3), r.choice([1, 2]))
        lim = tuple(0 if i in zeros else r.choice([1, 2, 0.5, r.random() + 0.01]) for i in range(3))
        return CenterSliceErrorModel(lim, r.choice([1.0, 0.5, 0.0, -0.5, r.uniform(-0.999, 1)]))

    def p_any(r):
        return r.choice([0.1, 0.2, 0.5, 0.05 + 0.9 * r.random()])

    c17x.history_sweeps(ctx, [
        ('biased-depolarizing', f_biased, [BiasedDepolarizingErrorModel(0.5, 'Y'), BiasedDepolarizingErrorModel(100.0, 'Y'),
                                           BiasedDepolarizingErrorModel(10.0, 'X'), BiasedDepolarizingErrorModel(10.0, 'Z')], p_any),
        ('biased-yx', f_yx, [BiasedYXErrorModel(10.0), BiasedYXErrorModel(0.0), BiasedYXErrorModel(1.0)], p_any),
        ('centre-slice', f_slice, [CenterSliceErrorModel((1, 0, 0), 1.0), CenterSliceErrorModel((0, 0, 1), 1.0),
                                   CenterSliceErrorModel((1, 2, 0), -0.5)], p_any),
        ('parameterless', lambda r: r.choice([DepolarizingErrorModel, BitFlipErrorModel, PhaseFlipErrorModel,
                                              BitPhaseFlipErrorModel])(), [], p_any),
    ], StubCode, viol, stats)

    # ------------------------------------------------------------------ (e) joint statistics of fault-tolerant runs
    R = ctx.pick(1500, 4000)
    jcfg = [
        dict(code=ToricCode(3, 3), model=DepolarizingErrorModel(), p=0.15, q=None, T=4, api='run_ftp', runs=R),
        dict(code=PlanarCode(4, 4), model=BitFlipErrorModel(), p=0.3, q=0.1, T=3, api='run_once_ftp', runs=R),
        dict(code=FiveQubitCode(), model=BiasedDepolarizingErrorModel(10.0, 'Z'), p=0.4, q=0.5, T=6, api='run_once_ftp', runs=R),
        dict(code=SteaneCode(), model=CenterSliceErrorModel((1, 2, 0), -0.5), p=0.5, q=0.25, T=5, api='run_ftp', runs=R),
    ]
    jcodes = [FiveQubitCode(), SteaneCode(), PlanarCode(2, 2), PlanarCode(3, 3), ToricCode(2, 2), ToricCode(3, 3),
              RotatedPlanarCode(3, 3), Color666Code(3), ToricCode(3, 4)]
    if not ctx.quick:
        jcfg += [dict(code=PlanarCode(5, 5), model=DepolarizingErrorModel(), p=0.1, q=0.2, T=6, api='run_once_ftp', runs=R),
                 dict(code=Color666Code(5), model=BiasedYXErrorModel(3.0), p=0.2, q=0.03, T=3, api='run_ftp', runs=R)]
        jcodes += [PlanarCode(4, 5), RotatedPlanarCode(5, 4), ToricCode(4, 4)]
    while len(jcfg) < ctx.pick(7, 16):
        m, kind = rand_model()
        p = rng.uniform(0.05, 0.6)
        try:
            fd = valid_dist(m.probability_distribution(p))
        except Exception:  # noqa
            fd = None
        if fd is None:
            continue
        jcfg.append(dict(code=rng.choice(jcodes), model=m, p=p, q=rng.choice([None, rng.uniform(0.05, 0.7), rng.uniform(0.05, 0.7)]),
                         T=rng.randint(2, 6), api=rng.choice(['run_ftp', 'run_once_ftp']), runs=R))
    c17x.joint_statistics(ctx, app, ScriptedDecoder, jcfg, viol, stats)
    ctx.extra['statistical_support'] = stats

    # ------------------------------------------------------------------ (f) reproducibility as a direct clause
    env = c17r._env()
    jobs, parent_out = [], []
    for it in range(ctx.pick(360, 1500)):
        api = rng.choice(['generate', 'generate', 'generate', 'run_once', 'run_once_ftp', 'run_once_ftp'])
        m, kind = rand_model()
        p = rand_p(kind)
        code = rand_code() if api == 'generate' else rng.choice(ftp_codes)
        n = code.n_k_d[0]
        T = rng.randint(1, 5) if api == 'run_once_ftp' else 1
        q = rng.choice([None, 0.0, 1.0, rng.random(), rng.random()]) if api == 'run_once_ftp' else None
        job = {'api': api, 'model': repr(m), 'code': repr(code), 'p_hex': float(p).hex(), 'q_hex': None if q is None else float(q).hex(),
               'T': T, 'bitgen': rng.choice(c17r.BITGENS), 'seed': rng.randrange(2 ** 32),
               'burn': rng.choice([0, 0, 1, 5, rng.randint(0, 100)]), 'calls': rng.choice([1, 2, 2, 3])}
        try:   # the distribution of the model as the job describes it (repr round trip)
            fd = valid_dist(eval(job['model'], dict(env)).probability_distribution(p))
        except Exception:  # noqa  (C16's business)
            fd = None
        if fd is None:
            ctx.count(None, False, 'skipped:invalid-distribution(C16 finding)')
            continue
        q_eff = 0.0 if api != 'run_once_ftp' else ((0.0 if T == 1 else p) if q is None else q)
        job['deterministic'] = any(v == 1 for v in fd) and q_eff in (0.0, 1.0)
        nz = sum(1 for v in fd[1:] if v > 0)
        ctx.count(('repro',) + tuple(sorted((k, str(v)) for k, v in job.items())), nz >= 2 and n >= 9 and 0 < p, 'repro:' + api)
        jobs.append(job)
        parent_out.append(c17r.check_job(job, env, viol))
    c17r.cross_process(ctx, jobs, parent_out, viol)

    # ------------------------------------------------------------------ in-kernel shard
    items = []
    for k in kern:
        if k[0] == 'gen':
            _, fd, us, bits = k
            items.append('(beqv (generate %s %s) %s)' % (coq_list([coq_q(v) for v in fd]), coq_list([coq_q(u) for u in us]),
                                                      coq_list(['true' if b else 'false' for b in bits])))
        else:
            _, (T, n, ms, fd, q), us, steps = k
            want = coq_list(['(%s, %s)' % (coq_list(['true' if b else 'false' for b in e]),
                                            coq_list(['true' if b else 'false' for b in f])) for e, f in steps])
            items.append('(steps_eqb (run_stream %d %d %d %s %s %s) %s)'
                         % (T, n, ms, coq_list([coq_q(v) for v in fd]), coq_q(q), coq_list([coq_q(u) for u in us]), want))
    text = ('From Coq Require Import QArith List Bool.\nFrom QV Require Import Core.Bits Core.Pauli ErrorModels.Generate.\n'
            'Import ListNotations.\nOpen Scope Q_scope.\n'
            'Fixpoint steps_eqb (a b : list (bsf * bsf)) : bool :=\n  match a, b with [], [] => true\n'
            '  | (e, f) :: a\', (e\', f\') :: b\' => beqv e e\' && beqv f f\' && steps_eqb a\' b\' | _, _ => false end.\n'
            'Definition checks : list bool :=\n [' + ';\n  '.join(items) + '].\n'
            'Example corr : forallb (fun b => b) checks = true.\nProof. vm_compute. reflexivity. Qed.\n')
    ctx.kernel_cases('sample', text)
    ctx.extra['kernel_cases'] = len(items)
    ctx.extra['engine_requests'] = len(req)


def replay(path):
    d = json.load(open(path))
    print(json.dumps(d, indent=1))
    r = d.get('replay', {})
    try:
        from qecsim.models.generic import (DepolarizingErrorModel, BitFlipErrorModel, PhaseFlipErrorModel,  # noqa
                                           BitPhaseFlipErrorModel, BiasedDepolarizingErrorModel, BiasedYXErrorModel,
                                           CenterSliceErrorModel)
        if r.get('kind') == 'repro':
            c17r.replay_job(r)
        elif r.get('kind') == 'joint':
            from qecsim import app
            from qecsim.models.basic import FiveQubitCode, SteaneCode  # noqa
            from qecsim.models.planar import PlanarCode  # noqa
            from qecsim.models.toric import ToricCode  # noqa
            from qecsim.models.rotatedplanar import RotatedPlanarCode  # noqa
            from qecsim.models.color import Color666Code  # noqa
            from harness.proxies import ScriptedDecoder
            logging.getLogger('qecsim').setLevel(logging.CRITICAL)
            cfg = dict(r, code=eval(r['code']), model=eval(r['model'], dict(globals(), np=np, **locals())))
            got = c17x.collect_runs(app, ScriptedDecoder, cfg)
            if isinstance(got, str):
                print('now:', got)
            else:
                found = []
                c17x.joint_tests({k: r[k] for k in ('code', 'model', 'p', 'q', 'T', 'api', 'runs', 'seed')}, *got,
                                 lambda key, what, rep: found.append((key, what)))
                print('now: %d dependence reports' % len(found))
                for key, what in found[:6]:
                    print(' ', key, '-', what)
        elif 'n' in r and 'seed' in r and 'model' in r:
            m = eval(r['model'])
            p = float.fromhex(r['p_hex'])
            e = m.generate(StubCode(r['n']), p, np.random.default_rng(r['seed']))
            print('now:', bitstr(e))
            print('uniforms:', np.random.default_rng(r['seed']).random(r['n'])[:8], '...')
            print('distribution:', m.probability_distribution(p))
    except Exception as e:  # noqa
        print('replay: %s: %s' % (type(e).__name__, e))
    return 0
