"""C18 — the file error model replays the recorded errors faithfully.

Differential: generated error files (written under one temporary directory) are opened with the real
FileErrorModel and driven by call sequences; the canonical trace (constructor outcome, public instance
attributes, every returned array / tuple / label / attribute / exception class, by call index) is compared
with the trace of the extracted Coq state machine (ErrorModels/FileModel.v) on the same classified file.
The property text is also evaluated directly: the harness knows what it recorded, so served error i must be
recorded[start+i], EOFError must come exactly when the recorded errors run out, header values must be
exposed, wrong probability / qubit count must be refused, malformed files must be rejected.

Histories include the caller: the arrays returned by generate() belong to the consumer, who may keep them and
look at them later, or change them in place (error ^= recovery).  Single-model histories and sessions (several
models open in one process on the same file or on files sharing records, calls interleaved) are driven by such
callers; served error i must equal recorded error start+i at call time in every such history, and an array the
caller kept must still hold the recorded error / what the caller wrote at the end (model:
ErrorModels/FileSession.v - models do not interfere, served arrays are fresh heap cells).

Records are also varied below the level pack() writes them (harness/c18_extra.py): the hex payload and the stated
length of a body record are chosen independently around the byte boundary; a served array must be exactly the first
2n bits of a payload that really holds that many bits and whose stated length is 2n, every other record is refused
(model: ErrorModels/FileRecords.v record_decision, served_from_payload, short_payload_refused)."""
import hashlib
import itertools
import json
import math
import os
import re
import shutil
import tempfile
from fractions import Fraction

import numpy as np

from harness.common import bitstr, exc_class, coq_list, COQ
from harness import c18_extra

# own copy of the documented comment/blank pattern (the classification oracle is Python's re + json,
# deliberately not qecsim's private compiled objects)
RE_SKIP = re.compile(r"^\s*(//.*)?$")
INF = float('inf')


# ---------------------------------------------------------------------------------------------------
# canonical forms (shared by the implementation trace and the model protocol)
def hx(n):
    return ('-' if n < 0 else '+') + '%x' % abs(n)


def canon_num(x):
    x = float(x)
    if x != x:
        return 'dnan'
    if x == INF:
        return 'dinf'
    if x == -INF:
        return 'd-inf'
    f = Fraction(x)
    return 'd%s/%x' % (hx(f.numerator), f.denominator)


def codes(s):
    return '.'.join('%x' % ord(c) for c in s)


def canon(v):
    """JSON value -> canonical token; exact Python types only (type gate)."""
    if v is None:
        return 'n'
    if v is True:
        return 't'
    if v is False:
        return 'f'
    if type(v) is int:
        return 'i' + hx(v)
    if type(v) is float:
        return canon_num(v)
    if type(v) is str:
        return 's' + codes(v)
    if type(v) is list:
        return '[' + ','.join(canon(x) for x in v) + ']'
    if type(v) is dict:
        if not all(type(k) is str for k in v):
            return '?dictkey'
        return '{' + ','.join('s' + codes(k) + ':' + canon(x) for k, x in v.items()) + '}'
    return '?' + type(v).__name__


def canon_p(p):
    """probability argument of a call: any real number is compared exactly; anything else is 'other'."""
    if isinstance(p, bool):
        return canon_num(int(p))
    if isinstance(p, int):
        return 'd%s/1' % hx(p)
    if isinstance(p, float):
        return canon_num(p)
    return 'o'


# Coq terms for the in-kernel shard
def coq_str(s):
    return '[' + '; '.join('0x%x%%N' % ord(c) for c in s) + ']'


def coq_z(n):
    return '(%s0x%x)%%Z' % ('-' if n < 0 else '', abs(n))


def coq_num(x):
    x = float(x) if not isinstance(x, int) else x
    if isinstance(x, float):
        if x != x:
            return 'NNaN'
        if x == INF:
            return 'NPInf'
        if x == -INF:
            return 'NNInf'
    f = Fraction(x)
    return '(NFin %s 0x%x%%positive)' % (coq_z(f.numerator), f.denominator)


def coq_val(v):
    if v is None:
        return 'JNull'
    if v is True:
        return '(JBool true)'
    if v is False:
        return '(JBool false)'
    if type(v) is int:
        return '(JInt %s)' % coq_z(v)
    if type(v) is float:
        return '(JFloat %s)' % coq_num(v)
    if type(v) is str:
        return '(JStr %s)' % coq_str(v)
    if type(v) is list:
        return '(JList %s)' % coq_list([coq_val(x) for x in v])
    if type(v) is dict:
        return '(JDict %s)' % coq_dict(v)
    raise ValueError('no Coq form')


def coq_dict(d):
    return coq_list(['(%s, %s)' % (coq_str(k), coq_val(x)) for k, x in d.items()])


def coq_p(p):
    c = canon_p(p)
    if c == 'o':
        return 'POther'
    return '(PNum %s)' % coq_num(int(p) if isinstance(p, (bool, int)) else p)


def coq_bits(bits):
    v = 0
    for b in bits:
        v = (v << 1) | (1 if b else 0)
    return '(bits_of_N %d 0x%x%%N)' % (len(bits), v)


COQ_EXN = {'EOFError': 'EOFError', 'ValueError': 'ValueError', 'TypeError': 'TypeError',
           'Other:JSONDecodeError': 'JSONDecodeError', 'Other:FileNotFoundError': 'FileNotFoundError',
           'Other:AttributeError': 'AttributeError'}


# ---------------------------------------------------------------------------------------------------
# classification oracle: the file as the implementation's reader sees it, line by line
def classify(path):
    """-> list of ('K',) | ('B',) | ('H', dict) | ('V', value); None when the file cannot be opened."""
    try:
        fh = open(path)
    except OSError:
        return None
    out = []
    with fh:
        for line in fh:
            if RE_SKIP.match(line):
                out.append(('K',))
                continue
            try:
                obj = json.loads(line)
            except ValueError:
                out.append(('B',))
                continue
            out.append(('H', obj) if isinstance(obj, dict) else ('V', obj))
    return out


def file_token(lines):
    if lines is None:
        return '!'
    if not lines:
        return '-'
    toks = []
    for l in lines:
        if l[0] in 'KB':
            toks.append(l[0])
        else:
            toks.append(l[0] + canon(l[1]))
    return ';'.join(toks)


def file_coq(lines):
    if lines is None:
        return 'None'
    items = []
    for l in lines:
        if l[0] == 'K':
            items.append('Skip')
        elif l[0] == 'B':
            items.append('BadJson')
        elif l[0] == 'H':
            items.append('Hdr %s' % coq_dict(l[1]))
        else:
            items.append('Body %s' % coq_val(l[1]))
    return '(Some %s)' % coq_list(items)


def start_token(start):
    if isinstance(start, (bool, int)):
        return 'i' + hx(int(start))
    return 'x'


def calls_token(calls):
    if not calls:
        return '-'
    toks = []
    for c in calls:
        if c[0] == 'G':
            toks.append('G%d:%s' % (c[1], canon_p(c[2])))
        elif c[0] == 'D':
            toks.append('D' + canon_p(c[1]))
        elif c[0] == 'L':
            toks.append('L')
        else:
            toks.append('A' + codes(c[1]))
    return ';'.join(toks)


def call_coq(c):
    if c[0] == 'G':
        return 'CGen %d %s' % (c[1], coq_p(c[2]))
    if c[0] == 'D':
        return 'CDist %s' % coq_p(c[1])
    if c[0] == 'L':
        return 'CLabel'
    return 'CAttr %s' % coq_str(c[1])


def calls_coq(calls):
    return coq_list([call_coq(c) for c in calls])


# ---------------------------------------------------------------------------------------------------
# running the implementation
class StubCode:
    """generate() only reads code.n_k_d[0]"""

    def __init__(self, n):
        self.n_k_d = (n, 1, 1)


def header_of(lines):
    """what the model sees as header (for the symbolic label token): consecutive dict lines"""
    h = {}
    for l in lines or []:
        if l[0] == 'K':
            continue
        if l[0] != 'H':
            break
        h.update(l[1])
    return h


def strip_tb(e):
    """keep the exception object (its class is looked at) but not its frames: a traceback keeps the model instance and
    with it the open file handle alive for as long as the outcome is stored"""
    seen = 0
    x = e
    while x is not None and seen < 20:
        x.__traceback__ = None
        if isinstance(x, AttributeError) and getattr(x, 'obj', None) is not None:
            x.obj = None              # AttributeError.obj is the model instance itself
        x = x.__cause__ or x.__context__
        seen += 1
    return e


def well_formed_array(r):
    return isinstance(r, np.ndarray) and r.ndim == 1 and r.dtype.kind in 'iu' and set(np.unique(r)) <= {0, 1}


def impl_open(FileErrorModel, path, start):
    """-> (head, em): head = ('OK', [public instance attrs]) | ('ERR', class, exception)"""
    try:
        em = FileErrorModel(path, start)
    except Exception as e:  # noqa
        return ('ERR', exc_class(e), strip_tb(e)), None
    return ('OK', [k for k in vars(em) if not k.startswith('_')]), em


def impl_call(em, c, code_for, recorded_label, caller=None, tag=None):
    """one call on an open model -> ('B', bits) | ('T', values) | ('L', value) | ('A', value) | ('E', class, exc) | ('?', text).
    A served array is snapshotted (the 'B' outcome is what was served *at call time*) and then handed to the
    caller object, which may keep the reference and/or change the array in place like any consumer of generate()."""
    try:
        if c[0] == 'G':
            r = em.generate(code_for(c[1]), c[2])
            if well_formed_array(r):
                out = ('B', [int(x) for x in r])
                if caller is not None:
                    caller.served(tag, r, out[1])
                return out
            return ('?', 'generate returned %r' % (r,))
        if c[0] == 'D':
            r = em.probability_distribution(c[1])
            return ('T', list(r)) if type(r) is tuple else ('?', 'distribution is %s' % type(r).__name__)
        if c[0] == 'L':
            r = em.label
            if type(r) is not str:
                return ('?', 'label is %s' % type(r).__name__)
            if type(recorded_label) is str:
                return ('L', r)
            if r == str(recorded_label):      # Python's str() as oracle for non-string labels
                return ('L', recorded_label)
            return ('?', 'label %r' % r)
        return ('A', getattr(em, c[1]))
    except Exception as e:  # noqa
        return ('E', exc_class(e), strip_tb(e))


def run_impl(FileErrorModel, path, start, calls, lines, code_for, caller=None):
    """-> (head, outs, em): head = ('OK', [public instance attrs]) | ('ERR', class);
    outs = list of ('B', bits) | ('T', values) | ('L', value) | ('A', value) | ('E', class) | ('?', text)"""
    head, em = impl_open(FileErrorModel, path, start)
    if em is None:
        return head, [], None
    recorded_label = header_of(lines).get('label', None)
    outs = [impl_call(em, c, code_for, recorded_label, caller, (0, i)) for i, c in enumerate(calls)]
    return head, outs, em


# ---------------------------------------------------------------------------------------------------
# the caller of generate(): what a consumer may do with the arrays it was handed
SCRIBBLES = ['xor-ones', 'zero', 'ones', 'flip-one', 'xor-mask', 'xor-self-then-mask', 'reverse']
POLICIES = ['drop', 'collect', 'scribble', 'scribble-keep', 'xor-then-compare']


def scribble_expected(op, arg, bits):
    """the value an array holding `bits` has after the in-place operation (independent list arithmetic)"""
    if op == 'xor-ones':
        return [1 - b for b in bits]
    if op == 'zero':
        return [0] * len(bits)
    if op == 'ones':
        return [1] * len(bits)
    if op == 'flip-one':
        return [b ^ 1 if i == arg % max(1, len(bits)) else b for i, b in enumerate(bits)]
    if op == 'xor-mask':
        return [b ^ arg[i % len(arg)] for i, b in enumerate(bits)]
    if op == 'xor-self-then-mask':
        return [arg[i % len(arg)] for i in range(len(bits))]
    if op == 'reverse':
        return list(reversed(bits))
    raise ValueError(op)


def scribble_apply(op, arg, r):
    """the same operation done in place on the served numpy array (no rebinding: the caller's view of the object)"""
    n = len(r)
    if op == 'xor-ones':
        r ^= 1
    elif op == 'zero':
        r[:] = 0
    elif op == 'ones':
        r.fill(1)
    elif op == 'flip-one':
        if n:
            r[arg % n] ^= 1
    elif op == 'xor-mask':
        r ^= np.array([arg[i % len(arg)] for i in range(n)], dtype=r.dtype)
    elif op == 'xor-self-then-mask':
        r ^= r
        r ^= np.array([arg[i % len(arg)] for i in range(n)], dtype=r.dtype)
    elif op == 'reverse':
        r[:] = r[::-1].copy()
    else:
        raise ValueError(op)


class Caller:
    """A consumer of generate() with a fixed behaviour (policy):
    drop              - looks at the array (the snapshot) and forgets it;
    collect           - keeps every served array and only uses them at the end (results collected before use);
    scribble          - after looking, changes the array in place (error ^= recovery, fill, flip, ...) and forgets it;
    scribble-keep     - same, and keeps the array: at the end it must hold what the caller wrote;
    xor-then-compare  - XORs a mask into the array first and keeps it; only at the end compares with recorded ^ mask.
    The scribble operations are drawn beforehand (a list of (op, arg) per served array, cycled), so that a replay
    repeats them exactly."""

    def __init__(self, policy, script):
        self.policy = policy
        self.script = script          # list of (op, arg)
        self.k = 0
        self.kept = []                # (tag, array, op, arg, snapshot bits)
        self.readonly = 0

    def served(self, tag, r, bits):
        if self.policy == 'drop':
            return
        op, arg = (None, None)
        if self.policy != 'collect':
            op, arg = self.script[self.k % len(self.script)]
            if self.policy == 'xor-then-compare' and op not in ('xor-mask', 'xor-ones', 'flip-one', 'reverse'):
                op, arg = 'xor-ones', None        # only operations whose result still depends on what was served
            self.k += 1
            try:
                scribble_apply(op, arg, r)
            except ValueError:        # a read-only array cannot be corrupted by its consumer: nothing to check
                self.readonly += 1
                return
        if self.policy != 'scribble':
            self.kept.append((tag, r, op, arg, bits))

    def final(self):
        """-> list of (tag, op, arg, bits served at call time, bits held now)"""
        out = []
        for tag, r, op, arg, bits in self.kept:
            now = [int(x) for x in r] if well_formed_array(r) or (isinstance(r, np.ndarray) and r.ndim == 1) else None
            out.append((tag, op, arg, bits, now))
        return out


def make_script(rng, n=12):
    out = []
    for _ in range(n):
        op = rng.choice(SCRIBBLES)
        if op == 'flip-one':
            arg = rng.randrange(64)
        elif op in ('xor-mask', 'xor-self-then-mask'):
            arg = [rng.randint(0, 1) for _ in range(rng.randint(1, 7))]
            if not any(arg):
                arg[0] = 1
        else:
            arg = None
        out.append((op, arg))
    return out


def trace_str(head, outs):
    if head[0] == 'OK':
        toks = ['OK:' + (','.join(codes(k) for k in head[1]) if head[1] else '-')]
    else:
        toks = ['ERR:' + head[1]]
    for o in outs:
        if o[0] == 'B':
            toks.append('B' + bitstr(o[1]))
        elif o[0] == 'T':
            toks.append('T' + canon(o[1]))
        elif o[0] == 'L':
            toks.append('L' + canon(o[1]))
        elif o[0] == 'A':
            toks.append('A' + canon(o[1]))
        elif o[0] == 'E':
            toks.append('E' + o[1])
        else:
            toks.append('?' + o[1].replace(' ', '_'))
    return ' '.join(toks)


def trace_coq(head, outs):
    if head[0] == 'OK':
        h = 'Ok %s' % coq_list([coq_str(k) for k in head[1]])
    else:
        h = 'Err %s' % COQ_EXN[head[1]]
    return '(%s, %s)' % (h, outs_coq(outs))


def outs_coq(outs):
    items = []
    for o in outs:
        if o[0] == 'B':
            items.append('OBits %s' % coq_bits(o[1]))
        elif o[0] == 'T':
            items.append('OTuple %s' % coq_list([coq_val(x) for x in o[1]]))
        elif o[0] == 'L':
            items.append('OLabel %s' % coq_val(o[1]))
        elif o[0] == 'A':
            items.append('OAttr %s' % coq_val(o[1]))
        elif o[0] == 'E':
            items.append('OErr %s' % COQ_EXN[o[1]])
        else:
            raise ValueError('no Coq form')
    return coq_list(items)


# ---------------------------------------------------------------------------------------------------
# generator
def pack_bits(bits):
    """independent packer: big-endian bits, zero padded to whole bytes, lower-case hex"""
    nbytes = (len(bits) + 7) // 8
    if nbytes == 0:
        return ''
    v = 0
    for b in bits:
        v = (v << 1) | b
    v <<= nbytes * 8 - len(bits)
    return '%0*x' % (2 * nbytes, v)


COMMENTS = ['', ' ', '\t', '   ', '//', '// a comment', '   // indented comment', '\t//\ttabbed', '//{"probability": 0.9}',
            '// ["ff", 8]', ' \t \t', '//', '// {"label": "no"}', '\x0c', '// café ✓']
VALID_NAMES = ['bias', 'a_b1', 'x', 'A', 'Z9', 'bias2', 'xY_', 'a__', 'eta', 'codeSize', 'q0']
INVALID_NAMES = ['_x', '1a', 'a-b', 'a b', '', '__init__', '9', 'a.b', ' a', 'a\t', '\na', 'a\n\n', 'a\nb', '-']
PROBS = [0.1, 0.4, 0.25, 1e-3, 0.0, 1, 0, 1.0, 0.5, 0.3, 5e-324, 0.9999999999999999, 2, -0.5, 1e300]
LABELS = ['L', 'Biased (bias=10)', '', 'café ✓', 'a "quoted" \\ label', ' spaced ', 'Depolarizing', '\U0001f600']


def rand_json(rng, depth=0):
    r = rng.random()
    if depth >= 2 or r < 0.6:
        return rng.choice([None, True, False, 0, 1, -7, 10, 2 ** 70, 0.5, -1.25, 1e-9, 10.0, 'txt', '', 'café',
                           float('inf'), 1e22])
    if r < 0.8:
        return [rand_json(rng, depth + 1) for _ in range(rng.randint(0, 3))]
    return {k: rand_json(rng, depth + 1) for k in rng.sample(['a', 'b', 'label', 'k k', 'é'], rng.randint(0, 3))}


def dumps(rng, obj):
    seps = rng.choice([None, (',', ':'), (' , ', ' : ')])
    return json.dumps(obj, separators=seps, ensure_ascii=rng.random() < 0.5)


class LayoutCycler:
    """every permutation x every grouping into consecutive lines for k <= 4 keys, cycled in shuffled order"""

    def __init__(self, rng):
        self.rng = rng
        self.pools = {}
        self.seen = {}

    def next(self, k):
        if k <= 1:
            return list(range(k)), []
        if k > 4:
            perm = list(range(k))
            self.rng.shuffle(perm)
            return perm, [i for i in range(1, k) if self.rng.random() < 0.5]
        if not self.pools.get(k):
            allv = [(list(p), [i + 1 for i in range(k - 1) if (mask >> i) & 1])
                    for p in itertools.permutations(range(k)) for mask in range(2 ** (k - 1))]
            self.rng.shuffle(allv)
            self.pools[k] = allv
        perm, cuts = self.pools[k].pop()
        self.seen.setdefault(k, set()).add((tuple(perm), tuple(cuts)))
        return perm, cuts


def layout_lines(rng, items, perm, cuts):
    """header (key, value) items -> list of JSON dict texts according to a permutation and cut points"""
    order = [items[i] for i in perm]
    groups, cur = [], []
    for i, kv in enumerate(order):
        if i in cuts and cur:
            groups.append(cur)
            cur = []
        cur.append(kv)
    if cur:
        groups.append(cur)
    return [dumps(rng, dict(g)) for g in groups]


def body_text(rng, bits, style=None):
    h = pack_bits(bits)
    style = rng.randrange(8) if style is None else style
    if style == 0:
        h = h.upper()
    elif style == 1 and len(h) >= 4:
        h = ' '.join(h[i:i + 2] for i in range(0, len(h), 2))
    elif style == 2 and h:
        h = ''.join(c.upper() if rng.random() < 0.5 else c for c in h)
    txt = json.dumps([h, len(bits)], separators=rng.choice([None, (',', ':'), (' ,  ', ':')]))
    if style == 3:
        txt = '  ' + txt + ' \t'
    return txt


def interleave(rng, texts, density):
    """insert comment/blank lines at random positions; returns (lines, number of inserted lines)"""
    out, k = [], 0
    for t in texts + [None]:
        while rng.random() < density:
            out.append(rng.choice(COMMENTS))
            k += 1
        if t is not None:
            out.append(t)
    return out, k


def assemble(rng, hdr_lines, body_lines):
    eol = '\r\n' if rng.random() < 0.12 else '\n'
    lines = hdr_lines + body_lines
    text = eol.join(lines)
    if lines and rng.random() < 0.85:
        text += eol
    return text


def fnum(v):
    """float(header probability) as Python computes it (None if float() would raise)"""
    try:
        return float(v)
    except (TypeError, ValueError, OverflowError):
        return None


def right_ps(p0f):
    out = [p0f, p0f, p0f, np.float64(p0f)]
    if math.isfinite(p0f) and p0f == int(p0f) and abs(p0f) < 2 ** 53:
        out.append(int(p0f))
        if p0f in (0.0, 1.0):
            out.append(bool(p0f))
    return out


def wrong_ps(p0f):
    cands = [p0f + 0.125, math.nextafter(p0f, 2.0), math.nextafter(p0f, -2.0), float('nan'), None, 'x', str(p0f), -p0f - 1,
             1 - p0f, 7, p0f * 0.5 + 3]
    return [c for c in cands if not (isinstance(c, (int, float)) and c == p0f)]


def random_errors(rng, n0, m):
    errors = []
    for _ in range(m):
        k = rng.randrange(4)
        if k == 0:
            e = [0] * (2 * n0)
        elif k == 1:
            e = [0] * (2 * n0)
            e[rng.randrange(2 * n0)] = 1
        else:
            e = [rng.randint(0, 1) for _ in range(2 * n0)]
        errors.append(e)
    return errors


# ---------------------------------------------------------------------------------------------------
# long runs of comment / blank lines.  "Any interleaving of comment and blank lines" includes runs far longer than a
# writer's occasional remark: a licence / provenance preamble, a separator block between batches, a tail of blank lines.
# A run is described by where it sits (before the header, between header lines, between header and body, between two body
# records, after the last record), how long it is, what it is made of, and where its first line falls relative to
# multiples of a block of lines (readers that take the file in blocks of lines or of bytes are the natural victims).
RUN_LENGTHS = [1, 2, 7, 8, 9, 15, 16, 17, 31, 32, 33, 63, 64, 65, 95, 96, 97, 127, 128, 129, 191, 192, 193, 200]
RUN_PLACES = ['pre', 'hdr', 'hdr-body', 'body', 'end']
RUN_BLOCKS = [8, 16, 32, 64, 128]
RUN_STYLES = ['blank', 'comment', 'numbered', 'mixed', 'alternate', 'spaces']
WIDE = [100, 1000, 4090, 4096, 8185, 8192, 8200, 20000, 70000]


def run_block_of(rng, length):
    """the block size a run length sits next to (a power of two within one line of it), else any of RUN_BLOCKS"""
    near = [b for b in RUN_BLOCKS if abs(length - b) <= 1]
    return near[0] if near else rng.choice(RUN_BLOCKS)


def run_lines(rng, k, style, wide=0):
    if style == 'blank':
        out = [''] * k
    elif style == 'comment':
        out = ['//'] * k
    elif style == 'numbered':
        out = ['// ---- separator %d ----' % i for i in range(k)]
    elif style == 'alternate':
        out = ['' if i % 5 == 4 else '// line %d' % i for i in range(k)]
    elif style == 'spaces':
        out = [rng.choice([' ', '\t', '   ', ' \t \t', '\x0c']) for _ in range(k)]
    else:
        out = [rng.choice(COMMENTS) for _ in range(k)]
    if wide and k:
        out[rng.randrange(k)] = '// ' + 'w' * wide
    return out


def split_gaps(lines):
    """lines -> (gaps, reals): gaps[g] = the comment/blank lines before real line g (gaps[len(reals)]: after the last)"""
    gaps, reals, cur = [], [], []
    for l in lines:
        if RE_SKIP.match(l + '\n'):
            cur.append(l)
        else:
            gaps.append(cur)
            reals.append(l)
            cur = []
    gaps.append(cur)
    return gaps, reals


def join_gaps(gaps, reals, lo, hi):
    """lines of gaps[lo] real[lo] ... real[hi-1] (the gap hi itself is not included)"""
    out = []
    for g in range(lo, hi):
        out += gaps[g]
        out.append(reals[g])
    return out


def inject_gaps(rng, gaps, n_hdr, runs):
    """put the runs into the gaps; the first run that asks for it is then moved (by extra comment lines in earlier gaps)
    so that its first line has index = a mod B.  Returns the description of what was done."""
    nreal = len(gaps) - 1
    info = []
    for r in runs:
        place = r['place']
        if place == 'hdr' and n_hdr < 2:
            place = 'hdr-body'
        if place == 'body' and nreal - n_hdr < 2:
            place = 'end'
        g = {'pre': 0, 'hdr': rng.randint(1, max(1, n_hdr - 1)), 'hdr-body': n_hdr,
             'body': rng.randint(n_hdr + 1, max(n_hdr + 1, nreal - 1)), 'end': nreal,
             'any': rng.randint(0, nreal)}[place]
        g = min(g, nreal)
        new = run_lines(rng, r['length'], r['style'], r.get('wide', 0))
        at = rng.choice([0, len(gaps[g])]) if gaps[g] else 0
        gaps[g][at:at] = new
        info.append({'place': place, 'gap': g, 'records_before': max(0, g - n_hdr), 'asked_length': r['length'],
                     'style': r['style'], 'wide': r.get('wide', 0), 'align': r.get('align')})
    used = set(i['gap'] for i in info)
    for i in info:
        if i['align'] and i['gap'] > 0:
            B, a = i['align']
            first = i['gap'] + sum(len(x) for x in gaps[:i['gap']])
            pad = (a - first) % B
            free = [g for g in range(i['gap']) if g not in used] or list(range(i['gap']))
            while pad:
                k = pad if rng.random() < 0.5 else rng.randint(1, pad)
                gaps[rng.choice(free)][0:0] = run_lines(rng, k, rng.choice(RUN_STYLES))
                pad -= k
            break
    pos = 0
    starts = []
    for g, x in enumerate(gaps):
        starts.append(pos)
        pos += len(x) + 1
    for i in info:
        i['first_line'] = starts[i['gap']]
        i['length'] = len(gaps[i['gap']])
    return info


def inject_runs(rng, hl, bl, runs):
    gh, rh = split_gaps(hl)
    gb, rb = split_gaps(bl)
    gaps = gh[:-1] + [gh[-1] + gb[0]] + gb[1:]
    reals = rh + rb
    info = inject_gaps(rng, gaps, len(rh), runs)
    nh, nr = len(rh), len(reals)
    hl2 = join_gaps(gaps, reals, 0, nh) + gaps[nh]         # the gap between header and body goes with the header
    bl2 = []
    if nr > nh:
        bl2 = [reals[nh]] + join_gaps(gaps, reals, nh + 1, nr) + gaps[nr]
    return hl2, bl2, info


def inject_runs_text(rng, text, runs):
    """the same for a file that exists only as text (malformed stream): runs at any gap between its non-comment lines"""
    eol = '\r\n' if '\r\n' in text else '\n'
    trail = text.endswith(eol)
    lines = (text[:-len(eol)] if trail else text).split(eol)
    gaps, reals = split_gaps(lines)
    info = inject_gaps(rng, gaps, 0, runs)
    out = join_gaps(gaps, reals, 0, len(reals)) + gaps[len(reals)]
    return eol.join(out) + (eol if trail else ''), info


def run_specs(rng, length, place, aligned, wide=0):
    """the main run (length, place, aligned or not to its block) and sometimes one or two more anywhere"""
    B = run_block_of(rng, length)
    a = 0 if aligned else rng.choice([1, B - 1, B // 2, rng.randrange(1, B)])
    specs = [{'place': place, 'length': length, 'style': rng.choice(RUN_STYLES), 'align': [B, a], 'wide': wide}]
    r = rng.random()
    for _ in range(1 if r < 0.3 else (2 if r < 0.4 else 0)):
        specs.append({'place': rng.choice(RUN_PLACES), 'length': rng.choice(RUN_LENGTHS) if rng.random() < 0.5 else rng.randint(1, 200),
                      'style': rng.choice(RUN_STYLES), 'align': None})
    return specs


def make_longrun(rng, cyc, length, place, aligned, wide=0):
    """a well-formed file with long comment/blank runs, and two histories on it: one that starts before the main run
    (generate calls cross it) and one that starts at / after it (the constructor's skipping crosses it)"""
    n0 = rng.randint(1, 8)
    r = rng.random()
    m = rng.randint(2, 10) if r < 0.8 else (1 if r < 0.85 else rng.randint(30, 70))
    text, rec = make_file(rng, cyc, n0=n0, errors=random_errors(rng, n0, m), runs=run_specs(rng, length, place, aligned, wide))
    j = min(rec['runs'][0]['records_before'], m)
    p0f = fnum(rec['items'][0][1])
    scns = []
    for s in (rng.choice([0, max(0, j - 1), max(0, j - 1)]), rng.choice([j, min(j + 1, m), m, m + 1, rng.randint(j, m + 1)])):
        if rng.random() < 0.5:
            calls = [('G', n0, rng.choice(right_ps(p0f))) for _ in range(max(0, m - s) + 2)] + [('L',)]
        else:
            s, calls = make_calls(rng, rec, start=s)
        scns.append({'text': text, 'start': s, 'calls': calls})
    return scns, rec


def make_file(rng, cyc, big=False, n0=None, errors=None, plain_body=False, pv=None, dists=None, runs=None):
    """a well-formed file with a random layout; returns (text, record of what was written).
    runs given: long runs of comment / blank lines are put into the layout (inject_runs).
    n0/errors given: the recorded errors are the caller's (sessions: files sharing records);
    pv/dists given: the header probability / the pool of distributions are the caller's (path sessions: successive
    files under one name that agree or differ in exactly these)."""
    if errors is None:
        n0 = rng.randint(1, 40) if not big else rng.choice([41, 64, 100, 333, 1000])
        m = rng.randint(1, 40) if rng.random() < 0.97 else rng.randint(41, 120)
        if rng.random() < 0.25:
            m = rng.randint(1, 4)
        errors = random_errors(rng, n0, m)
    else:
        m = len(errors)
    if pv is None:
        pv = rng.choice(PROBS)
        if rng.random() < 0.08:
            pv = rng.choice([True, False, float('inf'), 1e400])
    lv = rng.choice(LABELS) if rng.random() < 0.9 else rng.choice([5, None, True, 1.5, [1, 'a', None], {'b': 2}])
    items = [('probability', pv), ('label', lv)]
    dv = '<absent>'
    r = rng.random()
    if r < 0.55:
        dv = [1 - fnum(pv) if abs(fnum(pv)) < 2 else 0.5, 0.25, 0.5, 0.25] if dists is None else list(rng.choice(dists))
    elif r < 0.75:
        dv = rng.choice([None, [], {}, 0, '', False, 0.0, 'abc', {'a': 1, 'b': 2}, 1, 2.5, True, [[1], 2, 'x'], float('nan')])
    if dv != '<absent>':
        items.append(('probability_distribution', dv))
    nx = rng.choice([0, 0, 1, 1, 2, 2, 3, 5])
    for name in rng.sample(VALID_NAMES, nx):
        items.append((name, rand_json(rng)))
    perm, cuts = cyc.next(len(items))
    hdr_texts = layout_lines(rng, items, perm, cuts)
    if rng.random() < 0.05:
        hdr_texts.insert(rng.randrange(len(hdr_texts) + 1), '{}')
    if rng.random() < 0.04 and nx:   # duplicate key inside ONE line: json.loads keeps the last
        name, val = items[-1]
        hdr_texts = [t for t in layout_lines(rng, items[:-1], list(range(len(items) - 1)), [])]
        hdr_texts.append('{"%s": "shadowed", "%s": %s}' % (name, name, json.dumps(val)))
    density = rng.choice([0.0, 0.1, 0.3, 0.5]) if not runs else rng.choice([0.0, 0.0, 0.1])
    hl, _ = interleave(rng, hdr_texts, density)
    # plain_body: every record written the same way, so that equal errors are equal *lines* (as a writer produces them)
    bl, nbody_comments = interleave(rng, [body_text(rng, e, 4 if plain_body else None) for e in errors], density)
    run_info = None
    if runs:
        hl, bl, run_info = inject_runs(rng, hl, bl, runs)
    # comment/blank lines strictly between the first and the last recorded error
    real = [i for i, l in enumerate(bl) if not RE_SKIP.match(l + '\n')]
    inside = (real[-1] - real[0] + 1 - len(real)) if real else 0
    text = assemble(rng, hl, bl)
    rec = {'items': items, 'errors': errors, 'n0': n0, 'm': m, 'body_comments': inside}
    if run_info:
        rec['runs'] = run_info
    return text, rec


def make_calls(rng, rec, start=None):
    """a start offset and a call sequence (running past the end most of the time) for a healthy file"""
    items, n0, m = rec['items'], rec['n0'], rec['m']
    if start is None:
        r = rng.random()
        start = rng.randint(0, m + 2) if r < 0.85 else (0 if r < 0.93 else rng.choice([m, m - 1, max(0, m - 2)]))
        if rng.random() < 0.03:
            start = bool(min(start, 1))
    p0f = fnum(items[0][1])
    calls = []
    s = int(start)
    remaining = max(0, m - s)
    total = remaining + rng.randint(1, 3) if rng.random() < 0.8 else rng.randint(0, remaining)
    extras = [k for k, _ in items[2:] if k != 'probability_distribution']
    for _ in range(total):
        r = rng.random()
        if r < 0.13:
            calls.append(('G', n0, rng.choice(wrong_ps(p0f))))
        elif r < 0.21:
            calls.append(('G', rng.choice([n0 + 1, max(0, n0 - 1), 0, 2 * n0]), rng.choice(right_ps(p0f))))
        elif r < 0.28:
            calls.append(('D', rng.choice(right_ps(p0f)) if rng.random() < 0.7 else rng.choice(wrong_ps(p0f))))
        elif r < 0.32:
            calls.append(('L',))
        elif r < 0.40:
            calls.append(('A', rng.choice(extras + ['nope', 'bias_', 'Label', 'café'])))
        calls.append(('G', n0, rng.choice(right_ps(p0f))))
    calls.append(('L',))
    calls.append(('D', rng.choice(right_ps(p0f))))
    for k in extras:
        calls.append(('A', k))
    return start, calls


def make_healthy(rng, cyc, big=False):
    """a well-formed file with a random layout; returns the scenario and the record of what was written"""
    text, rec = make_file(rng, cyc, big)
    start, calls = make_calls(rng, rec)
    return {'text': text, 'start': start, 'calls': calls}, rec


DEFECTS = ['missing-probability', 'missing-label', 'repeated-key', 'dict-in-body', 'badjson-header', 'badjson-body',
           'odd-hex', 'non-hex', 'arity', 'non-list', 'bad-field-type', 'invalid-extra', 'clash-extra', 'empty-file',
           'header-only', 'negative-start', 'nonint-start', 'missing-file', 'bad-probability-value']
BAD_JSON = ['xx', '{"a":', "['ff', 8]", '["ff", 8] // trailing comment', '{"probability": 0.1,}', '[1, 2', '{"a" 1}', 'nul',
            '﻿["ff", 8]', '["ff", 8] ["ff", 8]', '/ comment', '# comment']


def make_malformed(rng, defect):
    """a file with exactly one defect; rec says where it is and when it must be noticed"""
    n0 = rng.randint(1, 12)
    m = rng.randint(1, 8)
    errors = [[rng.randint(0, 1) for _ in range(2 * n0)] for _ in range(m)]
    pv = rng.choice([0.1, 0.4, 1, 0.25])
    items = [('probability', pv), ('label', 'L')]
    if rng.random() < 0.5:
        items.append(('probability_distribution', [0.7, 0.1, 0.1, 0.1]))
    if rng.random() < 0.5:
        items.append((rng.choice(VALID_NAMES), rng.choice([1, 'v', [1, 2]])))
    bodies = [body_text(rng, e) for e in errors]
    start = rng.randint(0, m)
    rec = {'defect': defect, 'at': 'init', 'errors': errors, 'n0': n0, 'm': m, 'items': items, 'bad_index': None}
    text = None

    def hdr_texts(its):
        perm = list(range(len(its)))
        rng.shuffle(perm)
        return layout_lines(rng, its, perm, [i for i in range(1, len(its)) if rng.random() < 0.5])

    if defect == 'missing-probability':
        ht = hdr_texts([kv for kv in items if kv[0] != 'probability'])
    elif defect == 'missing-label':
        ht = hdr_texts([kv for kv in items if kv[0] != 'label'])
    elif defect == 'repeated-key':
        ht = hdr_texts(items)
        k, v = rng.choice(items)
        ht.insert(rng.randint(1, len(ht)), json.dumps({k: v} if rng.random() < 0.5 else {'fresh': 1, k: 'other'}))
    elif defect == 'invalid-extra':
        ht = hdr_texts(items + [(rng.choice(INVALID_NAMES), 1)])
        start = rng.randint(0, m + 2)     # beyond m the skipping fails first (EOFError): extras are installed last
    elif defect == 'clash-extra':
        ht = hdr_texts(items + [('generate', 1)])
        start = rng.randint(0, m + 2)
    elif defect == 'bad-probability-value':
        bad = rng.choice([None, [0.1], {'p': 0.1}, [], {}])     # strings: outside the modelled domain, see stream 4
        ht = hdr_texts([('probability', bad)] + items[1:])
        rec['bad_value'] = bad
    elif defect == 'badjson-header':
        ht = hdr_texts(items)
        ht.insert(rng.randint(0, len(ht)), rng.choice(BAD_JSON))
    else:
        ht = hdr_texts(items)
    if defect in ('dict-in-body', 'badjson-body', 'odd-hex', 'non-hex', 'arity', 'non-list', 'bad-field-type'):
        j = rng.randint(1, m)        # position among the body objects (0 would end the header differently)
        n2 = 2 * n0
        good_hex = pack_bits(errors[0])
        bad = {
            'dict-in-body': lambda: json.dumps(rng.choice([{'late': 1}, {'ff': 1, '8': 2}, {'a': 1, 'b': 2}, {'a': 1, 'b': 2, 'c': 3},
                                                          {'probability': pv}, {'  ': 1, 'x': 2}])),
            'badjson-body': lambda: rng.choice(BAD_JSON),
            'odd-hex': lambda: json.dumps([good_hex[:-1] if len(good_hex) > 1 else 'f', n2]),
            'non-hex': lambda: json.dumps([rng.choice(['zz', 'g0' + good_hex[2:], good_hex[:-2] + 'éf', 'f\tf', '0x' + good_hex[2:]]), n2]),
            'arity': lambda: json.dumps(rng.choice([[], [good_hex], [good_hex, n2, 1], [[good_hex, n2]]])),
            'non-list': lambda: json.dumps(rng.choice([5, 'ab', 'abc', None, True, 1.5, ' x', ''])),
            'bad-field-type': lambda: json.dumps(rng.choice([[good_hex, str(n2)], [good_hex, float(n2)], [12, n2], [None, n2],
                                                              [[good_hex], n2], [good_hex, [n2]], [good_hex, {}]])),
        }[defect]()
        bodies.insert(j, bad)
        rec['at'] = 'body'
        rec['bad_index'] = j
        rec['bad_text'] = bad
    if defect == 'empty-file':
        text = rng.choice(['', '\n', '// only a comment\n\n', '   \n\t\n'])
    elif defect == 'header-only':
        hl, _ = interleave(rng, ht, 0.3)
        text = assemble(rng, hl, [])
    elif defect == 'negative-start':
        start = rng.choice([-1, -2, -10 ** 20])
    elif defect == 'nonint-start':
        start = rng.choice([1.0, '1', None, 0.0, [1], 2.5])
    if text is None:
        hl, _ = interleave(rng, ht, rng.choice([0.0, 0.3]))
        bl, _ = interleave(rng, bodies, rng.choice([0.0, 0.3]))
        text = assemble(rng, hl, bl)
    if defect == 'missing-file':
        text = None
    # calls: run through the whole body and past the end
    p0f = float(pv)
    calls = [('G', n0, p0f)] * (m + 3)
    return {'text': text, 'start': start, 'calls': calls}, rec


# ---------------------------------------------------------------------------------------------------
# the property evaluated directly on the implementation (independent of the model)
def expected_healthy(rec, start, calls):
    """what the property text demands, from what the harness recorded"""
    hdr = dict(rec['items'])
    p0f = float(hdr['probability'])
    errors, n0, m = rec['errors'], rec['n0'], rec['m']
    s = int(start)
    if s > m:
        return ('ERR', 'EOFError'), []
    cur = s
    exp = []
    for c in calls:
        if c[0] == 'G':
            p = c[2]
            if not (isinstance(p, (int, float)) and p == p0f):
                exp.append(('refuse-p',))
            elif cur >= m:
                exp.append(('eof',))
            else:
                e = errors[cur]
                cur += 1
                exp.append(('bits', e, cur - 1) if c[1] == n0 else ('refuse-n',))
        elif c[0] == 'D':
            p = c[1]
            dv = hdr.get('probability_distribution', None)
            if not (isinstance(p, (int, float)) and p == p0f):
                exp.append(('refuse-p',))
            elif type(dv) is list and dv:
                exp.append(('tuple', dv))
            elif not dv:
                exp.append(('no-dist',))
            else:
                exp.append(('any',))       # a non-list, non-empty "distribution": not covered by the property text
        elif c[0] == 'L':
            exp.append(('label', hdr['label']) if type(hdr['label']) is str else ('any',))
        else:
            exp.append(('attr', hdr[c[1]]) if c[1] in hdr and c[1] not in ('probability', 'label', 'probability_distribution')
                       else ('noattr',))
    return ('OK',), exp


def check_healthy(ctx, scn, rec, head, outs):
    rep = replay_dict(scn, rec)
    ehead, exp = expected_healthy(rec, scn['start'], scn['calls'])
    if ehead[0] == 'ERR':
        if head[0] != 'ERR' or head[1] != 'EOFError':
            ctx.violation('eof', 'start beyond the recorded errors did not raise EOFError at construction', dict(rep, got=str(head[:2])))
        return
    if head[0] != 'OK':
        ctx.violation('init-rejected', 'a well-formed file was rejected: %s' % head[1], rep)
        return
    extras = [k for k, _ in rec['items'] if k not in ('probability', 'label', 'probability_distribution')]
    if sorted(head[1]) != sorted(extras):
        ctx.violation('header', 'public instance attributes are not exactly the extra header keys', dict(rep, got=head[1]))
    for i, (c, o, e) in enumerate(zip(scn['calls'], outs, exp)):
        r = dict(rep, call_index=i, call=repr(c), got=describe(o))
        if e[0] == 'bits':
            if o[0] != 'B' or o[1] != e[1]:
                if o[0] == 'E' and o[1] == 'EOFError':
                    ctx.violation('eof', 'EOFError before the recorded errors were exhausted', r)
                else:
                    ctx.violation('replay-order', 'served error %d is not recorded error %d' % (i, e[2]), dict(r, want=bitstr(e[1])))
        elif e[0] == 'eof':
            if o[0] != 'E' or o[1] != 'EOFError':
                ctx.violation('eof', 'no EOFError after the last recorded error (repeated or invented error?)', r)
        elif e[0] in ('refuse-p', 'refuse-n'):
            if o[0] != 'E' or o[1] != 'ValueError':
                ctx.violation('refuse', 'a disagreeing %s was not refused with ValueError' % ('probability' if e[0] == 'refuse-p' else 'qubit count'), r)
        elif e[0] == 'tuple':
            if o[0] != 'T' or canon(o[1]) != canon(e[1]):
                ctx.violation('header', 'probability_distribution is not the recorded one', r)
        elif e[0] == 'no-dist':
            if o[0] != 'E' or o[1] != 'ValueError':
                ctx.violation('header', 'missing distribution not signalled with ValueError', r)
        elif e[0] == 'label':
            if o[0] != 'L' or o[1] != e[1]:
                ctx.violation('header', 'label is not the recorded one', r)
        elif e[0] == 'attr':
            if o[0] != 'A' or canon(o[1]) != canon(e[1]):
                ctx.violation('header', 'extra attribute is not the recorded value', r)
        elif e[0] == 'noattr':
            if o[0] != 'E':
                ctx.violation('header', 'an attribute that is not in the header exists', r)


def check_malformed(ctx, scn, rec, head, outs):
    rep = replay_dict(scn, rec)
    d = rec['defect']
    rejected_classes = ('ValueError', 'TypeError', 'Other:JSONDecodeError')
    if rec['at'] == 'init':
        want = {'empty-file': ('EOFError',), 'header-only': ('EOFError',), 'nonint-start': ('TypeError',),
                'negative-start': ('ValueError',), 'missing-file': ('Other:FileNotFoundError',),
                'badjson-header': ('Other:JSONDecodeError',),
                'bad-probability-value': ('TypeError', 'ValueError')}.get(d, ('ValueError',))
        if d in ('invalid-extra', 'clash-extra') and int(scn['start']) > rec['m']:
            want = ('ValueError', 'EOFError')      # two defects at once; the model pins which one is reported
        if head[0] != 'ERR':
            ctx.violation('malformed-accepted', 'file with defect %s was accepted at construction' % d, rep)
        elif head[1] not in want:
            ctx.violation('malformed-class', 'defect %s rejected with %s, documented %s' % (d, head[1], '/'.join(want)), rep)
        elif d == 'badjson-header' and not isinstance(head[2], ValueError):
            ctx.violation('malformed-class', 'bad JSON not reported as a ValueError', rep)
        return
    # defect among the body objects at index j
    j, s, m = rec['bad_index'], int(scn['start']), rec['m']
    if head[0] != 'OK':
        if d == 'badjson-body' and j < s and head[1] == 'Other:JSONDecodeError':
            return      # bad JSON inside the skipped region is noticed by the pull that reaches it
        ctx.violation('init-rejected', 'file whose defect lies in the body was rejected at construction with %s' % head[1], rep)
        return
    if j < s:
        if d == 'badjson-body':
            ctx.violation('malformed-accepted', 'bad JSON line in the skipped region was not noticed', rep)
        ctx.hist['malformed-line-skipped-by-start(not validated)'] += 1
        return          # skipped objects are only parsed, not validated
    # objects s.. are served in order; object j is the bad one
    seq = rec['errors'][:j] + [None] + rec['errors'][j:]
    for i, o in enumerate(outs):
        idx = s + i
        r = dict(rep, call_index=i, got=describe(o))
        if idx >= len(seq):
            if o[0] != 'E' or o[1] != 'EOFError':
                ctx.violation('eof', 'no EOFError after the last line', r)
        elif seq[idx] is None:
            if o[0] != 'E' or o[1] not in rejected_classes:
                ctx.violation('malformed-accepted', 'malformed body line (%s) was served / not rejected' % d, r)
        elif o[0] != 'B' or o[1] != seq[idx]:
            ctx.violation('replay-order', 'error after/before a malformed line not served in order', r)


def describe(o):
    if o[0] == 'B':
        return 'array ' + bitstr(o[1])
    if o[0] == 'E':
        return 'raised ' + o[1]
    return '%s %r' % (o[0], o[1])


def enc_arg(x):
    if isinstance(x, np.floating):
        x = float(x)
    return repr(x)


def replay_dict(scn, rec=None):
    d = {'file_text': scn['text'], 'start': enc_arg(scn['start']), 'calls': enc_calls(scn['calls'])}
    if rec:
        d['n_qubits'] = rec.get('n0')
        d['recorded_errors'] = [bitstr(e) for e in rec.get('errors', [])][:60]
        if rec.get('runs'):
            d['comment_runs'] = rec['runs']
        if rec.get('defect'):
            d['defect'] = rec['defect']
            d['defect_body_index'] = rec.get('bad_index')
    if scn.get('caller'):
        d['caller'] = scn['caller']
    if scn.get('session'):
        d['instance'] = scn['instance']
        d['session'] = scn['session']
    if scn.get('path_session'):
        d['instance'] = scn['instance']
        d['path_session'] = scn['path_session']
    return d


def enc_calls(calls):
    return [[c[0]] + [enc_arg(a) for a in c[1:]] for c in calls]


def check_kept(ctx, scn, rec, finals, inst=0):
    """the arrays the caller kept, looked at after the whole history: an array served for recorded error k and then
    left alone / changed by the caller to f(error k) must hold exactly that, whatever was served afterwards."""
    ehead, exp = expected_healthy(rec, scn['start'], scn['calls'])
    if ehead[0] != 'OK':
        return
    rep = replay_dict(scn, rec)
    for (j, i), op, arg, bits, now in finals:
        if j != inst or i >= len(exp) or exp[i][0] != 'bits':
            continue
        e = exp[i][1]
        want = scribble_expected(op, arg, e) if op else e
        if now != want:
            ctx.violation('served-array-changed',
                          'the array served by call %d (recorded error %d)%s does not hold %s at the end of the history'
                          % (i, exp[i][2], ' and then changed in place by the caller (%s)' % op if op else ' and kept by the caller',
                             'what the caller wrote' if op else 'the recorded error'),
                          dict(rep, call_index=i, served_at_call_time=bitstr(bits), holds_now=bitstr(now) if now is not None else None,
                               want=bitstr(want), recorded=bitstr(e), caller_op=[op, arg]))


# ---------------------------------------------------------------------------------------------------
# sessions: several models open in one process, on one file or on files sharing records, calls interleaved,
# a caller that keeps / changes the served arrays
def resize_error(e, n0):
    """the same low-weight pattern on another qubit count: X and Z halves padded with zeros / truncated"""
    h = len(e) // 2
    x, z = e[:h], e[h:]
    return (x + [0] * n0)[:n0] + (z + [0] * n0)[:n0]


def make_session(rng, cyc, big=False):
    n0 = rng.choice([1, 2, 3, 5, 5, 7, rng.randint(1, 12)]) if not big else rng.choice([16, 40, 100])
    pool = [[0] * (2 * n0)]
    for _ in range(rng.randint(0, 3)):
        e = [0] * (2 * n0)
        for _ in range(rng.choice([1, 1, 2, n0])):
            e[rng.randrange(2 * n0)] = 1
        pool.append(e)
    nfiles = rng.choice([1, 1, 2, 2, 3])
    files = []
    for _ in range(nfiles):
        nk = n0 if rng.random() < 0.8 else max(1, n0 + rng.choice([-1, 1, 2, 4]))
        m = rng.randint(2, 20 if not big else 60)
        errors = [resize_error(rng.choice(pool), nk) for _ in range(m)]
        files.append(make_file(rng, cyc, n0=nk, errors=errors, plain_body=rng.random() < 0.7))
    insts = []
    for _ in range(rng.randint(1, 4)):
        k = rng.randrange(nfiles)
        st = None if rng.random() < 0.5 else rng.choice([0, 0, 1, 2])
        start, calls = make_calls(rng, files[k][1], st)
        insts.append({'file': k, 'start': start, 'calls': calls})
    # interleaving of the instances' histories (open, call 0, call 1, ...)
    seqs = [[('open', j)] + [('call', j, i) for i in range(len(x['calls']))] for j, x in enumerate(insts)]
    mode = rng.choice(['sequential', 'random', 'random', 'round-robin', 'open-all-first'])
    ops = []
    if mode == 'sequential':            # a fresh model after the whole history of the previous one
        for q in seqs:
            ops += q
    else:
        if mode == 'open-all-first':
            ops = [q.pop(0) for q in seqs]
        live = [q for q in seqs if q]
        k = 0
        while live:
            q = live[k % len(live)] if mode == 'round-robin' else rng.choice(live)
            for _ in range(1 if mode == 'round-robin' else rng.randint(1, 3)):
                if q:
                    ops.append(q.pop(0))
            k += 1
            live = [q for q in live if q]
    policy = rng.choice(['drop', 'collect', 'scribble', 'scribble', 'scribble-keep', 'scribble-keep', 'xor-then-compare',
                         'xor-then-compare'])
    return {'files': files, 'insts': insts, 'ops': ops, 'mode': mode, 'policy': policy, 'script': make_script(rng)}


def session_coq(ses, lines, heads, outs, finals):
    """the session as a term of ErrorModels/FileSession.v: (specs, ops, expected outcomes per model, expected heap).
    Every served array is a heap cell (in serving order); the caller's in-place operation becomes `Scribble k v` with v
    computed from the *recorded* error. Only for callers that keep every array (the heap is then observable)."""
    if ses['policy'] not in ('collect', 'scribble-keep', 'xor-then-compare') or any(h is None or h[0] != 'OK' for h in heads):
        return None
    specs, exps = [], []
    for x in ses['insts']:
        if not isinstance(x['start'], (bool, int)) or abs(int(x['start'])) > 1000:
            return None
        specs.append('(%s, StInt %s)' % (file_coq(lines[x['file']]), coq_z(int(x['start']))))
        exps.append(expected_healthy(ses['files'][x['file']][1], x['start'], x['calls'])[1])
    caller = Caller(ses['policy'], ses['script'])     # only to reproduce the sequence of operations
    ops, k = [], 0
    for o in ses['ops']:
        if o[0] != 'call':
            continue
        j, i = o[1], o[2]
        ops.append('Call %d (%s)' % (j, call_coq(ses['insts'][j]['calls'][i])))
        if exps[j][i][0] == 'bits':
            e = exps[j][i][1]
            if ses['policy'] != 'collect':
                op, arg = caller.script[caller.k % len(caller.script)]
                if ses['policy'] == 'xor-then-compare' and op not in ('xor-mask', 'xor-ones', 'flip-one', 'reverse'):
                    op, arg = 'xor-ones', None
                caller.k += 1
                ops.append('Scribble %d %s' % (k, coq_bits(scribble_expected(op, arg, e))))
            k += 1
    heap = [now for _, _, _, _, now in finals]
    if any(h is None for h in heap):
        return None
    return '(%s, %s, %s, %s)' % (coq_list(specs), coq_list(ops), coq_list([outs_coq(o) for o in outs]),
                                 coq_list([coq_bits(h) for h in heap]))


def session_replay(ses):
    return {'files': [t for t, _ in ses['files']],
            'instances': [{'file': x['file'], 'start': enc_arg(x['start']), 'calls': enc_calls(x['calls'])} for x in ses['insts']],
            'ops': [list(o) for o in ses['ops']], 'interleaving': ses['mode'],
            'caller': {'policy': ses['policy'], 'script': [list(x) for x in ses['script']]}}


def run_session(FileErrorModel, tmp, sid, files_text, insts, ops, policy, script, code_for):
    """-> (lines per file, head per instance, outs per instance, finals)"""
    paths, lines = [], []
    for k, text in enumerate(files_text):
        path = os.path.join(tmp, 's%06d_%d.jsonl' % (sid, k))
        with open(path, 'w', newline='', encoding='utf-8') as fh:
            fh.write(text)
        paths.append(path)
        lines.append(classify(path))
    caller = Caller(policy, script)
    heads, ems, outs = [None] * len(insts), [None] * len(insts), [[] for _ in insts]
    labels = [header_of(lines[x['file']]).get('label', None) for x in insts]
    try:
        for op in ops:
            j = op[1]
            if op[0] == 'open':
                heads[j], ems[j] = impl_open(FileErrorModel, paths[insts[j]['file']], insts[j]['start'])
            elif ems[j] is not None:
                outs[j].append(impl_call(ems[j], insts[j]['calls'][op[2]], code_for, labels[j], caller, (j, op[2])))
        finals = caller.final()
    finally:
        del ems
        for path in paths:
            os.remove(path)
    return lines, heads, outs, finals, caller


# ---------------------------------------------------------------------------------------------------
# path sessions: the process also owns the directory. A path is written, models are opened on it and used, the path is
# rewritten with another file (in place, by rename of a new file over it, by unlink + create, or removed), models are opened
# on it again - with the start an earlier model on that path used, or another - while the earlier ones are still referenced
# or after they were released; two paths may hold identical contents; a path is reached under several spellings.  Every
# instance must answer for the file that was under its path when it was opened (ErrorModels/FilePaths.v).
SPELLINGS = ['abs', 'abs', 'rel', 'symlink', 'pathlib', 'dotted']
SAFE_PS = [0.1, 0.4, 0.25, 0.5, 0.3, 1e-3, 0.0, 1, 1.0, 0.9999999999999999, 0.75]
PATH_DISTS = [[0.6, 0.2, 0.1, 0.1], [0.6, 0.0, 0.4, 0.0], [0.7, 0.1, 0.1, 0.1], [0.75, 0.25, 0, 0], [1, 0, 0, 0],
              [0.9, 0.05, 0.03, 0.02], [0.5, 0.5, 0.0, 0.0], [0.25, 0.25, 0.25, 0.25], [0.9, 0.1], [0.3, 0.3, 0.4]]
WRITE_MODES = ['truncate', 'truncate', 'replace', 'unlink']


def make_path_session(rng, cyc, big=False):
    n0 = rng.choice([1, 2, 3, 5, 5, 7, rng.randint(1, 12)]) if not big else rng.choice([16, 40, 100])
    pool = [[0] * (2 * n0)] + random_errors(rng, n0, rng.randint(1, 4))
    npaths = rng.choice([1, 1, 2, 2, 3])
    ps = rng.sample(SAFE_PS, rng.choice([1, 2, 2]))
    dists = rng.sample(PATH_DISTS, 3)
    versions = []       # (text, rec); rec['defect'] set: a malformed / missing file (rec['scn'] has its start and calls)

    def new_version(healthy=False):
        r = rng.random()
        good = [v for v in versions if not v[1].get('defect')]
        if not healthy and r < 0.10:
            scn, rec = make_malformed(rng, rng.choice(DEFECTS))
            versions.append((scn['text'], dict(rec, scn=scn)))
        elif not healthy and r < 0.22 and good:
            versions.append(rng.choice(good))          # identical contents again (on this or on another path)
        else:
            nk = n0 if rng.random() < 0.85 else max(1, n0 + rng.choice([-1, 1, 2]))
            m = rng.randint(1, 12 if not big else 40)
            errors = [resize_error(rng.choice(pool), nk) for _ in range(m)]
            versions.append(make_file(rng, cyc, n0=nk, errors=errors, plain_body=rng.random() < 0.7, pv=rng.choice(ps), dists=dists))
        return len(versions) - 1

    ops, insts = [], []
    cur, gen, used_starts, seen_ps = [None] * npaths, [0] * npaths, [[] for _ in range(npaths)], [[] for _ in range(npaths)]

    def is_live(x):
        return not x['dropped'] and x['pos'] < len(x['calls'])

    def do_write(k, v, mode):
        text, rec = versions[v]
        missing_now = cur[k] is None or versions[cur[k]][0] is None
        if text is None:
            mode = 'remove'
        if mode != 'truncate' or missing_now:
            gen[k] += 1                                  # the name gets a new inode; open handles keep the old one
        else:
            # the inode is rewritten under the readers: what a buffered reader then sees is not specified by anything, so
            # the models still open on it are from now on only asked what they parsed at construction (header queries)
            for x in insts:
                if x['path'] == k and x['gen'] == gen[k] and not x['dropped']:
                    rest = x['calls'][x['pos']:]
                    x['calls'] = x['calls'][:x['pos']]
                    xr = versions[x['version']][1]
                    if not xr.get('defect'):
                        p0f = fnum(xr['items'][0][1])
                        x['calls'] += [c for c in rest if c[0] != 'G'] + [('D', p0f), ('L',)]
                        if seen_ps[k]:
                            x['calls'].append(('D', rng.choice(seen_ps[k])))
        ops.append(('write', k, v, mode))
        cur[k] = v
        if not rec.get('defect'):
            seen_ps[k].append(fnum(rec['items'][0][1]))

    def do_open():
        k = rng.randrange(npaths)
        text, rec = versions[cur[k]]
        reuse = [s for s in used_starts[k] if type(s) is int and 0 <= s <= rec['m']]
        if rec.get('defect'):
            scn = rec['scn']
            start, calls = scn['start'], list(scn['calls'])
            if reuse and rng.random() < 0.5 and rec['defect'] not in ('negative-start', 'nonint-start', 'invalid-extra', 'clash-extra'):
                start = rng.choice(reuse)
        else:
            st = rng.choice(reuse) if reuse and rng.random() < 0.65 else (None if rng.random() < 0.5 else rng.choice([0, 0, 1, 2]))
            start, calls = make_calls(rng, rec, st)
            p0f = fnum(rec['items'][0][1])
            others = [q for q in ps + seen_ps[k] if q != p0f]
            for _ in range(rng.randint(1, 3)):       # distribution queries anywhere in the history, also before the first generate
                q = rng.choice(others) if others and rng.random() < 0.4 else rng.choice(right_ps(p0f))
                calls.insert(rng.choice([0, 0, rng.randint(0, len(calls))]), ('D', q))
            if others and rng.random() < 0.4:
                calls.insert(rng.randint(0, len(calls)), ('G', rec['n0'], rng.choice(others)))
        used_starts[k].append(start)
        insts.append({'path': k, 'version': cur[k], 'gen': gen[k], 'spelling': rng.choice(SPELLINGS), 'start': start,
                      'calls': calls, 'pos': 0, 'dropped': False})
        ops.append(('open', len(insts) - 1))

    def do_calls(j, n):
        x = insts[j]
        for _ in range(n):
            if is_live(x):
                ops.append(('call', j, x['pos']))
                x['pos'] += 1

    for k in range(npaths):
        do_write(k, new_version(healthy=True), 'truncate')
    do_open()
    for _ in range(rng.randint(5, 16)):
        r = rng.random()
        live = [j for j, x in enumerate(insts) if is_live(x)]
        if r < 0.28 and len(insts) < 7:
            do_open()
        elif r < 0.62 and live:
            do_calls(rng.choice(live), rng.randint(1, 5))
        elif r < 0.90:
            k = rng.randrange(npaths)
            v = new_version()
            if rng.random() < 0.5 and not versions[v][1].get('defect'):
                # the typical regeneration: same recording parameters, other contents - run down the open models first
                for j in live:
                    if insts[j]['path'] == k and rng.random() < 0.7:
                        do_calls(j, len(insts[j]['calls']))
            do_write(k, v, rng.choice(WRITE_MODES))
            if rng.random() < 0.6 and len(insts) < 7:
                do_open()
        else:
            cand = [j for j, x in enumerate(insts) if not x['dropped']]
            if cand:
                j = rng.choice(cand)
                insts[j]['calls'] = insts[j]['calls'][:insts[j]['pos']]
                insts[j]['dropped'] = True
                ops.append(('drop', j))
    while True:
        live = [j for j, x in enumerate(insts) if is_live(x)]
        if not live:
            break
        do_calls(rng.choice(live), rng.randint(1, 4))
    policy = rng.choice(['drop', 'drop', 'collect', 'scribble', 'scribble-keep', 'xor-then-compare'])
    return {'versions': versions, 'npaths': npaths, 'ops': ops, 'policy': policy, 'script': make_script(rng),
            'insts': [{k: x[k] for k in ('path', 'version', 'spelling', 'start', 'calls')} for x in insts]}


def path_session_replay(ps):
    return {'files': [t for t, _ in ps['versions']], 'n_paths': ps['npaths'],
            'instances': [{'path': x['path'], 'file': x['version'], 'spelling': x['spelling'], 'start': enc_arg(x['start']),
                           'calls': enc_calls(x['calls'])} for x in ps['insts']],
            'ops': [list(o) for o in ps['ops']],
            'caller': {'policy': ps['policy'], 'script': [list(x) for x in ps['script']]}}


def run_path_session(FileErrorModel, tmp, sid, files_text, npaths, insts, ops, policy, script, code_for):
    """-> (classified lines seen at each open, head per instance, outs per instance, finals, caller,
           per op: classified lines after a write).  insts: dicts with path, spelling, start, calls."""
    import pathlib
    d = os.path.join(tmp, 'p%06d' % sid)
    os.mkdir(d)
    os.mkdir(os.path.join(d, 'sub'))
    paths = [os.path.join(d, 'errors_%d.jsonl' % k) for k in range(npaths)]
    links = [os.path.join(d, 'link_%d.jsonl' % k) for k in range(npaths)]
    for a, b in zip(paths, links):
        os.symlink(a, b)

    def spelled(k, sp):
        return {'abs': paths[k], 'rel': os.path.relpath(paths[k]), 'symlink': links[k], 'pathlib': pathlib.Path(paths[k]),
                'dotted': os.path.join(d, '.', 'sub', '..', os.path.basename(paths[k]))}[sp]

    def put(path, text):
        with open(path, 'w', newline='', encoding='utf-8') as fh:
            fh.write(text)

    caller = Caller(policy, script)
    n = len(insts)
    lines, heads, ems, outs, labels, wlines = [None] * n, [None] * n, [None] * n, [[] for _ in range(n)], [None] * n, []
    try:
        for op in ops:
            if op[0] == 'write':
                k, v, mode = op[1], op[2], op[3]
                text = files_text[v]
                if mode == 'remove' or text is None:
                    if os.path.exists(paths[k]):
                        os.remove(paths[k])
                elif mode == 'replace':
                    put(paths[k] + '.new', text)
                    os.replace(paths[k] + '.new', paths[k])
                elif mode == 'unlink':
                    if os.path.exists(paths[k]):
                        os.remove(paths[k])
                    put(paths[k], text)
                else:
                    put(paths[k], text)
                wlines.append(classify(paths[k]))
                continue
            wlines.append(None)
            j = op[1]
            x = insts[j]
            if op[0] == 'open':
                name = spelled(x['path'], x['spelling'])
                lines[j] = classify(name)       # the oracle reads what is under that name now
                labels[j] = header_of(lines[j]).get('label', None)
                heads[j], ems[j] = impl_open(FileErrorModel, name, x['start'])
            elif op[0] == 'drop':
                ems[j] = None
            elif ems[j] is not None:
                outs[j].append(impl_call(ems[j], x['calls'][op[2]], code_for, labels[j], caller, (j, op[2])))
        finals = caller.final()
    finally:
        del ems
        shutil.rmtree(d, ignore_errors=True)
    return lines, heads, outs, finals, caller, wlines


def path_session_coq(ps, wlines, cases_j):
    """the path session as a term of ErrorModels/FilePaths.v: (ops, expected constructor outcomes, expected answers per
    instance); the caller's scribbles do not appear (they cannot influence any answer: path_noninterference)."""
    ops = []
    for o, wl in zip(ps['ops'], wlines):
        if o[0] == 'write':
            ops.append('PWrite %d %s' % (o[1], file_coq(wl)))
        elif o[0] == 'open':
            st = ps['insts'][o[1]]['start']
            if not isinstance(st, (bool, int)):
                ops.append('POpen %d StBad' % ps['insts'][o[1]]['path'])
            elif abs(int(st)) > 1000:
                return None
            else:
                ops.append('POpen %d (StInt %s)' % (ps['insts'][o[1]]['path'], coq_z(int(st))))
        elif o[0] == 'drop':
            ops.append('PDrop %d' % o[1])
        else:
            ops.append('PCall %d (%s)' % (o[1], call_coq(ps['insts'][o[1]]['calls'][o[2]])))
    eheads, eouts = [], []
    for c in cases_j:
        head, outs = c[4], c[5]
        eheads.append('Ok %s' % coq_list([coq_str(k) for k in head[1]]) if head[0] == 'OK' else 'Err %s' % COQ_EXN[head[1]])
        eouts.append(outs_coq(outs))
    return '(%s, %s, %s)' % (coq_list(ops), coq_list(eheads), coq_list(eouts))


# ---------------------------------------------------------------------------------------------------
def run(ctx):
    from qecsim.models.generic import FileErrorModel
    from qecsim.models.basic import FiveQubitCode, SteaneCode
    rng = ctx.rng
    nfiles = ctx.pick(1500, 15000)
    ctx.rule = ('generated error files: 1-40 (some to 120) errors, n in 1..40 (some to 1000), every header permutation x '
                'grouping for <=4 keys (random beyond), comment/blank lines at random positions, CRLF, start in 0..m+2, call '
                'sequences past EOF with wrong-p / wrong-n / distribution / label / attribute calls interleaved; one-defect '
                'malformed stream (%d classes); outside-domain stream counted separately. Caller behaviour is part of the '
                'history: every third healthy file and every session is driven by a caller that keeps the served arrays '
                '(collected before use) and/or changes them in place after looking (xor, fill, flip, reverse) or before '
                'comparing (xor-then-compare); sessions = 1-3 files built from a pool of <= 4 low-weight errors (records repeat '
                'within and across files, also resized to other qubit counts), 1-4 models open at once on them with their own '
                'start, histories interleaved (sequential / round-robin / random / all opened first); every served array is '
                'checked at call time against the recorded error and the model, and every kept array again at the end of the '
                'history. nontrivial = distinct file with >= 3 errors, >= 1 comment/blank line inside the body and start > 0; '
                'for session instances: >= 3 errors, a record value served more than once in the session and a caller that '
                'keeps or changes arrays. Path sessions: 1-3 path names in one directory; a path is written, models are opened on '
                'it and used, it is rewritten (in place / rename of a new file over it / unlink + create / removed; another '
                'well-formed file with the same or another probability, distribution, label, extras, errors and qubit count, '
                'the identical contents of another path, or a malformed file) while earlier models are still referenced, '
                'run down, or released; new models are opened on it with the start of an earlier model or another one, under '
                'the spellings absolute / relative / symlink / pathlib.Path / dotted; distribution queries with the file\'s '
                'p and with the p of other files of the session occur anywhere in the histories. Every instance is checked '
                'against the record of the file that was under its path when it was opened, and against the model on the '
                'lines the oracle read from that name at that moment (ErrorModels/FilePaths.v). nontrivial there = instance '
                'opened on a path that held other contents when an earlier instance with the same start was opened on it, '
                '>= 3 errors. Record stream: body records [hex payload, stated length] with the two parts varied independently '
                'around the byte boundary (stated length 2n-9..2n+9, payload of every whole number of bytes within 16 bits of it '
                'and the empty payload, random / all-ones / all-zeros bytes, lower / upper / mixed case, white space between and '
                'around bytes, odd digit counts) for 11 (thorough 31) qubit counts, at the first / middle / last position of a '
                'body of packed records, start at 0 / before / at / after the record / end of file, asked with the file\'s qubit '
                'count and with the count the stated length or the payload size fits; decision from the record text alone '
                '(served iff valid hex holding >= length bits and length = 2n, then exactly the first 2n payload bits; refused '
                'with ValueError otherwise), nontrivial = a varied record is reached by a generate call. Long-run stream: '
                'well-formed files holding a run of 1..200 comment / blank lines (every length in %s and random ones; made of blank '
                'lines, bare //, numbered comments, white space only, mixtures; every ninth with one comment line of 100..70000 '
                'characters) before the header, between header lines, between header and body, between two body records or '
                'after the last record, its first line placed on a multiple of the neighbouring power-of-two block of lines '
                '(8..128) and off it, sometimes with one or two more runs elsewhere; each file is driven from a start before '
                'the run (generate calls cross it) and from a start at / after it (the skipping at construction crosses it), '
                'to the end of file and past it; the same runs at any place of one-defect malformed files. Decided by the '
                'model on the classified lines (FileModel.v skips Skip lines one by one) and directly from the record; '
                'nontrivial there = run of >= 8 lines in a file with >= 2 errors' % (len(DEFECTS), RUN_LENGTHS))
    ctx.props_obligations()
    ctx.trusted += [
        'classification of raw lines (comment/blank regex ^\\s*(//.*)?$, json.loads, dict vs non-dict, text-mode line splitting) '
        'is done by the harness with Python re/json/open as an oracle; the model starts from the classified lines',
        "Python's str() is an oracle for non-string labels; float() of a JSON string / huge int as header probability and "
        'non-ASCII extra keys are outside the modelled domain (counted separately, checked directly only)',
        'hasattr clash set is taken from dir() of a healthy instance and passed to the model',
        'path sessions: the operating system resolves spellings of a path (relative, symlink, dotted) and gives a renamed-over '
        'or unlinked file a new inode while open handles keep the old one (POSIX); what a buffered reader sees after its inode '
        'was rewritten in place is left unspecified: such models are afterwards only asked header queries',
    ]
    real_codes = {5: FiveQubitCode(), 7: SteaneCode()}

    def code_for(n):
        return real_codes.get(n) or StubCode(n)

    tmp = tempfile.mkdtemp(prefix='verif_c18_')
    try:
        # clash set: public names for which hasattr is true before the extras are installed
        base = os.path.join(tmp, 'base.jsonl')
        open(base, 'w').write('{"probability": 0.1, "label": "base"}\n["00", 2]\n')
        clash = sorted(k for k in dir(FileErrorModel(base)) if not k.startswith('_'))
        clash_tok = ','.join(codes(k) for k in clash) if clash else '-'
        ctx.extra['clash_set'] = clash
        cyc = LayoutCycler(rng)
        req, cases = [], []
        counter = [0]

        def record(scn, rec, kind, checker, lines, head, outs, nt=None):
            counter[0] += 1
            if checker:
                checker(ctx, scn, rec, head, outs)
            req.append('scn %s %s %s %s' % (file_token(lines), start_token(scn['start']), clash_tok, calls_token(scn['calls'])))
            cases.append([scn, rec, kind, lines, head, outs])
            if nt is None:
                nt = bool(rec and not rec.get('defect') and rec['m'] >= 3 and rec.get('body_comments', 0) >= 1
                          and int(scn['start']) > 0)
            sample = None
            if counter[0] % 400 == 3:
                sample = {'kind': kind, 'file_text': (scn['text'] or '')[:300], 'start': enc_arg(scn['start']),
                          'calls': len(scn['calls']), 'trace': trace_str(head, outs)[:200]}
            ctx.count(hashlib.sha1(repr((scn['text'], enc_arg(scn['start']), scn.get('session_id'), scn.get('instance'),
                                         scn.get('caller'))).encode('utf-8', 'surrogatepass')).hexdigest()[:20],
                      nt, kind, sample)

        def do(scn, rec, kind, checker, nt=None):
            path = os.path.join(tmp, 'f%06d.jsonl' % (counter[0] + 1))
            if scn['text'] is not None:
                with open(path, 'w', newline='', encoding='utf-8') as fh:
                    fh.write(scn['text'])
            lines = classify(path)
            caller = Caller(scn['caller']['policy'], [tuple(x) for x in scn['caller']['script']]) if scn.get('caller') else None
            head, outs, em = run_impl(FileErrorModel, path, scn['start'], scn['calls'], lines, code_for, caller)
            del em
            if scn['text'] is not None:
                os.remove(path)
            record(scn, rec, kind, checker, lines, head, outs, nt)
            if caller is not None:
                check_kept(ctx, scn, rec, caller.final())
                ctx.hist['caller/' + caller.policy] += 1
                ctx.hist['served-array-readonly'] += caller.readonly
            return head, outs

        # ---- 1. healthy files ---------------------------------------------------------------------
        n_bad = ctx.pick(25, 120)
        n_healthy = nfiles - n_bad * len(DEFECTS)
        for i in range(n_healthy):
            scn, rec = make_healthy(rng, cyc, big=(i % 97 == 96))
            if i % 3 == 1:      # a caller that keeps / changes the served arrays instead of only looking at them
                scn['caller'] = {'policy': rng.choice(POLICIES[1:]), 'script': [list(x) for x in make_script(rng, 5)]}
            do(scn, rec, 'healthy', check_healthy)
        ctx.extra['header_layouts_covered'] = {str(k): len(v) for k, v in cyc.seen.items()}
        # ---- 2. malformed, one defect each ----------------------------------------------------
        for d in DEFECTS:
            for _ in range(n_bad):
                scn, rec = make_malformed(rng, d)
                do(scn, rec, 'malformed/' + d, check_malformed)
        # ---- 3. special starts, push-back, lenient length fields (model comparison + direct facts) --
        H = '{"probability": 0.5, "label": "S"}\n'
        body3 = '["c0", 2]\n// c\n["40", 2]\n\n["80", 2]\n'
        g = ('G', 1, 0.5)
        for start in [0, 1, 2, 3, 4, 10 ** 6, True, False]:
            do({'text': H + body3, 'start': start, 'calls': [g] * 5}, None, 'special/start', None)
        for txt, n in [('["ff", 20]', 4), ('["ff", 20]', 10), ('["ffff", -2]', 7), ('["ffff", -2]', 8), ('["ff", null]', 4),
                       ('["ff", true]', 1), ('["ff", false]', 0), ('["", 0]', 0), ('["", 5]', 0), ('["ff", -9]', 0),
                       ('["ff", 340282366920938463463374607431768211456]', 4), ('["ff", -340282366920938463463374607431768211456]', 0),
                       ('["F0 0f", 16]', 8), ('[" f0\\n", 8]', 4), ('["f0", 8.0]', 4), ('["f0", 3]', 2)]:
            do({'text': H + txt + '\n["c0", 2]\n', 'start': 0, 'calls': [('G', n, 0.5), ('G', 1, 0.5), ('G', 1, 0.5)]}, None,
               'special/length-field', None)
        # first object after the header is pushed back and served first; header dict lines later are body objects
        h, o = do({'text': H + '["c0", 2]\n{"late": 1}\n["40", 2]\n', 'start': 0, 'calls': [g] * 4}, None, 'special/pushback', None)
        if not (h[0] == 'OK' and [x[0] for x in o] == ['B', 'E', 'B', 'E'] and o[0][1] == [1, 1] and o[2][1] == [0, 1]):
            ctx.violation('replay-order', 'first error after the header not served first (push-back)',
                          {'file_text': H + '["c0", 2]\n{"late": 1}\n["40", 2]\n', 'start': '0', 'calls': [['G', '1', '0.5']] * 4})
        # ---- 4. outside the modelled domain: compared where the model answers, checked directly ---
        ood = []
        for pv, ok in [('"0.5"', 0.5), ('" 1e-3 "', 1e-3), ('"nan"', None), ('"x"', 'ValueError'), ('""', 'ValueError'),
                       ('1' + '0' * 400, 'Other:OverflowError'), (str(2 ** 53 + 2), float(2 ** 53 + 2)), ('"1_0"', 10.0)]:
            ood.append(({'text': '{"probability": %s, "label": "S"}\n["c0", 2]\n' % pv, 'start': 0,
                         'calls': [('G', 1, ok if isinstance(ok, float) else 0.5)]}, ok))
        for scn, ok in ood:
            h, o = do(scn, None, 'outside-domain/probability', None)
            good = (h[0] == 'ERR' and h[1] == ok) if isinstance(ok, str) else \
                (h[0] == 'OK' and (ok is None or (o and o[0][0] == 'B')))
            if not good:
                ctx.violation('header', 'string/huge header probability not handled as float() would', replay_dict(scn))
        for name, accept in [('café', True), ('a٣', True), ('éa', False), ('a✓', False), ('中', False)]:
            scn = {'text': H[:-2] + ', %s: 3}\n["c0", 2]\n' % json.dumps(name, ensure_ascii=False), 'start': 0, 'calls': [('A', name)]}
            h, o = do(scn, None, 'outside-domain/unicode-name', None)
            if (h[0] == 'OK') != accept or (accept and not name.isidentifier()):
                ctx.violation('malformed-accepted' if h[0] == 'OK' else 'init-rejected',
                              'unicode extra key %r: accepted=%s identifier=%s' % (name, h[0] == 'OK', name.isidentifier()),
                              replay_dict(scn))
        # ---- 5. known-bad inputs probed individually: names that are not identifiers but pass the regex
        for name in ['ab\n', 'a²']:
            scn = {'text': H[:-2] + ', %s: 3}\n["c0", 2]\n' % json.dumps(name), 'start': 0, 'calls': [('A', name)]}
            h, o = do(scn, None, 'probe/non-identifier-name', None)
            if h[0] == 'OK' and not name.isidentifier():
                ctx.violation('malformed-accepted:attr-name-not-identifier',
                              'extra header key %r is not a valid Python attribute name but is accepted' % name, replay_dict(scn))

        # ---- 5b. records: payload and stated length varied independently around the byte boundary (harness/c18_extra.py);
        #          a served array must be the first 2n bits of a payload that really holds them, anything else refused
        c18_extra.run_records(ctx, do)

        # ---- 6. sessions: several models in one process (same file / files sharing records), interleaved histories,
        #         callers that collect the served arrays before use or change them in place -----------------------
        n_sessions = ctx.pick(250, 2500)
        shared = 0
        sess_terms = []
        for sid in range(n_sessions):
            ses = make_session(rng, cyc, big=(sid % 41 == 40))
            srep = session_replay(ses)
            lines, heads, outs, finals, caller = run_session(
                FileErrorModel, tmp, sid, srep['files'], ses['insts'], ses['ops'], ses['policy'], ses['script'], code_for)
            ctx.hist['interleaving/' + ses['mode']] += 1
            ctx.hist['caller/' + ses['policy']] += 1
            ctx.hist['served-array-readonly'] += caller.readonly
            # a record value served more than once in the session (to any instance) after the caller touched an array
            served = [bitstr(o[1]) for os_ in outs for o in os_ if o[0] == 'B']
            rep_served = len(served) - len(set(served))
            shared += bool(rep_served)
            if len(sess_terms) < 14 and sid % 3 == 0 and sum(len(t) for t in srep['files']) < 1200 and len(ses['ops']) <= 60:
                try:
                    t = session_coq(ses, lines, heads, outs, finals)
                except (ValueError, KeyError):
                    t = None
                if t:
                    sess_terms.append(t)
            for j, x in enumerate(ses['insts']):
                text, rec = ses['files'][x['file']]
                scn = {'text': text, 'start': x['start'], 'calls': x['calls'], 'session': srep, 'instance': j, 'session_id': sid}
                if heads[j] is None:
                    continue
                record(scn, rec, 'session/' + ses['policy'], check_healthy, lines[x['file']], heads[j], outs[j],
                       nt=bool(rep_served and ses['policy'] != 'drop' and rec['m'] >= 3))
                check_kept(ctx, scn, rec, finals, j)
        ctx.extra['sessions'] = {'n': n_sessions, 'with_a_record_value_served_more_than_once': shared}

        # ---- 7. path sessions: paths rewritten (in place / rename-over / unlink+create / removed) between and during the
        #         lives of models opened on them (same start, other start; still referenced or released), identical
        #         contents under two paths, one path under several spellings; every instance is compared with the
        #         model's scenario for the file that was under its path when it was opened --------------------------
        n_psessions = ctx.pick(160, 1600)
        psess, reopened_same = [], 0
        for sid in range(n_psessions):
            ps = make_path_session(rng, cyc, big=(sid % 37 == 36))
            prep = path_session_replay(ps)
            lines, heads, outs, finals, caller, wlines = run_path_session(
                FileErrorModel, tmp, sid, prep['files'], ps['npaths'], ps['insts'], ps['ops'], ps['policy'], ps['script'], code_for)
            ctx.hist['caller/' + ps['policy']] += 1
            ctx.hist['served-array-readonly'] += caller.readonly
            for o in ps['ops']:
                if o[0] == 'write':
                    ctx.hist['path-write/' + o[3]] += 1
            mine = []
            seen = {}           # (path, start) -> versions on which an earlier instance was opened
            for j, x in enumerate(ps['insts']):
                text, rec = ps['versions'][x['version']]
                scn = {'text': text, 'start': x['start'], 'calls': x['calls'], 'path_session': prep, 'instance': j,
                       'session_id': 'p%d' % sid}
                ctx.hist['path-spelling/' + x['spelling']] += 1
                earlier = seen.setdefault((x['path'], enc_arg(x['start'])), [])
                again = any(ps['versions'][v][0] != text for v in earlier)      # same path, same start, other contents before
                earlier.append(x['version'])
                reopened_same += again
                if rec.get('defect'):
                    record(scn, rec, 'paths/malformed/' + rec['defect'], check_malformed, lines[j], heads[j], outs[j], nt=False)
                else:
                    record(scn, rec, 'paths/' + ('reopened-same-start' if again else 'first-or-other-start'), check_healthy,
                           lines[j], heads[j], outs[j], nt=bool(again and rec['m'] >= 3))
                    check_kept(ctx, scn, rec, finals, j)
                mine.append(cases[-1])
            if len(psess) < 10 and sid % 4 == 0 and sum(len(t or '') for t in prep['files']) < 1500 and len(ps['ops']) <= 70:
                psess.append((ps, wlines, mine))
        ctx.extra['path_sessions'] = {'n': n_psessions, 'instances_opened_on_a_rewritten_path_with_the_start_of_an_earlier_one':
                                      reopened_same}

        # ---- 8. long runs of comment / blank lines (1..200 lines; just below / at / above powers of two; first line on and
        #         off multiples of that block; before the header, inside it, between header and body, between two body
        #         records, after the last record; lines of every comment / blank spelling, some several buffers wide), each
        #         file driven from a start before the run and from a start at / after it; also inside malformed files -----
        grid = []
        for L in RUN_LENGTHS:
            near = any(abs(L - b) <= 1 for b in RUN_BLOCKS)
            for place in RUN_PLACES:
                if near or not ctx.quick:
                    grid += [(L, place, True), (L, place, False)]
                else:
                    grid.append((L, place, len(grid) % 2 == 0))
        for _ in range(ctx.pick(40, 1200)):
            grid.append((rng.randint(1, 200), rng.choice(RUN_PLACES), rng.random() < 0.5))
        for gi, (L, place, aligned) in enumerate(grid):
            wide = rng.choice(WIDE) if gi % 9 == 4 else 0
            scns, rec = make_longrun(rng, cyc, L, place, aligned, wide)
            ri = rec['runs'][0]
            ctx.hist['long-run/%s/%s' % (ri['place'], 'aligned' if ri['first_line'] % ri['align'][0] == 0 else 'unaligned')] += 1
            ctx.hist['long-run/length>=%d' % max([b for b in [1] + RUN_BLOCKS if ri['length'] >= b])] += 1
            for k, scn in enumerate(scns):
                do(scn, rec, 'long-run/' + ('start-before' if k == 0 else 'start-at-or-after'), check_healthy,
                   nt=bool(rec['m'] >= 2 and ri['length'] >= 8))
        run_defects = [d for d in DEFECTS if d not in ('empty-file', 'missing-file')]
        for k in range(ctx.pick(3, 20) * len(run_defects)):
            d = run_defects[k % len(run_defects)]
            scn, rec = make_malformed(rng, d)
            L = rng.choice(RUN_LENGTHS)
            scn['text'], rec['runs'] = inject_runs_text(rng, scn['text'], [
                {'place': 'any', 'length': L, 'style': rng.choice(RUN_STYLES),
                 'align': [run_block_of(rng, L), rng.choice([0, 0, 1, rng.randrange(8)])]}])
            do(scn, rec, 'long-run/malformed/' + d, check_malformed, nt=False)

        # ---- correspondence with the extracted model -------------------------------------------
        out = ctx.model('c18', req)
        n_ood = 0

        def norm(tr):
            # the order of the extra attributes in vars(model) is not part of the API: compare as a set
            toks = tr.split(' ')
            if toks[0].startswith('OK:') and toks[0] != 'OK:-':
                toks[0] = 'OK:' + ','.join(sorted(toks[0][3:].split(',')))
            return ' '.join(toks)
        model_names = []
        for (scn, rec, kind, lines, head, outs), m, line in zip(cases, out, req):
            impl = norm(trace_str(head, outs))
            h0 = m.split(' ')[0]
            model_names.append([''.join(chr(int(c, 16)) for c in k.split('.')) for k in h0[3:].split(',')]
                               if h0.startswith('OK:') and h0 != 'OK:-' else [])
            m = norm(m)
            mt, it = m.split(' '), impl.split(' ')
            inp = {'request': line[:1500], **replay_dict(scn, rec)}
            if mt[0] == 'OOD':
                n_ood += 1
                ctx.hist['model-outside-domain'] += 1
                if not kind.startswith(('outside-domain', 'probe')):
                    ctx.cmp('scenario(domain)', inp, impl, m)     # the healthy generator must stay inside the domain
                continue
            if 'OOD' in mt[1:] and len(mt) == len(it):
                n_ood += 1
                ctx.hist['model-outside-domain'] += 1
                keep = [i for i, t in enumerate(mt) if t != 'OOD']
                ctx.cmp('scenario', inp, ' '.join(it[i] for i in keep), ' '.join(mt[i] for i in keep))
                continue
            ctx.cmp('scenario', inp, impl, m)
        ctx.extra['model_outside_domain'] = n_ood
        # stream formulation agrees too (redundant with c18_pushback; cheap)
        out_s = ctx.model('c18', ['scn_s' + r[3:] for r in req[:300]])
        for a, b, r in zip(out[:300], out_s, req):
            ctx.cmp('scenario_s', r[:800], a, b)
        for c, names in zip(cases, model_names):
            c[4:5] = [('OK', names) if c[4][0] == 'OK' and sorted(names) == sorted(c[4][1]) else c[4]]

        # ---- in-kernel shard --------------------------------------------------------------------
        items, exps = [], []
        pick = [c for c in cases if len(c[0]['text'] or '') < 1500 and len(c[0]['calls']) <= 40]
        step = max(1, len(pick) // 110)
        for (scn, rec, kind, lines, head, outs) in pick[::step][:110]:
            try:
                if not isinstance(scn['start'], (bool, int)):
                    st = 'StBad'
                elif abs(int(scn['start'])) > 1000:
                    continue
                else:
                    st = '(StInt %s)' % coq_z(int(scn['start']))
                item = '(%s, %s, %s)' % (file_coq(lines), st, calls_coq(scn['calls']))
                exp = trace_coq(head, outs)
            except (ValueError, KeyError):
                continue
            items.append(item)
            exps.append(exp)
        # drop the cases on which the model itself says "outside the domain" (they are not claims)
        text = ('From Coq Require Import List Bool Arith NArith ZArith.\nFrom QV Require Import Core.Bits Core.Pack '
                'ErrorModels.FileModel.\nImport ListNotations.\n'
                'Definition clash : list (list N) := %s.\n'
                'Definition run1 (c : option (list line) * start_arg * list call) := let \'(f, s, cs) := c in scenario f s clash cs.\n'
                'Definition has_ood (t : res (list (list N)) * list outcome) := match fst t with Ood => true | _ => false end '
                '|| existsb (fun o => match o with OOod => true | _ => false end) (snd t).\n'
                'Definition cases : list (option (list line) * start_arg * list call) :=\n [%s].\n'
                'Definition expected : list (res (list (list N)) * list outcome) :=\n [%s].\n'
                'Fixpoint agree (a b : list (res (list (list N)) * list outcome)) : Prop := match a, b with [], [] => True '
                '| x :: a\', y :: b\' => (has_ood x = true \\/ x = y) /\\ agree a\' b\' | _, _ => False end.\n'
                'Example corr : agree (map run1 cases) expected.\nProof. vm_compute. repeat split; (right; reflexivity) || (left; reflexivity). Qed.\n'
                % (coq_list([coq_str(k) for k in clash]), ';\n  '.join(items), ';\n  '.join(exps)))
        ctx.kernel_cases('sample', text)
        ctx.extra['kernel_cases'] = len(items)
        # sessions in the kernel: models + caller's heap (ErrorModels/FileSession.v), when that library is built
        if sess_terms and os.path.exists(os.path.join(COQ, 'theories', 'ErrorModels', 'FileSession.vo')):
            text = ('From Coq Require Import List Bool Arith NArith ZArith.\nFrom QV Require Import Core.Bits Core.Pack '
                    'ErrorModels.FileModel ErrorModels.FileSession.\nImport ListNotations.\n'
                    'Definition clash : list (list N) := %s.\n'
                    'Definition is_ood (o : outcome) := match o with OOod => true | _ => false end.\n'
                    'Definition sess_ok (c : list (option (list line) * start_arg) * list op * list (list outcome) * list bsf) : Prop :=\n'
                    '  let \'(specs, ops, eouts, eheap) := c in\n'
                    '  match ok_states (opened clash specs) with\n'
                    '  | Some ss => let (evs, w) := wrun reader pull clash (MkWorld ss []) ops in\n'
                    '      existsb is_ood (map snd evs) = true \\/\n'
                    '      (map (fun j => outs_of j evs) (seq 0 (length specs)) = eouts /\\ heap w = eheap)\n'
                    '  | None => False end.\n'
                    'Definition sessions : list (list (option (list line) * start_arg) * list op * list (list outcome) * list bsf) :=\n [%s].\n'
                    'Fixpoint all_ok (l : list (list (option (list line) * start_arg) * list op * list (list outcome) * list bsf)) '
                    ': Prop :=\n  match l with [] => True | c :: r => sess_ok c /\\ all_ok r end.\n'
                    'Example sess_corr : all_ok sessions.\n'
                    'Proof. vm_compute. repeat split; ((right; split; reflexivity) || (left; reflexivity)). Qed.\n'
                    % (coq_list([coq_str(k) for k in clash]), ';\n  '.join(sess_terms)))
            ctx.kernel_cases('sessions', text, timeout=300)
            ctx.extra['kernel_sessions'] = len(sess_terms)
        # path sessions in the kernel (ErrorModels/FilePaths.v): writes, opens, calls and releases in history order
        if psess and os.path.exists(os.path.join(COQ, 'theories', 'ErrorModels', 'FilePaths.vo')):
            terms = []
            for ps, wlines, mine in psess:
                try:
                    t = path_session_coq(ps, wlines, mine)
                except (ValueError, KeyError):
                    t = None
                if t:
                    terms.append(t)
            ty = 'list pop * list (res (list (list N))) * list (list outcome)'
            text = ('From Coq Require Import List Bool Arith NArith ZArith.\nFrom QV Require Import Core.Bits Core.Pack '
                    'ErrorModels.FileModel ErrorModels.FileSession ErrorModels.FilePaths.\nImport ListNotations.\n'
                    'Definition clash : list (list N) := %s.\n'
                    'Definition ev_ood (e : pevent) := match e with EOpen _ Ood => true | ECall _ OOod => true | _ => false end.\n'
                    'Definition heads_of (evs : list pevent) := flat_map (fun e => match e with EOpen _ r => [r] | _ => [] end) evs.\n'
                    'Definition psess_ok (c : %s) : Prop :=\n'
                    '  let \'(ops, eheads, eouts) := c in\n'
                    '  let evs := fst (prun clash (MkP [] [] []) ops) in\n'
                    '  existsb ev_ood evs = true \\/\n'
                    '  (heads_of evs = eheads /\\ map (fun j => pouts_of j evs) (seq 0 (length eheads)) = eouts).\n'
                    'Definition psessions : list (%s) :=\n [%s].\n'
                    'Fixpoint all_ok (l : list (%s)) : Prop := match l with [] => True | c :: r => psess_ok c /\\ all_ok r end.\n'
                    'Example paths_corr : all_ok psessions.\n'
                    'Proof. vm_compute. repeat split; ((right; split; reflexivity) || (left; reflexivity)). Qed.\n'
                    % (coq_list([coq_str(k) for k in clash]), ty, ty, ';\n  '.join(terms), ty))
            if terms:
                ctx.kernel_cases('paths', text, timeout=300)
            ctx.extra['kernel_path_sessions'] = len(terms)
    finally:
        shutil.rmtree(tmp, ignore_errors=True)


def replay(path):
    """re-run a stored failing scenario against the implementation and print what happens"""
    from qecsim.models.generic import FileErrorModel
    d = json.load(open(path))
    r = d.get('replay', d)
    print(json.dumps({k: v for k, v in d.items() if k != 'replay'}, indent=1))
    if 'file_text' not in r and 'correspondence_mismatches' in d:
        for mm in d['correspondence_mismatches'][:5]:
            if isinstance(mm.get('input'), dict) and 'file_text' in mm['input']:
                _replay_one(FileErrorModel, mm['input'])
                print('  model:', mm.get('model'))
        return 0
    if 'path_session' in r:
        _replay_path_session(FileErrorModel, r)
    elif 'session' in r:
        _replay_session(FileErrorModel, r)
    elif 'file_text' in r:
        _replay_one(FileErrorModel, r)
    return 0


def _dec_calls(calls, env):
    return [tuple([c[0]] + [eval(a, env) for a in c[1:]]) for c in calls]


def _replay_session(FileErrorModel, r):
    """re-run a whole session (all files, all instances, the interleaving and the caller's in-place operations)"""
    env = {'nan': float('nan'), 'inf': INF, '__builtins__': {}}
    ses = r['session']
    insts = [{'file': x['file'], 'start': eval(x['start'], env), 'calls': _dec_calls(x['calls'], env)} for x in ses['instances']]
    script = [(op, arg) for op, arg in ses['caller']['script']]
    for k, t in enumerate(ses['files']):
        print('--- file %d ---' % k)
        print(t)
    print('--- instances: %s' % ', '.join('#%d = FileErrorModel(file %d, start=%r)' % (j, x['file'], x['start'])
                                          for j, x in enumerate(insts)))
    print('--- caller policy: %s; interleaving: %s; reported instance: #%s' % (ses['caller']['policy'], ses.get('interleaving'),
                                                                              r.get('instance')))
    tmp = tempfile.mkdtemp(prefix='verif_c18_replay_')
    try:
        lines, heads, outs, finals, caller = run_session(FileErrorModel, tmp, 0, ses['files'], insts,
                                                         [tuple(o) for o in ses['ops']], ses['caller']['policy'], script, StubCode)
        pos = [0] * len(insts)
        for o in ses['ops']:
            j = o[1]
            if o[0] == 'open':
                print('open #%d -> %s' % (j, 'ok' if heads[j][0] == 'OK' else 'raised ' + heads[j][1]))
            elif heads[j][0] == 'OK':
                print('#%d call %d %r -> %s' % (j, o[2], insts[j]['calls'][o[2]], describe(outs[j][pos[j]])))
                pos[j] += 1
        for (j, i), op, arg, bits, now in finals:
            print('kept: #%d call %d served %s, caller did %s, holds now %s' % (j, i, bitstr(bits), op or 'nothing',
                                                                              bitstr(now) if now is not None else now))
    finally:
        shutil.rmtree(tmp, ignore_errors=True)


def _replay_path_session(FileErrorModel, r):
    """re-run a whole path session: every write (with its mode), open (with its spelling), call and release in order"""
    env = {'nan': float('nan'), 'inf': INF, '__builtins__': {}}
    ps = r['path_session']
    insts = [{'path': x['path'], 'spelling': x['spelling'], 'start': eval(x['start'], env), 'calls': _dec_calls(x['calls'], env)}
             for x in ps['instances']]
    for k, t in enumerate(ps['files']):
        print('--- file %d ---' % k)
        print(t)
    print('--- caller policy: %s; reported instance: #%s' % (ps['caller']['policy'], r.get('instance')))
    tmp = tempfile.mkdtemp(prefix='verif_c18_replay_')
    try:
        ops = [tuple(o) for o in ps['ops']]
        lines, heads, outs, finals, caller, wl = run_path_session(
            FileErrorModel, tmp, 0, ps['files'], ps['n_paths'], insts, ops, ps['caller']['policy'],
            [(op, arg) for op, arg in ps['caller']['script']], StubCode)
        pos = [0] * len(insts)
        for o in ops:
            if o[0] == 'write':
                print('path %d <- file %d (%s)' % (o[1], o[2], o[3]))
                continue
            j = o[1]
            if o[0] == 'open':
                print('open #%d = FileErrorModel(path %d as %s, start=%r)  [file %s] -> %s'
                      % (j, insts[j]['path'], insts[j]['spelling'], insts[j]['start'], ps['instances'][j]['file'],
                         'ok' if heads[j][0] == 'OK' else 'raised ' + heads[j][1]))
            elif o[0] == 'drop':
                print('release #%d' % j)
            elif heads[j][0] == 'OK':
                print('#%d call %d %r -> %s' % (j, o[2], insts[j]['calls'][o[2]], describe(outs[j][pos[j]])))
                pos[j] += 1
        for (j, i), op, arg, bits, now in finals:
            print('kept: #%d call %d served %s, caller did %s, holds now %s' % (j, i, bitstr(bits), op or 'nothing',
                                                                              bitstr(now) if now is not None else now))
    finally:
        shutil.rmtree(tmp, ignore_errors=True)


def _replay_one(FileErrorModel, r):
    env = {'nan': float('nan'), 'inf': INF, '__builtins__': {}}
    tmp = tempfile.mkdtemp(prefix='verif_c18_replay_')
    try:
        p = os.path.join(tmp, 'replay.jsonl')
        if r['file_text'] is not None:
            with open(p, 'w', newline='', encoding='utf-8') as fh:
                fh.write(r['file_text'])
        print('--- file ---')
        print(r['file_text'])
        start = eval(r['start'], env)
        print('--- FileErrorModel(path, %r) ---' % (start,))
        try:
            em = FileErrorModel(p, start)
        except Exception as e:  # noqa
            print('raised %s: %s' % (type(e).__name__, e))
            return
        print('constructed; label=%r public attrs=%r' % (em.label, [k for k in vars(em) if not k.startswith('_')]))
        caller = Caller(r['caller']['policy'], [tuple(x) for x in r['caller']['script']]) if r.get('caller') else None
        if caller:
            print('caller policy: %s' % caller.policy)
        for i, c in enumerate(r['calls']):
            args = [eval(a, env) for a in c[1:]]
            try:
                if c[0] == 'G':
                    arr = em.generate(StubCode(args[0]), args[1])
                    res = bitstr(arr)
                    if caller and well_formed_array(arr):
                        caller.served((0, i), arr, [int(x) for x in arr])
                elif c[0] == 'D':
                    res = em.probability_distribution(args[0])
                elif c[0] == 'L':
                    res = em.label
                else:
                    res = getattr(em, args[0])
                print('call %d %s%r -> %r' % (i, c[0], tuple(args), res))
            except Exception as e:  # noqa
                print('call %d %s%r -> raised %s: %s' % (i, c[0], tuple(args), type(e).__name__, e))
        for (j, i), op, arg, bits, now in (caller.final() if caller else []):
            print('kept: call %d served %s, caller did %s, holds now %s' % (i, bitstr(bits), op or 'nothing',
                                                                          bitstr(now) if now is not None else now))
    finally:
        shutil.rmtree(tmp, ignore_errors=True)
