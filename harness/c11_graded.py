"""Round-4 strengthening of C11: WITHIN-TENSOR magnitude spread with an exactly known value.

The earlier regimes scale whole tensors by powers of two, so inside one (merged) tensor all entries have similar
magnitudes.  Here every LEG INDEX carries its own power of two:

    entry[n, e, s, w] = mantissa[n, e, s, w] * 2^( k + pn[n] + pe[e] + ps[s] + pw[w] )

with integer "leg potentials" pn, pe, ps, pw per site.  For a bond b between leg x of site A and leg y of site B let
u_b(i) = pA_x[i] + pB_y[i] and call an index i of the bond LIVE if slice i of A's mantissas and slice i of B's
mantissas are both not identically zero.  The network is GRADED if on every bond all live indices have the same
u_b(i) =: u*_b.  Two generator modes per bond:

  gauge   pB = -pA (u = 0 for every index): slice i of one tensor times 2^g_i, slice i of the other times 2^-g_i,
          |g_i| up to 600, different for different i;
  select  decoder-like: one side carries (1, p, p^2, ...) with p = 2^-s, s = 30..60 (sometimes up to 250), the other
          side an arbitrary potential, and the mantissa slices of all indices outside ONE u-class are zeroed (mostly
          so that the SMALL entries are the ones that survive).

Exactness (checked per network by `certificate`, not assumed): in a graded network every nonzero term of every entry
of every partially contracted block of sites has the same power of two, namely
    sum of k over the block + sum of u* over the bonds inside the block + the potentials of the block's open legs
(terms through a dead index are exact zeros because one factor is an exact zero), so every partial sum any contraction
order forms is an integer below 2^53 (the mantissa bound of harness.c11) times ONE power of two: binary64 arithmetic
is exact as long as that power stays inside the exponent window, which is checked for every rectangular block of
sites (column sweeps in both directions, the ladder, inner products of partial results and the same on the
transposed network only ever form rectangular blocks).  Hence

    exact value = (integer contraction value of the mantissas) * 2^( sum k + sum u* )

The mantissa value comes from the extracted model (engine c11, `contract` / `value` lines) and from two independent
integer evaluations; for every generated network the harness ALSO evaluates the float network as exact rationals
(harness.c11.exact_fraction_value, no grading argument involved) and insists on agreement before using it.

A second, approximate regime (c) uses POSITIVE real entries whose magnitudes are log-uniform over up to 300 binary
orders inside one tensor (and a few decoder networks at very small error probabilities): without truncation there
is no cancellation, so every sweep must agree with the exact rational value to 1e-9 relative."""
import json
from fractions import Fraction

import numpy as np

from harness.c11 import Net, BIG, gen_net, exact_fraction_value, to_frac, hexint, opt, canon_contract, model_cost, spec_cost
from harness.c11_extra import (SCALE_LO, SCALE_HI, exact_mantissa_value, exactness_bound, history_ops, run_history,
                               _is_padded)

LEGS = ('n', 'e', 's', 'w')


class GNet(Net):
    """Net plus integer leg potentials pot[r][c] = [pn, pe, ps, pw] (lists of length = leg dimension)"""

    def __init__(self, R, C, mant, k, pot):
        Net.__init__(self, R, C, mant, k)
        self.pot = pot
        self._cert = None

    # -- float arrays -----------------------------------------------------------------------------------------
    def exponents(self, r, c):
        m, p = self.mant[r][c], self.pot[r][c]
        e = np.full(m.shape, int(self.k[r][c]), dtype=np.int64)
        for leg in range(4):
            sh = [1, 1, 1, 1]
            sh[leg] = m.shape[leg]
            e = e + np.array(p[leg], dtype=np.int64).reshape(sh)
        return e

    def build(self):
        tn = np.empty((self.R, self.C), dtype=object)
        for r in range(self.R):
            for c in range(self.C):
                m = self.mant[r][c]
                tn[r, c] = None if m is None else np.ldexp(m.astype(np.float64), self.exponents(r, c).astype(np.int32))
        return tn

    arrays = build

    # -- grading certificate ----------------------------------------------------------------------------------
    def bond_info(self):
        """[(siteA, legA, siteB, legB, u list, live list)] for every internal bond"""
        out = []
        for (a, b, d) in self.bonds():
            (r, c, la), (r2, c2, lb) = a, b
            pa, pb = self.pot[r][c][la], self.pot[r2][c2][lb]
            u = [pa[i] + pb[i] for i in range(d)]
            ma, mb = np.moveaxis(self.mant[r][c], la, 0), np.moveaxis(self.mant[r2][c2], lb, 0)
            live = [bool(ma[i].any()) and bool(mb[i].any()) for i in range(d)]
            out.append(((r, c), la, (r2, c2), lb, u, live))
        return out

    def certificate(self):
        """None if not graded / outside the exactness window, else {'vscale': total power of two, 'ustar': ...}"""
        if self._cert is not None:
            return self._cert or None
        self._cert = False
        if exactness_bound(self) >= BIG:
            return None
        ustar = {}
        for (a, la, b, lb, u, live) in self.bond_info():
            cls = set(ui for ui, lv in zip(u, live) if lv)
            if len(cls) > 1:
                return None
            ustar[(a, b)] = cls.pop() if cls else 0
        R, C = self.R, self.C
        occ = [[self.mant[r][c] is not None for c in range(C)] for r in range(R)]
        # exponent window of every rectangular block of sites
        for r1 in range(R):
            for r2 in range(r1, R):
                for c1 in range(C):
                    for c2 in range(c1, C):
                        lo = hi = 0
                        for r in range(r1, r2 + 1):
                            for c in range(c1, c2 + 1):
                                if not occ[r][c]:
                                    continue
                                lo += self.k[r][c]
                                hi += self.k[r][c]
                                for leg, (rr, cc) in enumerate(((r - 1, c), (r, c + 1), (r + 1, c), (r, c - 1))):
                                    inside = r1 <= rr <= r2 and c1 <= cc <= c2 and occ[rr][cc]
                                    if inside:
                                        if leg in (1, 2):     # count each inside bond once, from its west / north end
                                            lo += ustar[((r, c), (rr, cc))]
                                            hi += ustar[((r, c), (rr, cc))]
                                    else:
                                        lo += min(self.pot[r][c][leg])
                                        hi += max(self.pot[r][c][leg])
                        if lo < SCALE_LO or hi > SCALE_HI:
                            return None
        vscale = sum(self.k[r][c] for r in range(R) for c in range(C) if occ[r][c]) + sum(ustar.values())
        self._cert = {'vscale': vscale, 'ustar': ustar}
        return self._cert

    def total_scale(self):
        return self.certificate()['vscale']

    def spread(self):
        """largest within-tensor spread (in bits) of the potentials"""
        best = 0
        for r in range(self.R):
            for c in range(self.C):
                if self.mant[r][c] is not None:
                    best = max(best, sum(max(p) - min(p) for p in self.pot[r][c]))
        return best

    def T(self):
        base = Net.T(self)
        pot = [[None if self.pot[r][c] is None else [list(p) for p in reversed(self.pot[r][c])]
                for r in range(self.R)] for c in range(self.C)]
        return GNet(base.R, base.C, base.mant, base.k, pot)

    def to_json(self):
        d = Net.to_json(self)
        d['graded'] = True
        for r in range(self.R):
            for c in range(self.C):
                if d['sites'][r][c] is not None:
                    d['sites'][r][c]['leg_exp2'] = dict(zip(LEGS, self.pot[r][c]))
                    d['sites'][r][c]['entry'] = 'mantissa[n,e,s,w] * 2^(exp2 + n[n] + e[e] + s[s] + w[w])'
        return d

    @staticmethod
    def from_json(d):
        base = Net.from_json(d)
        pot = [[None if d['sites'][r][c] is None else [list(d['sites'][r][c]['leg_exp2'][l]) for l in LEGS]
                for c in range(base.C)] for r in range(base.R)]
        return GNet(base.R, base.C, base.mant, base.k, pot)


# -----------------------------------------------------------------------------------------------------------------
def _mag(rng, top):
    return rng.choice([rng.randint(1, 30), rng.randint(30, 70), rng.randint(61, 130), rng.randint(100, 300),
                       rng.randint(100, max(101, top))])


def gen_graded(rng, R, C):
    """random graded network (see module docstring) or None"""
    for _ in range(30):
        net = gen_net(rng, R, C, full=(rng.random() < 0.5), style=rng.choice(['ones', 'int', 'int', 'pow2', 'sparse']), cap=24)
        if not any(d > 1 for (_a, _b, d) in net.bonds()):
            continue
        if rng.random() < 0.6:     # mostly positive mantissas: no cancellation, the value is rarely zero
            for row in net.mant:
                for m in row:
                    if m is not None:
                        np.abs(m, out=m)
                        if rng.random() < 0.7:
                            m[m == 0] = 1
        base_mant = [[None if m is None else m.copy() for m in row] for row in net.mant]
        for _try in range(12):
            top = rng.choice([150, 300, 450, 600])
            mant = [[None if m is None else m.copy() for m in row] for row in base_mant]
            pot = [[None if m is None else [[0] * m.shape[leg] for leg in range(4)] for m in row] for row in mant]
            k = [[0] * C for _ in range(R)]
            n_graded = 0
            for (a, b, d) in net.bonds():
                if d < 2 or rng.random() < 0.2:
                    continue
                (r, c, la), (r2, c2, lb) = a, b
                if rng.random() < 0.5:
                    (r, c, la), (r2, c2, lb) = (r2, c2, lb), (r, c, la)
                n_graded += 1
                if rng.random() < 0.5:
                    # gauge: slice i of one side * 2^g_i, of the other * 2^-g_i
                    g = [_mag(rng, top) * rng.choice([-1, 1]) for _i in range(d)]
                    if rng.random() < 0.3:
                        g[rng.randrange(d)] = 0
                    pot[r][c][la] = g
                    pot[r2][c2][lb] = [-x for x in g]
                else:
                    # select (decoder-like): side A carries powers of p = 2^-s, side B selects one class
                    s = rng.randint(30, 60) if rng.random() < 0.7 else rng.randint(60, 250)
                    js = [rng.randint(0, 3) for _i in range(d)]
                    if len(set(js)) == 1:
                        js[rng.randrange(d)] += 1
                    pa = [-s * j for j in js]
                    pb = [0] * d if rng.random() < 0.6 else [rng.choice([0, 0, _mag(rng, top // 2) * rng.choice([-1, 1])])
                                                             for _i in range(d)]
                    u = [x + y for x, y in zip(pa, pb)]
                    i0 = pa.index(min(pa)) if rng.random() < 0.6 else rng.randrange(d)
                    pot[r][c][la], pot[r2][c2][lb] = pa, pb
                    for i in range(d):
                        if u[i] != u[i0]:
                            (zr, zc, zl) = (r2, c2, lb) if rng.random() < 0.75 else (r, c, la)
                            np.moveaxis(mant[zr][zc], zl, 0)[i] = 0
            if not n_graded:
                continue
            for r in range(R):
                for c in range(C):
                    if mant[r][c] is not None and rng.random() < 0.3:
                        k[r][c] = rng.randint(-40, 40)
            g = GNet(R, C, mant, k, pot)
            if g.certificate() is not None and g.spread() > 0:
                return g
    return None


def _model_lines(tt, net, exact, rep, req, exp):
    """correspondence with the extracted engine on the mantissas (full sweeps, both directions, and the spec value)"""
    from harness.common import exc_class
    tn = net.build()
    enc, tscale = net.enc(), net.total_scale()
    if model_cost(net, range(net.C)) <= 400000:
        for s in (None, -1):
            try:
                res = tt.mps2d.contract(tn, step=s)
            except Exception as e:  # noqa
                res = 'ERR ' + exc_class(e)
            req.append('contract %s _ _ _ _ %s _' % (enc, opt(s)))
            exp.append(('contract(graded)', dict(rep, step=s), canon_contract(res, net, range(net.C))))
        if spec_cost(net) <= 60000:
            req.append('value %d %s' % (net.R, enc))
            exp.append(('value(spec, graded)', rep, hexint(exact, tscale)))


def run(ctx):
    from qecsim import tensortools as tt
    rng = ctx.rng
    req, exp = [], []
    ctx.rule += ('; plus the same histories on GRADED networks 1x2..4x4 (within-tensor magnitude spread: every leg index '
                 'carries its own power of two - gauge pairs 2^g_i / 2^-g_i on a bond, |g_i| up to 600, and decoder-like '
                 'bonds with (1, p, p^2, p^3), p = 2^-30..2^-250, whose other end has zero slices so that one class of '
                 '(mostly the small) entries carries the whole value; exactness certificate checked per network and the '
                 'exact value cross-checked by rational arithmetic); plus positive real networks with entries '
                 'log-uniform over up to 300 binary orders inside one tensor and decoder networks at p = 1e-6..1e-12 '
                 '(no truncation, all sweeps, 1e-9 relative)')
    ctx.trusted.append('graded networks: that cancelling per-index factors on the two ends of every bond leave the value, both '
                       'sweeps and every split unchanged is c11_value_gauge / c11_sweep_exact_gauged / c11_split_gauged (any '
                       'ring, any size); NOT covered by a theorem: bonds whose factors do not cancel but whose non-matching '
                       'indices have a zero slice on one end (decoder-like bonds), and that binary64 arithmetic is exact on '
                       'these networks (argument in harness/c11_graded.py: all nonzero terms of a block entry share one power '
                       'of two) - both are checked per network by an exact rational evaluation of the float network')

    # ---- (a)+(b) graded networks ------------------------------------------------------------------------------
    n_nets = ctx.pick(260, 1500)
    made = nonzero = 0
    for it in range(n_nets):
        R, C = rng.randint(1, 4), rng.randint(1, 4)
        if R * C < 2:
            continue
        net = gen_graded(rng, R, C)
        if net is None:
            continue
        made += 1
        cert = net.certificate()
        mval = exact_mantissa_value(net)
        exact = Fraction(mval) * Fraction(2) ** cert['vscale']
        # independent of the grading argument: the float network evaluated as exact rationals
        if it % ctx.pick(2, 1) == 0 or made <= 20:
            if exact_fraction_value(net.build()) != exact:
                raise RuntimeError('graded-network oracle disagrees with exact rational evaluation (harness error): %s'
                                   % json.dumps(net.to_json())[:3000])
        nonzero += mval != 0
        spread = net.spread()
        ctx.count('graded' + json.dumps(net.to_json()['sites'])[:4000], mval != 0 and spread >= 61,
                  'graded net %dx%d%s' % (R, C, ' padded' if _is_padded(net) else ''),
                  {'regime': 'graded', 'rows': R, 'cols': C, 'largest_within_tensor_spread_bits': spread,
                   'value_exp2': cert['vscale'], 'mantissa_value': mval} if made == 5 else None)
        ops = history_ops(rng, R, C, ctx.pick(1, 5))
        run_history(ctx, tt, net, ops, 'graded', exact)
        if it % 3 == 0:
            _model_lines(tt, net, exact, {'net': net.to_json(), 'regime': 'graded'}, req, exp)
            nt = net.T()
            if nt.certificate() is None or nt.total_scale() != cert['vscale']:
                raise RuntimeError('transposed graded network loses its certificate (harness error)')
            _model_lines(tt, nt, exact, {'net': nt.to_json(), 'regime': 'graded', 'transposed': True}, req, exp)
    ctx.extra['graded_nets'] = made
    ctx.extra['graded_nets_nonzero_value'] = nonzero

    # ---- (c) positive real entries, wide spread inside each tensor, no truncation -----------------------------
    run_positive(ctx, tt)

    out = ctx.model('c11', req, timeout=900)
    for (fn, inp, impl), m in zip(exp, out):
        ctx.cmp(fn, inp, impl, m)
    ctx.extra['model_requests_round4'] = len(req)


# -----------------------------------------------------------------------------------------------------------------
def _sweeps(tt, arrs, kind):
    """every sweep / split of C11 with one no-op truncation setting; name -> value (mpf) or 'ERR ...'"""
    from harness.c11_extra import _noop_kwargs
    from harness.common import exc_class
    R, C = arrs.shape
    kw = _noop_kwargs(kind, arrs.shape)
    kwT = dict(kw)
    if 'mask' in kwT:
        kwT['mask'] = kwT['mask'].transpose()
    vals = {}

    def put(name, f):
        try:
            vals[name] = f()
        except Exception as e:  # noqa
            vals[name] = 'ERR ' + exc_class(e) + ': ' + str(e)[:80]
    put('forward', lambda: tt.mps2d.contract(arrs, **kw))
    put('reverse', lambda: tt.mps2d.contract(arrs, step=-1, **kw))
    tnT = tt.mps2d.transpose(arrs)
    put('by-rows', lambda: tt.mps2d.contract(tnT, **kwT))
    put('by-rows-reverse', lambda: tt.mps2d.contract(tnT, step=-1, **kwT))

    def split(tn, c, kw):
        L, mL = tt.mps2d.contract(tn, stop=c, **kw)
        Rr, mR = tt.mps2d.contract(tn, start=-1, stop=c - 1, step=-1, **kw)
        return tt.mps.inner_product(L, Rr) * mL * mR
    for c in range(1, C):
        put('split@%d' % c, lambda c=c: split(arrs, c, kw))
    for c in range(1, R):
        put('by-rows-split@%d' % c, lambda c=c: split(tnT, c, kwT))
    return vals


def real_json(arrs):
    R, C = arrs.shape
    return [[None if arrs[r, c] is None else {'shape': list(arrs[r, c].shape), 'hex': [float(v).hex() for v in arrs[r, c].flatten()]}
             for c in range(C)] for r in range(R)]


def real_from_json(d):
    R, C = len(d), len(d[0])
    arrs = np.empty((R, C), dtype=object)
    for r in range(R):
        for c in range(C):
            arrs[r, c] = None if d[r][c] is None else \
                np.array([float.fromhex(h) for h in d[r][c]['hex']], dtype=np.float64).reshape(d[r][c]['shape'])
    return arrs


def check_positive(ctx, tt, arrs, kind, label, key):
    exact = exact_fraction_value(arrs)
    bad = []
    vals = _sweeps(tt, arrs, kind)
    for name, v in vals.items():
        ctx.count(None, False, 'positive-spread ' + name.split('@')[0])
        f = None if isinstance(v, str) else to_frac(v)
        if f is None or abs(f - exact) > Fraction(1, 10 ** 9) * abs(exact):
            bad.append((name, str(v)))
    nrep = ctx.extra.setdefault('round4_violation_records', {})
    if bad:
        nrep[key] = nrep.get(key, 0) + 1
    if bad and nrep[key] <= 20:     # records carry the whole network: keep their number bounded
        ctx.violation(key, '%s: untruncated contraction of a network of POSITIVE entries (no cancellation) differs from the '
                      'exact rational value by > 1e-9 relative: %s' % (label, ', '.join('%s=%s' % b for b in bad[:6])),
                      {'positive_real_net': real_json(arrs), 'kind': kind, 'exact': '%.17g' % float(exact) if exact else '0',
                       'bad': bad[:12]})
    return exact


def run_positive(ctx, tt):
    from harness.c11 import gen_occ
    from harness.c11_extra import NOOP_KINDS
    rng = ctx.rng
    for it in range(ctx.pick(120, 1200)):
        R, C = rng.randint(1, 4), rng.randint(2, 4)
        occ = gen_occ(rng, R, C, rng.random() < 0.6)
        vd = [[rng.choice([1, 2, 2, 3]) if (r + 1 < R and occ[r][c] and occ[r + 1][c]) else 1 for c in range(C)] for r in range(R)]
        hd = [[rng.choice([1, 2, 2, 3]) if (c + 1 < C and occ[r][c] and occ[r][c + 1]) else 1 for c in range(C)] for r in range(R)]
        nsite = sum(sum(row) for row in occ)
        span = rng.choice([20, 70, 70, 150, 300])         # binary orders inside one tensor
        span = min(span, 900 // max(nsite, 1))            # the smallest possible product stays a normal number
        arrs = np.empty((R, C), dtype=object)
        for r in range(R):
            for c in range(C):
                if not occ[r][c]:
                    arrs[r, c] = None
                    continue
                shape = (vd[r - 1][c] if r > 0 else 1, hd[r][c], vd[r][c], hd[r][c - 1] if c > 0 else 1)
                vals = [rng.uniform(0.5, 1.0) * 2.0 ** (-rng.randint(0, span) if rng.random() < 0.7 else 0)
                        for _ in range(int(np.prod(shape)))]
                if rng.random() < 0.3:
                    vals = [0.0 if rng.random() < 0.3 else v for v in vals]
                arrs[r, c] = np.array(vals, dtype=np.float64).reshape(shape)
        exact = check_positive(ctx, tt, arrs, rng.choice(NOOP_KINDS), 'random positive network', 'positive-spread-value')
        ctx.count('pos' + json.dumps(real_json(arrs))[:2000], span >= 61, 'positive-spread net',
                  {'regime': 'positive-spread', 'rows': R, 'cols': C, 'binary_orders_inside_one_tensor': span,
                   'exact_value': '%.6g' % float(exact)} if it == 3 and exact is not None else None)
    # decoder networks at very small error probabilities (built by the implementation's decoder, evaluated exactly here)
    try:
        from qecsim.models.planar import PlanarCode, PlanarMPSDecoder
        from qecsim.models.generic import DepolarizingErrorModel, BitPhaseFlipErrorModel
    except Exception:  # noqa
        return
    tnc = PlanarMPSDecoder.TNC()
    for (rows, cols) in ctx.pick([(2, 2), (3, 3)], [(2, 2), (2, 3), (3, 2), (3, 3), (3, 4)]):
        code = PlanarCode(rows, cols)
        for em in (DepolarizingErrorModel(), BitPhaseFlipErrorModel()):
            for p in ctx.pick([1e-8, 1e-12], [1e-4, 1e-6, 1e-8, 1e-10, 1e-12]):
                pd = em.probability_distribution(p)
                for name, sample in (('I', code.new_pauli()), ('X', code.new_pauli().logical_x()),
                                     ('Z', code.new_pauli().logical_z()), ('Y', code.new_pauli().logical_x().logical_z())):
                    arrs = tnc.create_tn(pd, sample)
                    if any(t is not None and (np.asarray(t) < 0).any() for t in arrs.flatten()):
                        continue
                    ctx.count('dec%dx%d%s%g%s' % (rows, cols, em.label, p, name), True, 'decoder net small p')
                    check_positive(ctx, tt, arrs, 'none', 'planar %dx%d decoder network, %s p=%g, sample logical %s'
                                   % (rows, cols, em.label, p, name), 'positive-spread-value')


def replay_positive(rep):
    from qecsim import tensortools as tt
    arrs = real_from_json(rep['positive_real_net'])
    exact = exact_fraction_value(arrs)
    print('exact rational value: %.17g' % float(exact))
    bad = False
    for name, v in _sweeps(tt, arrs, rep.get('kind', 'none')).items():
        f = None if isinstance(v, str) else to_frac(v)
        wrong = f is None or abs(f - exact) > Fraction(1, 10 ** 9) * abs(exact)
        print('%-20s %s%s' % (name, v, '   <-- WRONG' if wrong else ''))
        bad = bad or wrong
    print('REPRODUCED' if bad else 'not reproduced')
    return 1 if bad else 0
