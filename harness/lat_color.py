"""Colour 6.6.6 family for C07 / C08 (called from harness/c07.py, c08.py).

check_c07(ctx): exact matrices for every odd size, the hand-modelled float formula of
Color666Pauli._flatten_site_index tied on every site of every size (and on a sweep of large rows),
lattice-Pauli API, constructor stream, and the property evaluated directly on the implementation's matrices.
check_c08(ctx): advertised d against an exhaustive CSS search on the implementation's matrices."""
import numpy as np

from harness.common import bitstr, rowsstr, exc_class
from harness.lat_rotplanar import (ENGINE, guard, direct_code_checks, direct_flatten_checks, direct_distance_check,
                                   ctor_args, ctor_result, int_like, kernel_code_items, kernel_shard, idxs)

FAM = 'color666'


def _sizes(hi):
    return list(range(3, hi + 1, 2))


def _sites(code):
    b = code.bound
    return [(r, c) for r in range(b + 1) for c in range(r + 1) if (r + c) % 3 != 2]


def _plaqs(code):
    b = code.bound
    return [(r, c) for r in range(b + 1) for c in range(r + 1) if (r + c) % 3 == 2]


def _flat_int(r, c):
    """exact integer reading of the documented formula (rows 0..r-1 then columns 0..c-1 of row r)"""
    return ((2 * r + 1) ** 2 + 3) // 12 + (2 * c + (2 - r % 3)) // 3


def check_c07(ctx):
    from qecsim.models.color import Color666Code
    rng = ctx.rng
    hi = ctx.pick(13, 21)
    small = ctx.pick(7, 9)
    sizes = _sizes(hi)
    ctx.notes.append('color666 C07: every odd size 3..%d exact matrices; _flatten_site_index (float division) tied to the '
                     'rational model on every site of every size <= %d and on large rows; lattice-Pauli API on every '
                     'index of every size <= %d' % (hi, hi, small))
    req = []
    for s in sizes:
        req += ['c6_code %d' % s, 'c6_nkd %d' % s, 'c6_pidx %d' % s, 'c6_sidx %d' % s]
    out = ctx.model(ENGINE, req)
    kern = []
    req2, exp2 = [], []
    def whole(i, s):
        code = Color666Code(s)
        inp = 'Color666Code(%d)' % s
        m = out[4 * i].split(' ')
        m += [''] * (3 - len(m))
        ctx.cmp('color666.stabilizers', inp, rowsstr(code.stabilizers), m[0])
        ctx.cmp('color666.logical_xs', inp, rowsstr(code.logical_xs), m[1])
        ctx.cmp('color666.logical_zs', inp, rowsstr(code.logical_zs), m[2])
        ctx.cmp('color666.n_k_d', inp, ','.join(repr(v) for v in code.n_k_d), out[4 * i + 1])
        ctx.cmp('color666._plaquette_indices', inp, idxs(code._plaquette_indices), out[4 * i + 2])
        sites = _sites(code)
        impl_sites = [(r, c) for r in range(code.bound + 1) for c in range(code.bound + 1)
                      if code.is_in_bounds((r, c)) and code.is_site((r, c))]
        ctx.cmp('color666.sites', inp, idxs(impl_sites), out[4 * i + 3])
        if impl_sites != sites or [tuple(p) for p in code._plaquette_indices] != _plaqs(code):
            ctx.violation(FAM + '-index-sets', 'site / plaquette index sets are not the documented (r+c)%3 classes of '
                          'the triangle 0<=c<=r<=bound', {'family': FAM, 'size': s})
        direct_code_checks(ctx, FAM, s, code)
        if s <= small + 4:
            direct_flatten_checks(ctx, FAM, s, code, sites)
        else:
            p = code.new_pauli()
            if sorted(int(p._flatten_site_index(x)) for x in sites) != list(range(code.n_k_d[0])):
                ctx.violation(FAM + '-flatten', 'flatten is not a bijection from the in-bounds sites onto range(n)',
                              {'family': FAM, 'size': s})
        # flatten: implementation (float arithmetic) vs model on every site
        p = code.new_pauli()
        fl = [p._flatten_site_index(x) for x in sites]
        req2.append('c6_flats %s' % idxs(sites))
        exp2.append(('color666._flatten_site_index', inp, ','.join(repr(v) for v in fl)))
        req2.append('c6_flats_q %s' % idxs(sites))
        exp2.append(('color666._flatten_site_index(rational reading)', inp, ','.join(repr(v) for v in fl)))
        if fl != list(range(len(sites))):
            ctx.violation(FAM + '-flatten-order', 'flatten does not number the sites 0..n-1 in row-major order',
                          {'family': FAM, 'size': s})
        pi = code._plaquette_indices
        np_ = len(pi)
        for j in sorted(set([0, np_ - 1, rng.randrange(np_)])):
            for half in (0, 1):
                sy = np.zeros(2 * np_, dtype=int)
                sy[half * np_ + j] = 1
                got = code.syndrome_to_plaquette_indices(sy)
                want = ({tuple(pi[j])}, set()) if half == 0 else (set(), {tuple(pi[j])})
                if got != want:
                    ctx.violation(FAM + '-syndrome-index', 'syndrome bit does not map back to its plaquette / type',
                                  {'family': FAM, 'size': s, 'bit': half * np_ + j})
        ctx.count((FAM, s), True, 'color666-code', {'code': inp, 'n_k_d': list(code.n_k_d)} if s == 5 else None)
        if s in (3, 5, 7):
            kern.append(kernel_code_items('(color_code %d)' % s, code))

    for i, s in enumerate(sizes):
        if not guard(ctx, FAM, s, lambda: whole(i, s)):
            m = min(len(req2), len(exp2))
            del req2[m:], exp2[m:]
    # the float formula against exact integer arithmetic for large rows (2r+1)^2 up to ~2^52, and the model on them
    code = Color666Code(3)
    big = [10 ** k + d for k in range(2, 8) for d in range(0, 3)] + [2 ** 25 - 1 - d for d in range(3)] \
        + [rng.randrange(100, 2 ** 25) for _ in range(ctx.pick(200, 2000))]
    pairs = []
    for r in big:
        for c in (0, r // 2, r):
            if (r + c) % 3 == 2:
                c -= 1
            pairs.append((r, c))
    flats = []
    for (r, c) in pairs:
        v = int((((2 * r + 1) ** 2) / 3 + 1) // 4 + ((2 * c + (2 - r % 3)) // 3))   # the source expression
        flats.append(v)
        if v != _flat_int(r, c):
            ctx.violation(FAM + '-flatten-float', 'float evaluation of the flatten formula differs from exact arithmetic',
                          {'family': FAM, 'index': [r, c], 'float': v, 'exact': _flat_int(r, c)})
        ctx.count((FAM, 'bigflat', r, c), True, 'color666-flatten-large-row')
    req2.append('c6_flats %s' % idxs(pairs))
    exp2.append(('color666.flatten-formula(large rows)', 'rows up to 2^25', ','.join(str(v) for v in flats)))
    # ---- lattice Pauli API --------------------------------------------------------------------------
    def api(s):
        code = Color666Code(s)
        bd = code.bound
        n = code.n_k_d[0]
        inp = 'Color666Code(%d)' % s
        for r in range(-2, bd + 3):
            for c in range(-2, bd + 3):
                is_site = (r + c) % 3 != 2
                inb = 0 <= c <= r <= bd
                for op in 'XYZ':
                    try:
                        b = bitstr(code.new_pauli().site(op, (r, c)).to_bsf())
                    except Exception as e:  # noqa
                        b = 'ERR ' + exc_class(e)
                    req2.append('c6_ops %d S%s:%d:%d' % (s, op, r, c))
                    exp2.append(('color666.site', inp + ' %s %s' % (op, (r, c)), b))
                    if is_site != (not b.startswith('ERR')) or (not is_site and b != 'ERR IndexError'):
                        ctx.violation(FAM + '-site-index', 'site() must raise IndexError exactly on non-site indices',
                                      {'family': FAM, 'size': s, 'index': [r, c], 'result': b[:40]})
                    elif is_site and not inb and '1' in b:
                        ctx.violation(FAM + '-site-outside', 'site() outside the lattice changes the operator',
                                      {'family': FAM, 'size': s, 'index': [r, c]})
                for op in 'XZ' if (r + c) % 2 else 'XYZ':
                    try:
                        bb = code.new_pauli().plaquette(op, (r, c)).to_bsf()
                        b = bitstr(bb)
                    except Exception as e:  # noqa
                        bb = None
                        b = 'ERR ' + exc_class(e)
                    req2.append('c6_ops %d P%s:%d:%d' % (s, op, r, c))
                    exp2.append(('color666.plaquette', inp + ' %s %s' % (op, (r, c)), b))
                    if is_site:
                        if b != 'ERR IndexError':
                            ctx.violation(FAM + '-plaquette-index', 'plaquette() on a site index must raise IndexError',
                                          {'family': FAM, 'size': s, 'index': [r, c], 'result': b[:40]})
                    elif bb is None:
                        ctx.violation(FAM + '-plaquette-index', 'plaquette() raises on a plaquette index',
                                      {'family': FAM, 'size': s, 'index': [r, c], 'result': b})
                    else:
                        want = np.zeros(2 * n, dtype=int)
                        cnt = 0
                        for (sr, sc) in ((r - 1, c - 1), (r - 1, c), (r, c - 1), (r, c + 1), (r + 1, c), (r + 1, c + 1)):
                            if 0 <= sc <= sr <= bd:
                                f = _flat_int(sr, sc)
                                cnt += 1
                                if op in 'XY':
                                    want[f] ^= 1
                                if op in 'ZY':
                                    want[n + f] ^= 1
                        if not np.array_equal(bb, want) or (inb and cnt not in (4, 6)):
                            ctx.violation(FAM + '-plaquette-support', 'plaquette operator is not its documented support '
                                          '(six neighbours, in-lattice part)', {'family': FAM, 'size': s, 'index': [r, c],
                                                                                'op': op, 'bsf': b})
                ctx.count((FAM, 'idx', s, r, c), True, 'color666-site-plaquette')
                # virtual plaquette index (translated kernel; correspondence only)
                try:
                    v = code.virtual_plaquette_index((r, c))
                    v = '%d:%d' % (int(v[0]), int(v[1]))
                except Exception as e:  # noqa
                    v = 'ERR ' + exc_class(e)
                req2.append('c6_virt %d %d %d' % (s, r, c))
                exp2.append(('color666.virtual_plaquette_index', inp + ' %s' % ((r, c),), v))
        sites = _sites(code)
        plaqs = _plaqs(code)
        for _ in range(ctx.pick(3, 8)):
            ops, p = [], code.new_pauli()
            for _ in range(rng.randint(1, 8)):
                kind = rng.randrange(4)
                if kind == 0:
                    op = rng.choice('XYZ')
                    r, c = rng.choice(sites)
                    p.site(op, (r, c))
                    ops.append('S%s:%d:%d' % (op, r, c))
                elif kind == 1:
                    op = rng.choice('XYZ')
                    r, c = rng.choice(plaqs)
                    p.plaquette(op, (r, c))
                    ops.append('P%s:%d:%d' % (op, r, c))
                elif kind == 2:
                    p.logical_x()
                    ops.append('LX')
                else:
                    p.logical_z()
                    ops.append('LZ')
            b = p.to_bsf()
            bs = bitstr(b)
            req2.append('c6_ops %d %s' % (s, ','.join(ops)))
            exp2.append(('color666.script', inp + ' ' + ','.join(ops), bs))
            if not np.array_equal(code.new_pauli(b.copy()).to_bsf(), b) or not (p.copy() == p):
                ctx.violation(FAM + '-bsf-roundtrip', 'new_pauli(bsf).to_bsf() / copy() do not round-trip',
                              {'family': FAM, 'size': s, 'bsf': bs})
            for r in range(-1, bd + 2):
                for c in range(-1, bd + 2):
                    try:
                        o = p.operator((r, c))
                    except Exception as e:  # noqa
                        o = 'ERR ' + exc_class(e)
                    req2.append('c6_operator %d %s %d %d' % (s, bs, r, c))
                    exp2.append(('color666.operator', inp + ' %s %s' % (bs, (r, c)), o))
                    if (r + c) % 3 != 2 and 0 <= c <= r <= bd:
                        f = _flat_int(r, c)
                        if o != 'IXZY'[int(b[f]) + 2 * int(b[n + f])]:
                            ctx.violation(FAM + '-operator', 'operator(index) disagrees with to_bsf()',
                                          {'family': FAM, 'size': s, 'bsf': bs, 'index': [r, c], 'got': o})
                    elif o != 'ERR IndexError':
                        ctx.violation(FAM + '-operator', 'operator() off the sites must raise IndexError',
                                      {'family': FAM, 'size': s, 'index': [r, c], 'got': o})
            ctx.count((FAM, 'script', s, tuple(ops)), True, 'color666-script')
        pi = code._plaquette_indices
        for _ in range(3):
            sy = np.array([rng.randint(0, 1) for _ in range(2 * len(pi))])
            gx, gz = code.syndrome_to_plaquette_indices(sy)
            req2.append('c6_synd %d %s' % (s, bitstr(sy)))
            exp2.append(('color666.syndrome_to_plaquette_indices', inp + ' ' + bitstr(sy), idxs(sorted(gx)) + ' ' + idxs(sorted(gz))))

    for s in _sizes(small):
        if not guard(ctx, FAM, s, lambda: api(s)):
            m = min(len(req2), len(exp2))
            del req2[m:], exp2[m:]
    out = ctx.model(ENGINE, req2)
    for (fn, inp, impl), m in zip(exp2, out):
        ctx.cmp(fn, inp, impl, m)
    # ---- constructor stream --------------------------------------------------------------------------------
    req, exp = [], []
    for (a, ta) in ctor_args(ctx) + [(9, 'i9'), (21, 'i21'), (10 ** 30 + 3, 'i%d' % (10 ** 30 + 3))]:
        res = ctor_result(Color666Code, a)
        req.append('c6_ctor %s' % ta)
        exp.append((repr(a), res))
        documented = int_like(a) and a >= 3 and a % 2 == 1
        if (res == 'Ok') != documented or res not in ('Ok', 'ValueError', 'TypeError'):
            ctx.violation(FAM + '-ctor', 'constructor accepts / rejects outside the documented range or with an '
                          'undocumented exception', {'family': FAM, 'args': repr(a), 'result': res})
        ctx.count((FAM, 'ctor', ta, repr(a)), res != 'Ok', 'color666-ctor-' + res)
    out = ctx.model(ENGINE, req)
    for (inp, impl), m in zip(exp, out):
        ctx.cmp('color666.__init__', inp, impl, m)
    kernel_shard(ctx, 'color666', kern)


def check_c08(ctx):
    from qecsim.models.color import Color666Code
    for s in ctx.pick((3, 5), (3, 5, 7)):
        code = Color666Code(s)
        guard(ctx, FAM, s, lambda: direct_distance_check(ctx, FAM, s, code))
        ctx.count((FAM, 'dist', s), True, 'color666-distance', {'code': repr(code), 'n_k_d': list(code.n_k_d)} if s == 5 else None)
    for s in _sizes(ctx.pick(13, 21)):
        if s <= ctx.pick(5, 7):
            continue
        def lw():
            code = Color666Code(s)
            n, k, d = code.n_k_d
            w = [int(np.count_nonzero(v[:n] + v[n:])) for v in np.vstack([code.logical_xs, code.logical_zs])]
            if min(w) != d:
                ctx.violation(FAM + '-logical-weights', 'lightest supplied logical has weight %d, advertised d=%d' % (min(w), d),
                              {'family': FAM, 'size': s})

        guard(ctx, FAM, s, lw)
        ctx.count((FAM, 'lw', s), True, 'color666-logical-weight')
