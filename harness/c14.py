"""C14 — minimum-weight decoders correct every error within half the distance.
Real PlanarMWPMDecoder / ToricMWPMDecoder / NaiveDecoder on every error with X-part and Z-part of weight <= t;
"recovery xor error is a product of stabilizers" is decided by the extracted sound elimination in_span
(Core/Span.v: a positive answer carries checked coefficients) on the implementation's stabilizer matrix, and
independently in Python; the naive decoder's answer is compared with the model and its weight with an exhaustive
search.
Beyond the exhaustive small sweeps: (a) structured worst-case errors at larger sizes — every straight / L-shaped (all
shapes where cheap) chain of at most t steps at every position of every planar and toric lattice up to 11x11, square and
rectangular, both Pauli types; (b) the decoder's matching GRAPH (recorded at qecsim.graphtools.mwpm) against the model
graph of Decoders/MwpmGraph.v (complete on the defects, taxi-cab / periodic taxi-cab weights, boundary edges) on all
those sizes; (c) operation HISTORIES: one decoder object reused across sizes and codes in several orders, the caller
scribbling on every array it received or passed, next to fresh objects — the property must hold in every history."""
import itertools
import json
import os
import random
import subprocess

import numpy as np

from harness import c14_extra as cx
from harness import decoder_zoo as zoo
from harness.common import bitstr, rowsstr, coq_bits, coq_list, Ctx, COQ, BUILD

KNOWN_NAIVE = 'naive-mixed-xz-beyond-total-weight'


def placements(n, w):
    return itertools.combinations(range(n), w)


def part_errors(n, t, part):
    """all errors whose X-part (or Z-part) has weight <= t and whose other part is empty"""
    out = []
    for w in range(t + 1):
        for qs in placements(n, w):
            e = np.zeros(2 * n, dtype=int)
            for q in qs:
                e[q + (n if part == 'Z' else 0)] = 1
            out.append(e)
    return out


def gf2_in_span(rows, v):
    """independent GF(2) elimination (integers as bit sets)"""
    piv = {}
    for r in rows:
        x = int(''.join(map(str, r)), 2) if len(r) else 0
        while x:
            h = x.bit_length()
            if h in piv:
                x ^= piv[h]
            else:
                piv[h] = x
                break
    x = int(''.join(map(str, v)), 2) if len(v) else 0
    while x:
        h = x.bit_length()
        if h not in piv:
            return False
        x ^= piv[h]
    return True


class PySpan:
    """gf2_in_span with the elimination of the rows done once"""
    def __init__(self, rows):
        self.piv = {}
        for r in rows:
            x = int(''.join(map(str, r)), 2) if len(r) else 0
            while x:
                h = x.bit_length()
                if h in self.piv:
                    x ^= self.piv[h]
                else:
                    self.piv[h] = x
                    break

    def contains(self, v):
        return self.contains_int(int(''.join(map(str, v)), 2) if len(v) else 0)

    def contains_int(self, x):
        piv = self.piv
        while x:
            h = x.bit_length()
            if h not in piv:
                return False
            x ^= piv[h]
        return True


class Letters:
    """the Pauli string of an error, spelled out only when it is reported"""
    def __init__(self, e):
        self.e = e

    def __str__(self):
        return zoo.bsf_to_letters(self.e)


class Rep(dict):
    def plain(self):
        return {k: (str(v) if isinstance(v, Letters) else v) for k, v in self.items()}


def sym_commutes(a, M):
    """symplectic products of vector a with the rows of M, written out (not paulitools.bsp)"""
    n = len(a) // 2
    return (M[:, n:] @ a[:n] + M[:, :n] @ a[n:]) % 2


def min_weight_table(stabs, n):
    """exhaustive: least weight of an operator for every syndrome (n <= 10)"""
    m = stabs.shape[0]
    best = {}
    # enumerate all 4^n operators in chunks as letter codes
    total = 4 ** n
    chunk = 1 << 18
    for start in range(0, total, chunk):
        idx = np.arange(start, min(total, start + chunk), dtype=np.int64)
        codes = np.zeros((len(idx), n), dtype=np.int8)
        x = idx.copy()
        for q in range(n):
            codes[:, q] = x % 4
            x //= 4
        xs = (codes == 1) | (codes == 3)
        zs = (codes == 2) | (codes == 3)
        wt = (codes != 0).sum(axis=1)
        syn = (xs.astype(np.int32) @ stabs[:, n:].T + zs.astype(np.int32) @ stabs[:, :n].T) % 2
        keys = syn @ (1 << np.arange(m, dtype=np.int64))
        order = np.argsort(wt, kind='stable')
        ks, first = np.unique(keys[order], return_index=True)
        for k, f in zip(ks.tolist(), first.tolist()):
            w = int(wt[order][f])
            if k not in best or w < best[k]:
                best[k] = w
    return best


GRAPH_V = os.path.join(COQ, 'theories', 'Decoders', 'MwpmGraph.v')


def ensure_graph_model(ctx):
    """Decoders/MwpmGraph.v (the model of the matching graph) compiled against the current development — recompiled,
    under the build lock, when a library it imports is newer — its theorems registered as obligations, and the engine
    c14g extracted from it."""
    import fcntl
    import re
    vo = GRAPH_V[:-2] + '.vo'
    deps = [os.path.join(COQ, 'theories', d) for d in ('Decoders/PlanarMwpm.vo', 'Decoders/ToricMwpm.vo', 'Lattice/PlanarAll.vo',
                                                        'Lattice/ToricAll.vo', 'Generated/LatticeArith.vo')]
    log = ''
    lock = open(os.path.join(BUILD, '.make.lock'), 'w')
    fcntl.flock(lock, fcntl.LOCK_EX)
    try:
        newest = max([os.path.getmtime(GRAPH_V)] + [os.path.getmtime(d) for d in deps if os.path.exists(d)])
        if not os.path.exists(vo) or os.path.getmtime(vo) < newest:
            pr = subprocess.run(['timeout', '900', 'coqc', '-Q', 'theories', 'QV', 'theories/Decoders/MwpmGraph.v'], cwd=COQ,
                                capture_output=True, text=True)
            log = pr.stdout + pr.stderr
        ok = os.path.exists(vo) and os.path.getmtime(vo) >= newest
        exe = os.path.join(BUILD, 'qmodel_c14g')
        srcs = [GRAPH_V, os.path.join(COQ, 'extract', 'ExtractC14G.v'), os.path.join(COQ, 'extract', 'drv_c14g.ml')]
        if ok and (not os.path.exists(exe) or os.path.getmtime(exe) < max(os.path.getmtime(f) for f in srcs)):
            pr = subprocess.run(['./build_engines.sh', 'c14g'], cwd=os.path.dirname(BUILD), capture_output=True, text=True)
            log += pr.stdout + pr.stderr
    finally:
        fcntl.flock(lock, fcntl.LOCK_UN)
        lock.close()
    text = open(GRAPH_V).read()
    bad = re.search(r'\b(Admitted|admit|Axiom|Parameter|Conjecture)\b', re.sub(r'\(\*.*?\*\)', '', text, flags=re.S))
    ctx.obligation('Decoders/MwpmGraph.v compiled against the current development (theorems re-exported in Props/C14.v)', ok and not bad, log)
    ctx.obligation('model engine c14g built from Decoders/MwpmGraph.v', os.path.exists(os.path.join(BUILD, 'qmodel_c14g')), log)
    return ok


def lattice_n(fam, sz):
    return 2 * sz[0] * sz[1] if fam == 'toric' else sz[0] * sz[1] + (sz[0] - 1) * (sz[1] - 1)


HIST_SIZES = {
    True: {'planar': [(2, 2), (3, 3), (3, 5), (5, 3), (4, 4), (5, 5), (5, 7), (7, 7), (9, 9)],
           'toric': [(2, 2), (3, 3), (3, 4), (4, 4), (5, 4), (5, 5), (7, 7), (6, 9), (9, 9)]},
    False: {'planar': [(2, 2), (2, 3), (3, 3), (3, 5), (5, 3), (4, 4), (4, 5), (5, 5), (5, 7), (7, 5), (6, 6), (7, 7), (7, 9),
                       (8, 8), (9, 9), (9, 11), (11, 11)],
            'toric': [(2, 2), (2, 3), (3, 3), (3, 4), (4, 3), (4, 4), (5, 4), (4, 5), (5, 5), (3, 7), (7, 7), (6, 9), (9, 6),
                      (8, 8), (9, 9), (10, 11), (11, 11)]}}
NAIVE_HIST = [('five', ()), ('planar', (2, 2)), ('steane', ()), ('toric', (2, 2)), ('rotatedplanar', (3, 3)), ('color666', (3,)),
              ('planar', (2, 3)), ('rotatedtoric', (2, 4))]


def build_histories(hseed, quick):
    """the operation histories, a deterministic function of (hseed, tier): [(decoder spec, order name, [(code, error)])]"""
    hr = random.Random(hseed)
    cap = 240 if quick else 600
    out = []
    for fam, dname in (('planar', 'PlanarMWPMDecoder'), ('toric', 'ToricMWPMDecoder')):
        per_code = []
        for sz in sorted(HIST_SIZES[quick][fam], key=lambda z: (z[0] * z[1], z)):
            n = lattice_n(fam, sz)
            t = (min(sz) - 1) // 2
            pool = cx.chain_errors(fam, sz, t, 1)
            if len(pool) > cap // 3:
                pool = hr.sample(pool, cap // 3)
            pool += cx.multi_chain_errors(hr, fam, sz, t, cap // 3)
            for _ in range(cap - len(pool)):
                e = np.zeros(2 * n, dtype=int)
                for off in hr.choice(((0,), (n,), (0, n))):
                    for q in hr.sample(range(n), hr.choice((t, t, hr.randint(0, t)))):
                        e[off + q] = 1
                pool.append(bitstr(e))
            hr.shuffle(pool)
            per_code.append(((fam, tuple(sz)), pool))
        for name, items in cx.orders(hr, per_code):
            out.append(((dname, ()), name, items))
    per_code = []
    for cs in NAIVE_HIST:
        n = zoo.make_code(cs).n_k_d[0]
        pool = ['0' * (2 * n)]
        for q in range(n):
            for x, z in ((1, 0), (0, 1), (1, 1)):
                e = np.zeros(2 * n, dtype=int)
                e[q], e[n + q] = x, z
                pool.append(bitstr(e))
        per_code.append((cs, hr.sample(pool, min(len(pool), 12 if quick else 31))))
    for name, items in cx.orders(hr, per_code):
        out.append((('NaiveDecoder', (10,)), name, items))
    return out


def chain_sizes(ctx):
    """(size, max_turns) for the chain sweeps: every size up to 7x7 with every walk shape; beyond, up to 11x11: quick =
    9x9, 11x11, 7x11, 11x7 and a seed-dependent choice of rectangular sizes, straight and L-shaped; thorough = all"""
    small = [(r, c) for r in range(3, 8) for c in range(3, 8)]
    big = [(r, c) for r in range(3, 12) for c in range(3, 12) if max(r, c) > 7]
    if ctx.quick:
        fixed = [(9, 9), (11, 11), (7, 11), (11, 7)]
        rest = [z for z in big if z not in fixed]
        return {'planar': [(z, 99) for z in small] + [(z, 1) for z in fixed + ctx.rng.sample(rest, 4)],
                'toric': [(z, 99) for z in small] + [(z, 1) for z in fixed[:2] + ctx.rng.sample(rest, 3)]}
    return {'planar': [(z, 99) for z in small + big], 'toric': [(z, 99 if min(z) <= 10 else 2) for z in small + big]}


def run(ctx):
    import logging
    logging.getLogger('qecsim').setLevel(logging.CRITICAL)
    from qecsim import paulitools as pt
    rng = ctx.rng
    quick = ctx.quick
    hseed = rng.getrandbits(48)         # first draw: replay() regenerates the histories from it
    import time
    phase = {}
    tp = [time.time()]

    def mark(name):
        phase[name] = round(time.time() - tp[0], 1)
        tp[0] = time.time()
    ctx.rule = ('planar and toric sizes up to 5x5 (thorough: to 7x7): every error whose X-part is any placement of weight '
                '<= t with empty Z-part, every such Z-part error, every X-part x Z-part combination when there are <= %d of '
                'them, else %d random combinations (the decoders treat the two lattices independently); CHAINS: every '
                'self-avoiding plaquette-lattice walk of <= t steps from every plaquette (virtual boundary plaquettes '
                'included), X and Z on it (plus sampled unions of 2-3 separate chains of one type, total weight <= t), every shape on all sizes to 7x7, straight and L-shaped (thorough: every shape) on '
                'sizes to 11x11 incl. rectangular (quick: a seed-dependent subset of the rectangular ones); GRAPH: the graph '
                'handed to graphtools.mwpm vs the model graph on a sample of all those decodes; HISTORIES: one decoder object '
                'over 9 (thorough 17) sizes in 6 orders (ascending, descending, interleaved, shuffled, each-twice, ping-pong), '
                'caller scribbling on returned arrays; naive decoder on the basic codes and the lattices with n <= 10: every '
                'error with X- and Z-part of weight <= t, every syndrome for minimality, and reused across codes. '
                'nontrivial = the error creates a defect on a boundary row/column (planar) or on '
                'the first/last row/column (toric, wrap-around)' % (ctx.pick(700, 1300), ctx.pick(300, 2000)))
    ctx.props_obligations()
    graph_ok = ensure_graph_model(ctx)
    mark('proofs')
    if quick:
        planar = [(2, 2), (3, 3), (3, 4), (4, 3), (3, 5), (4, 4), (5, 4), (5, 5)]
        toric = [(2, 2), (3, 3), (3, 4), (4, 4), (5, 4), (5, 5)]
    else:
        planar = [(2, 2), (2, 3), (3, 3), (3, 4), (4, 3), (3, 5), (5, 3), (4, 4), (4, 5), (5, 4), (5, 5), (5, 6), (6, 6), (7, 7)]
        toric = [(2, 2), (3, 3), (3, 4), (4, 3), (4, 4), (4, 5), (5, 4), (5, 5), (5, 6), (6, 6), (7, 7)]
    full_cap = ctx.pick(700, 1300)
    nsamp = ctx.pick(300, 2000)
    jobs, meta, codes, mat_lines = [], {}, {}, []

    def reg(cs):
        if cs not in codes:
            code = zoo.make_code(cs)
            n = code.n_k_d[0]
            codes[cs] = (code, n, zoo.code_name(cs))
            mat_lines.append('mat %s %s' % (zoo.code_name(cs), rowsstr(code.stabilizers)))
        return codes[cs]

    def add_jobs(cs, ds, errs, kind, graph_every=0):
        es = [e if isinstance(e, str) else bitstr(e) for e in errs]
        for ch in zoo.chunks(es, 200):
            jid = len(jobs)
            jobs.append({'id': jid, 'code': cs, 'decoder': ds, 'errors': ch, 'items': [(cs, e) for e in ch],
                         'graph_every': graph_every})
            meta[jid] = kind

    # ---- 1. MWPM decoders ----
    for fam, dname, szs in (('planar', 'PlanarMWPMDecoder', planar), ('toric', 'ToricMWPMDecoder', toric)):
        for sz in szs:
            cs = (fam, tuple(sz))
            code, n, cname = reg(cs)
            d = code.n_k_d[2]
            if d != min(sz):
                ctx.violation('distance', 'n_k_d reports d=%r, expected min(rows, cols)' % (d,), {'code': cname})
            t = (d - 1) // 2
            tt = t if (quick or n <= 50) else min(t, 2)       # exhaustive placements up to weight tt
            xs = part_errors(n, tt, 'X')
            zs = part_errors(n, tt, 'Z')
            errs = list(xs) + list(zs[1:])
            if len(xs) * len(zs) <= full_cap:
                errs = [x ^ z for x in xs for z in zs]
                mode = 'all-combinations'
            else:
                for _ in range(nsamp):
                    e = np.zeros(2 * n, dtype=int)
                    for off in (0, n):
                        for q in rng.sample(range(n), rng.randint(0, t)):
                            e[off + q] = 1
                    errs.append(e)
                mode = 'all-parts+sampled-combinations'
            add_jobs(cs, (dname, ()), errs, 'mwpm/' + mode, graph_every=ctx.pick(9, 5))
    # ---- 1b. chains: the extremal inputs of a matching decoder, on sizes to 11x11 ----
    csz = chain_sizes(ctx)
    for fam, dname in (('planar', 'PlanarMWPMDecoder'), ('toric', 'ToricMWPMDecoder')):
        for sz, turns in csz[fam]:
            cs = (fam, tuple(sz))
            code, n, cname = reg(cs)
            if n != lattice_n(fam, sz) or code.n_k_d[2] != min(sz):
                ctx.violation('distance', 'n_k_d reports %r, expected n=%d d=min(rows, cols)' % (code.n_k_d, lattice_n(fam, sz)),
                              {'code': cname})
            t = (min(sz) - 1) // 2
            add_jobs(cs, (dname, ()), cx.chain_errors(fam, sz, t, turns), 'mwpm/chains-%s' % ('any-shape' if turns > 2 else 'straight+L'),
                     graph_every=3 if n <= 85 else 7)
            add_jobs(cs, (dname, ()), cx.multi_chain_errors(rng, fam, sz, t, ctx.pick(120, 600)), 'mwpm/multi-chain', graph_every=2)
            sp = cx.spread_errors(rng, fam, sz, t, ctx.pick(150, 800))
            if sp:
                add_jobs(cs, (dname, ()), sp, 'mwpm/spread-boundary-interior', graph_every=4)
    # ---- 2. naive decoder, n <= 10 ----
    naive_codes = [('five', ()), ('steane', ()), ('planar', (2, 2)), ('planar', (2, 3)), ('toric', (2, 2)),
                   ('rotatedplanar', (3, 3)), ('color666', (3,)), ('rotatedtoric', (2, 2)), ('rotatedtoric', (2, 4))]
    if not quick:
        naive_codes += [('planar', (3, 2)), ('rotatedtoric', (4, 2))]
    for cs in naive_codes:
        code, n, cname = reg(cs)
        d = code.n_k_d[2]
        t = (d - 1) // 2
        xs = part_errors(n, t, 'X')
        zs = part_errors(n, t, 'Z')
        add_jobs(cs, ('NaiveDecoder', (10,)), [x ^ z for x in xs for z in zs], 'naive/within-t')
        basis = zoo.syndrome_space(code, 'XZ')
        if len(basis) <= ctx.pick(8, 10):
            add_jobs(cs, ('NaiveDecoder', (rng.choice([10, None, 0, n]),)), zoo.all_syndrome_errors(basis), 'naive/all-syndromes')
        else:
            add_jobs(cs, ('NaiveDecoder', (None,)), zoo.weighted_errors(rng, n, ctx.pick(3, 12))[:ctx.pick(40, 200)],
                     'naive/sampled-syndromes')
        # the max_qubits guard
        add_jobs(cs, ('NaiveDecoder', (n - 1,)), [np.zeros(2 * n, dtype=int)], 'naive/guard')
    # ---- 3. histories: one decoder object over many codes and sizes ----
    histories = build_histories(hseed, quick)
    hjobs = [{'id': 'h%d' % h, 'decoder': ds, 'items': items, 'graph_every': 11, 'scribble': True}
             for h, (ds, name, items) in enumerate(histories)]

    mark('generate')
    allres = zoo.run_pool(cx.run_job, hjobs + jobs)
    mark('decode')
    hres, results = allres[:len(hjobs)], allres[len(hjobs):]
    # a history's results regrouped per code (history order kept) so that they are evaluated like the fresh-object jobs
    for h, ((ds, name, items), res) in enumerate(zip(histories, hres)):
        if res.get('ctor_error') or len(res['results']) != len(items):
            ctx.violation('raised', '%s could not run history %s: %s' % (ds[0], name, res.get('ctor_error')), {'decoder': list(ds)})
            continue
        groups = {}
        for pos, ((cs, es), r) in enumerate(zip(items, res['results'])):
            groups.setdefault(cs, []).append((pos, es, r))
        for cs, lst in groups.items():
            reg(cs)
            jid = len(jobs)
            jobs.append({'id': jid, 'code': cs, 'decoder': ds, 'errors': [es for _, es, _ in lst],
                         'hist': (h, name, [pos for pos, _, _ in lst])})
            results.append({'id': jid, 'results': [r for _, _, r in lst]})
            meta[jid] = '%s/history/%s' % ('naive' if ds[0] == 'NaiveDecoder' else 'mwpm', name)

    # ---- model requests ----
    req = []
    look = {}
    greq, glook = [], {}
    for job, res in zip(jobs, results):
        code, n, cname = codes[job['code']]
        for k, r in enumerate(res['results']):
            es = job['errors'][k]
            if r.get('recovery') is not None and len(r['recovery']) == 2 * n and set(r['recovery']) <= {'0', '1'}:
                v = ''.join('1' if a != b else '0' for a, b in zip(r['recovery'], es))
                look[(job['id'], k, 'span')] = len(req)
                req.append('spanb %s %d %s' % (cname, 2 * n, v))
            if job['decoder'][0] == 'NaiveDecoder':
                mq = job['decoder'][1][0]
                look[(job['id'], k, 'naive')] = len(req)
                req.append('naive %s %d %s %s' % (cname, n, '_' if mq is None else str(mq), r['syndrome']))
            if r.get('graphs') is not None and job['code'][0] in ('planar', 'toric') and job['decoder'][0] != 'NaiveDecoder':
                glook[(job['id'], k)] = len(greq)
                greq.append('%sgraph %d %d %s' % (job['code'][0][0], job['code'][1][0], job['code'][1][1], r['syndrome']))
    out = zoo.model_parallel(ctx, 'dec', req, prefix=mat_lines)
    mark('model-span')
    gout = zoo.model_parallel(ctx, 'c14g', greq) if graph_ok else []
    mark('model-graph')

    # negative answers get a verified certificate: a stabilizer or logical l anticommuting with v (w = l with halves
    # swapped vanishes on every stabilizer, since l commutes with all of them, but not on v)
    neg_req, neg_look = [], {}
    for job, res in zip(jobs, results):
        code, n, cname = codes[job['code']]
        for k, r in enumerate(res['results']):
            key = (job['id'], k, 'span')
            if key in look and out[look[key]] == '_':
                v = np.array([int(c) for c in req[look[key]].split(' ')[-1]])
                for l in list(code.logicals) + list(code.stabilizers):
                    if sym_commutes(v, np.array([l]))[0]:
                        w = np.concatenate([l[n:], l[:n]])
                        neg_look[(job['id'], k)] = len(neg_req)
                        neg_req.append('nospan %s %s %s' % (cname, bitstr(w), bitstr(v)))
                        break
    neg_out = zoo.model_parallel(ctx, 'dec', neg_req, prefix=mat_lines) if neg_req else []
    ctx.extra['negative_answers_certified'] = sum(1 for x in neg_out if x == '1')
    ctx.extra['negative_answers'] = sum(1 for i in look if i[2] == 'span' and out[look[i]] == '_')

    mark('certificates')
    tables = {}
    spans = {}
    kern = []
    gkern = []
    shrunk = 0
    ngraph = 0
    for job, res in zip(jobs, results):
        cs, ds = job['code'], job['decoder']
        code, n, cname = codes[cs]
        kind = meta[job['id']]
        S, L = code.stabilizers, code.logicals
        if cs not in spans:
            spans[cs] = PySpan(S)
        d = code.n_k_d[2]
        t = (d - 1) // 2
        hist = job.get('hist')
        for k, r in enumerate(res['results']):
            es = job['errors'][k]
            e = (np.frombuffer(es.encode(), dtype=np.uint8) - 48).astype(int)
            xw, zw = int(e[:n].sum()), int(e[n:].sum())
            tw = int(np.count_nonzero(e[:n] | e[n:]))
            rep = Rep({'code': [cs[0], list(cs[1])], 'decoder': [ds[0], list(ds[1])], 'error': Letters(e),
                       'x_weight': xw, 'z_weight': zw, 't': t, 'outcome': r['outcome'], 'recovery': r.get('recovery')})
            if hist:
                rep['history'] = {'order': hist[1], 'index': hist[2][k], 'number': hist[0], 'hseed': hseed, 'tier': ctx.tier,
                                  'note': 'ONE decoder object decoded items 0..index of this history (other codes and sizes '
                                          'first); the caller overwrote every returned array'}
            if kind == 'naive/guard':
                ctx.count(None, False, kind)
                m_ = out[look[(job['id'], k, 'naive')]] if (job['id'], k, 'naive') in look else None
                impl = 'ERR ValueError' if r['outcome'].startswith('ERR ValueError') else r.get('recovery') or r['outcome']
                ctx.cmp('NaiveDecoder max_qubits guard', req[look[(job['id'], k, 'naive')]][:200], impl, m_)
                continue
            # boundary / wrap-around defects
            s = np.array([int(c) for c in r['syndrome']])
            nontriv = False
            if cs[0] in ('planar', 'toric') and s.any():
                for idx in code.syndrome_to_plaquette_indices(s):
                    rr, cc = idx[-2], idx[-1]
                    if cs[0] == 'planar':
                        br, bc = code.bounds
                        nontriv = nontriv or rr in (0, 1, br - 1, br) or cc in (0, 1, bc - 1, bc)
                    else:
                        nontriv = nontriv or rr in (0, cs[1][0] - 1) or cc in (0, cs[1][1] - 1)
            else:
                nontriv = tw >= 1
            ctx.count((cname, ds[0], es, hist[1] if hist else ''), nontriv, '%s/%s' % (kind, cs[0]),
                      {'code': cname, 'decoder': ds[0], 'error': str(rep['error']), 'recovery': r.get('recovery'), 't': t}
                      if (nontriv and xw >= 1 and zw >= 1 and 13 <= n <= 25 and len(ctx.samples) < 6) else None)
            ctx.hist['%s xw=%d zw=%d' % (ds[0][:6], xw, zw)] += 1
            # ---- the matching graph: recorded at graphtools.mwpm vs the model graph ----
            if (job['id'], k) in glook and gout:
                ngraph += 1
                impl_g = '|'.join(r['graphs'])
                model_g = '|'.join(cx.canon_model_graph(x) for x in gout[glook[(job['id'], k)]].split('|'))
                same = impl_g == model_g
                if not same:
                    ctx.cmp('%s MWPM matching graph (edges and weights, both lattices)' % cs[0],
                            dict(rep.plain(), graph_request=greq[glook[(job['id'], k)]][:120]), impl_g, model_g)
                if same and len(gkern) < 16 and 2 <= tw and n <= 113 and impl_g.count('>') >= 3 and (job['id'] + k) % 5 == 0:
                    gkern.append((cs, r['syndrome'], r['graphs']))
            within = xw <= t and zw <= t
            if r['outcome'] != 'ok' or r.get('recovery') is None or (job['id'], k, 'span') not in look:
                ctx.violation('raised', '%s on %s: %s' % (ds[0], cname, r['outcome'] if r['outcome'] != 'ok' else 'malformed recovery'), rep.plain())
                continue
            rec = (np.frombuffer(r['recovery'].encode(), dtype=np.uint8) - 48).astype(int)
            v = rec ^ e
            m_span = out[look[(job['id'], k, 'span')]]
            zero_syn = not sym_commutes(v, S).any()
            indep = zero_syn and not sym_commutes(v, L).any()
            indep2 = spans[cs].contains_int(int(r['recovery'], 2) ^ int(es, 2))
            if (indep, indep2) != (m_span != '_', m_span != '_'):
                ctx.cmp('in_span vs independent elimination / logical commutation', '%s %s' % (cname, bitstr(v)),
                        (indep, indep2), (m_span != '_', m_span != '_'))
            if m_span != '_':
                # the returned coefficients really combine the stabilizers to recovery xor error
                c = (np.frombuffer(m_span.encode(), dtype=np.uint8) - 48).astype(int) if m_span != '-' else np.zeros(0, dtype=int)
                comb = (c @ S) % 2 if len(c) else np.zeros(2 * n, dtype=int)
                if not np.array_equal(comb, v):
                    ctx.cmp('in_span coefficients', cname, 'do not combine to v', 'combine to v')
            corrected = m_span != '_'
            if not corrected:
                cert = neg_out[neg_look[(job['id'], k)]] if (job['id'], k) in neg_look else 'none'
                if cert != '1':
                    ctx.cmp('not_in_span_cert on a negative in_span answer', '%s %s' % (cname, bitstr(v)), cert, '1')
                rep['not_in_span_certificate'] = cert
                if hist and shrunk < 3 and (ds[0] != 'NaiveDecoder' or tw <= t) and within:
                    shrunk += 1
                    rep['prior'] = shrink_history(ds, histories[hist[0]][2], hist[2][k])
            if ds[0] == 'NaiveDecoder':
                # model correspondence (same scan order => the same operator) and minimality
                m_n = out[look[(job['id'], k, 'naive')]]
                ctx.cmp('NaiveDecoder.decode', req[look[(job['id'], k, 'naive')]][:200], r['recovery'], m_n)
                if n <= ctx.pick(9, 10):
                    if cs not in tables:
                        tables[cs] = min_weight_table(S, n)
                    key = int(s @ (1 << np.arange(len(s), dtype=np.int64)))
                    wrec = int(np.count_nonzero(rec[:n] | rec[n:]))
                    if tables[cs].get(key) != wrec:
                        ctx.violation('naive-not-minimum', 'naive recovery has weight %d but an operator of weight %r has the '
                                      'same syndrome (exhaustive search)' % (wrec, tables[cs].get(key)), rep.plain())
                if not zero_syn:
                    ctx.violation('naive-syndrome', 'naive recovery does not reproduce the syndrome', rep.plain())
                if (kind == 'naive/within-t' or hist) and within and not corrected:
                    if tw <= t:
                        ctx.violation('naive-not-corrected' + ('-reused-decoder' if hist else ''),
                                      'error of total weight %d <= t=%d not corrected by the naive '
                                      'decoder (recovery xor error is not in the stabilizer span)' % (tw, t), rep.plain())
                    elif not hist:
                        ctx.violation(KNOWN_NAIVE, 'naive decoder does not correct %s (X-part %d, Z-part %d, total weight %d '
                                      '> t=%d)' % (rep['error'], xw, zw, tw, t), rep.plain())
            else:
                if not zero_syn:
                    ctx.violation('mwpm-syndrome', '%s on %s: the recovery does not reproduce the syndrome' % (ds[0], cname), rep.plain())
                if within and not corrected:
                    ctx.violation('mwpm-not-corrected' + ('-reused-decoder' if hist else ''),
                                  '%s on %s%s: error with X-part %d and Z-part %d (t=%d) is not corrected: '
                                  'recovery xor error is not a product of stabilizers (in_span = None; independent check %s)'
                                  % (ds[0], cname, (' as item %d of the %s history of one decoder object' % (hist[2][k], hist[1]))
                                     if hist else '', xw, zw, t, indep), rep)
                if len(kern) < 30 and n <= 25 and tw >= 2 and corrected and not hist and (job['id'] + k) % 11 == 0:
                    kern.append((cs, bitstr(v), m_span))
    mark('evaluate')
    ctx.extra['phase_seconds'] = phase
    ctx.extra['decodes'] = sum(len(j['errors']) for j in jobs)
    ctx.extra['graphs_compared'] = ngraph
    ctx.extra['histories'] = ['%s/%s: %d decodes' % (ds[0], name, len(items)) for ds, name, items in histories]
    ctx.extra['chain_sizes'] = {fam: ['%dx%d' % z for z, _ in v] for fam, v in csz.items()}
    if graph_ok and not ngraph:
        ctx.obligation('matching graphs were recorded and compared', False, 'no graph compared')
    ctx.notes.append('in_span is sound for positive answers (checked coefficients); every negative answer is certified by '
                     'not_in_span_cert (a logical/stabilizer anticommuting with recovery xor error, c14_not_in_span_cert_sound) '
                     'and cross-checked by an independent elimination')
    ctx.notes.append('Blossom V backend absent: NetworkX matching only')

    # model's basic-code matrices are the implementation's
    o = ctx.model('dec', ['basic five', 'basic steane'])
    ctx.cmp('five_stabs', 'FiveQubitCode.stabilizers', rowsstr(zoo.make_code(('five', ())).stabilizers), o[0])
    ctx.cmp('steane_stabs', 'SteaneCode.stabilizers', rowsstr(zoo.make_code(('steane', ())).stabilizers), o[1])

    items = []
    for cs, v, coeffs in kern:
        code, n, cname = codes[cs]
        st = coq_list([coq_bits(row.tolist()) for row in code.stabilizers])
        items.append('(match in_span %d %s %s with Some c => beqv c %s | None => false end)'
                     % (2 * n, st, coq_bits([c == '1' for c in v]), coq_bits([c == '1' for c in coeffs])))
    text = ('From Coq Require Import List Bool Arith NArith.\nFrom QV Require Import Core.Bits Core.Span.\n'
            'Import ListNotations.\n'
            'Definition checks : list bool :=\n [' + ';\n  '.join(items) + '].\n'
            'Example corr : forallb (fun b => b) checks = true.\nProof. vm_compute. reflexivity. Qed.\n')
    ctx.kernel_cases('sample', text)
    ctx.extra['kernel_cases'] = len(items)

    # in-kernel shard: the recorded graphs are the model graphs (same edges up to orientation, same weights)
    if graph_ok and gkern:
        gi = []
        for cs, syn, graphs in gkern:
            sb = coq_bits([c == '1' for c in syn])
            for li, g in enumerate(graphs):
                ents = [] if g == '-' else g.split(';')
                if cs[0] == 'planar':
                    fmt = lambda a: '(%s, %s)' % tuple('(%s)' % x for x in a.split(':'))
                    mg = '%s %d %d %s' % ('primal_graph' if li == 0 else 'dual_graph', cs[1][0], cs[1][1], sb)
                    fn = 'same2'
                else:
                    fmt = lambda a: '(%s, %s, %s)' % tuple('(%s)' % x for x in a.split(':'))
                    mg = 'toric_graph %d %d %d %s' % (cs[1][0], cs[1][1], li, sb)
                    fn = 'same3'
                il = coq_list(['(%s, %s, (%s))' % (fmt(en.split('=')[0].split('>')[0]), fmt(en.split('=')[0].split('>')[1]),
                                                   en.split('=')[1]) for en in ents])
                gi.append('%s (%s) %s' % (fn, mg, il))
        text = ('From Coq Require Import List Bool ZArith NArith.\nFrom QV Require Import Core.Bits Core.Pauli Core.Symp Core.Code '
                'Lattice.Planar Lattice.Toric Decoders.PlanarMwpm Decoders.ToricMwpm Decoders.MwpmGraph.\nImport ListNotations.\n'
                'Open Scope Z_scope.\n'
                'Definition same {A} (eqb : A -> A -> bool) (g : list (A * A * option Z)) (impl : list (A * A * Z)) : bool :=\n'
                '  Nat.eqb (length g) (length impl) && forallb (fun e => let \'(a, b, w) := e in existsb (fun m => match m with\n'
                '    | (x, y, Some u) => ((eqb x a && eqb y b) || (eqb x b && eqb y a)) && (u =? w) | _ => false end) g) impl.\n'
                'Definition same2 := same zeqb2.\nDefinition same3 := same zeqb3.\n'
                'Definition checks : list bool :=\n [' + ';\n  '.join(gi) + '].\n'
                'Example corr : forallb (fun b => b) checks = true.\nProof. vm_compute. reflexivity. Qed.\n')
        ctx.kernel_cases('graph', text)
        ctx.extra['graph_kernel_cases'] = len(gi)


def _fails(ds, items):
    """does the LAST decode of this history (one decoder object) violate the property? decided on the implementation's
    output by the independent elimination"""
    res = cx.run_job({'id': 0, 'decoder': ds, 'items': items, 'scribble': True, 'no_alarm': True})['results']
    if len(res) != len(items):
        return True
    r, (cs, es) = res[-1], items[-1]
    code = zoo._code(cs)
    if r.get('outcome') != 'ok' or not r.get('recovery') or len(r['recovery']) != len(es):
        return True
    v = [int(a != b) for a, b in zip(r['recovery'], es)]
    return not PySpan(code.stabilizers).contains(v)


def shrink_history(ds, items, pos):
    """a short history that still fails at its last item: first the failing decode alone (fresh object), then with the
    earlier decodes on ONE other code only, then halving; [] = fails on a fresh object; None = only the full prefix"""
    last = items[pos]
    if _fails(ds, [last]):
        return []
    prefix = items[:pos]
    order = []
    for cs, _ in reversed(prefix):
        if cs not in order:
            order.append(cs)
    cand = None
    for cs in order[:12]:
        sub = [it for it in prefix if it[0] == cs]
        if _fails(ds, sub + [last]):
            cand = sub
            break
    if cand is None:
        if len(prefix) <= 4000 and _fails(ds, prefix + [last]):
            cand = prefix
        else:
            return None
    for _ in range(40):
        if len(cand) <= 1:
            break
        h = len(cand) // 2
        if _fails(ds, cand[:h] + [last]):
            cand = cand[:h]
        elif _fails(ds, cand[h:] + [last]):
            cand = cand[h:]
        else:
            break
    if len(cand) > 300:
        return None
    return [[[cs[0], list(cs[1])], zoo.bsf_to_letters(np.array([int(c) for c in es]))] for cs, es in cand]


def replay(path):
    d = json.load(open(path))
    r = d.get('replay', {})
    print(json.dumps(d, indent=1)[:2500])
    if 'code' not in r or 'error' not in r:
        return 0
    cs = (r['code'][0], tuple(r['code'][1]))
    ds = (r['decoder'][0], tuple(r['decoder'][1]))
    e = zoo.letters_to_bsf(r['error'])
    zoo._init_worker()
    items = [(cs, bitstr(e))]
    h = r.get('history')
    if r.get('prior') is not None:
        items = [((c[0], tuple(c[1])), bitstr(zoo.letters_to_bsf(le))) for c, le in r['prior']] + items
        print('history: %d earlier decodes by the same decoder object, then the failing one' % (len(items) - 1))
    elif h:
        hs = build_histories(h['hseed'], h['tier'] == 'quick')
        items = hs[h['number']][2][:h['index'] + 1]
        print('history %s regenerated: %d decodes by one decoder object' % (h['order'], len(items)))
    res = cx.run_job({'id': 0, 'decoder': ds, 'items': items, 'scribble': bool(h)})['results'][-1]
    print('outcome now:', res)
    code = zoo.make_code(cs)
    n = code.n_k_d[0]
    bad = 1
    if res.get('recovery') and len(res['recovery']) == 2 * n:
        v = ''.join('1' if a != b else '0' for a, b in zip(res['recovery'], bitstr(e)))
        exe = os.path.join(BUILD, 'qmodel_dec')
        p = subprocess.run([exe], input='mat c %s\nspan c %d %s\n' % (rowsstr(code.stabilizers), 2 * n, v), capture_output=True, text=True)
        o = p.stdout.split('\n')
        print('in_span(recovery xor error) =', o[1])
        bad = 1 if o[1] == '_' else 0
    print('REPRODUCED' if bad else 'not reproduced')
    return bad
