"""C14 — minimum-weight decoders correct every error within half the distance.
Real PlanarMWPMDecoder / ToricMWPMDecoder / NaiveDecoder on every error with X-part and Z-part of weight <= t;
"recovery xor error is a product of stabilizers" is decided by the extracted sound elimination in_span
(Core/Span.v: a positive answer carries checked coefficients) on the implementation's stabilizer matrix, and
independently in Python; the naive decoder's answer is compared with the model and its weight with an exhaustive
search."""
import itertools
import json

import numpy as np

from harness import decoder_zoo as zoo
from harness.common import bitstr, rowsstr, coq_bits, coq_list, Ctx

KNOWN_NAIVE = 'naive-mixed-xz-beyond-total-weight'


def placements(n, w):
    return itertools.combinations(range(n), w)


def part_errors(n, t, part):
    """all errors whose X-part (or Z-part) has weight <= t and whose other part is empty"""
    out = []
    for w in range(t + 1):
        for qs in placements(n, w):
            e = np.zeros(2 * n, dtype=int)
            for q in qs:
                e[q + (n if part == 'Z' else 0)] = 1
            out.append(e)
    return out


def gf2_in_span(rows, v):
    """independent GF(2) elimination (integers as bit sets)"""
    piv = {}
    for r in rows:
        x = int(''.join(map(str, r)), 2) if len(r) else 0
        while x:
            h = x.bit_length()
            if h in piv:
                x ^= piv[h]
            else:
                piv[h] = x
                break
    x = int(''.join(map(str, v)), 2) if len(v) else 0
    while x:
        h = x.bit_length()
        if h not in piv:
            return False
        x ^= piv[h]
    return True


def sym_commutes(a, M):
    """symplectic products of vector a with the rows of M, written out (not paulitools.bsp)"""
    n = len(a) // 2
    return (M[:, n:] @ a[:n] + M[:, :n] @ a[n:]) % 2


def min_weight_table(stabs, n):
    """exhaustive: least weight of an operator for every syndrome (n <= 10)"""
    m = stabs.shape[0]
    best = {}
    # enumerate all 4^n operators in chunks as letter codes
    total = 4 ** n
    chunk = 1 << 18
    for start in range(0, total, chunk):
        idx = np.arange(start, min(total, start + chunk), dtype=np.int64)
        codes = np.zeros((len(idx), n), dtype=np.int8)
        x = idx.copy()
        for q in range(n):
            codes[:, q] = x % 4
            x //= 4
        xs = (codes == 1) | (codes == 3)
        zs = (codes == 2) | (codes == 3)
        wt = (codes != 0).sum(axis=1)
        syn = (xs.astype(np.int32) @ stabs[:, n:].T + zs.astype(np.int32) @ stabs[:, :n].T) % 2
        keys = syn @ (1 << np.arange(m, dtype=np.int64))
        order = np.argsort(wt, kind='stable')
        ks, first = np.unique(keys[order], return_index=True)
        for k, f in zip(ks.tolist(), first.tolist()):
            w = int(wt[order][f])
            if k not in best or w < best[k]:
                best[k] = w
    return best


def run(ctx):
    import logging
    logging.getLogger('qecsim').setLevel(logging.CRITICAL)
    from qecsim import paulitools as pt
    rng = ctx.rng
    quick = ctx.quick
    ctx.rule = ('planar and toric sizes up to 5x5 (thorough: to 7x7): every error whose X-part is any placement of weight '
                '<= t with empty Z-part, every such Z-part error, every X-part x Z-part combination when there are <= %d of '
                'them, else %d random combinations (the decoders treat the two lattices independently); naive decoder on '
                'the basic codes and the lattices with n <= 10: every error with X- and Z-part of weight <= t, every '
                'syndrome for minimality. nontrivial = the error creates a defect on a boundary row/column (planar) or on '
                'the first/last row/column (toric, wrap-around)' % (ctx.pick(700, 1300), ctx.pick(300, 2000)))
    ctx.props_obligations()
    if quick:
        planar = [(2, 2), (3, 3), (3, 4), (4, 3), (3, 5), (4, 4), (5, 4), (5, 5)]
        toric = [(2, 2), (3, 3), (3, 4), (4, 4), (5, 4), (5, 5)]
    else:
        planar = [(2, 2), (2, 3), (3, 3), (3, 4), (4, 3), (3, 5), (5, 3), (4, 4), (4, 5), (5, 4), (5, 5), (5, 6), (6, 6), (7, 7)]
        toric = [(2, 2), (3, 3), (3, 4), (4, 3), (4, 4), (4, 5), (5, 4), (5, 5), (5, 6), (6, 6), (7, 7)]
    full_cap = ctx.pick(700, 1300)
    nsamp = ctx.pick(300, 2000)
    jobs, meta, codes, mat_lines = [], {}, {}, []

    def reg(cs):
        if cs not in codes:
            code = zoo.make_code(cs)
            n = code.n_k_d[0]
            codes[cs] = (code, n, zoo.code_name(cs))
            mat_lines.append('mat %s %s' % (zoo.code_name(cs), rowsstr(code.stabilizers)))
        return codes[cs]

    def add_jobs(cs, ds, errs, kind):
        es = [bitstr(e) for e in errs]
        for ch in zoo.chunks(es, 200):
            jid = len(jobs)
            jobs.append({'id': jid, 'code': cs, 'decoder': ds, 'errors': ch,
                         'contexts': [(('DepolarizingErrorModel', ()), 0.1)] * len(ch)})
            meta[jid] = kind

    # ---- 1. MWPM decoders ----
    for fam, dname, szs in (('planar', 'PlanarMWPMDecoder', planar), ('toric', 'ToricMWPMDecoder', toric)):
        for sz in szs:
            cs = (fam, tuple(sz))
            code, n, cname = reg(cs)
            d = code.n_k_d[2]
            if d != min(sz):
                ctx.violation('distance', 'n_k_d reports d=%r, expected min(rows, cols)' % (d,), {'code': cname})
            t = (d - 1) // 2
            tt = t if (quick or n <= 50) else min(t, 2)       # exhaustive placements up to weight tt
            xs = part_errors(n, tt, 'X')
            zs = part_errors(n, tt, 'Z')
            errs = list(xs) + list(zs[1:])
            if len(xs) * len(zs) <= full_cap:
                errs = [x ^ z for x in xs for z in zs]
                mode = 'all-combinations'
            else:
                for _ in range(nsamp):
                    e = np.zeros(2 * n, dtype=int)
                    for off in (0, n):
                        for q in rng.sample(range(n), rng.randint(0, t)):
                            e[off + q] = 1
                    errs.append(e)
                mode = 'all-parts+sampled-combinations'
            add_jobs(cs, (dname, ()), errs, 'mwpm/' + mode)
    # ---- 2. naive decoder, n <= 10 ----
    naive_codes = [('five', ()), ('steane', ()), ('planar', (2, 2)), ('planar', (2, 3)), ('toric', (2, 2)),
                   ('rotatedplanar', (3, 3)), ('color666', (3,)), ('rotatedtoric', (2, 2)), ('rotatedtoric', (2, 4))]
    if not quick:
        naive_codes += [('planar', (3, 2)), ('rotatedtoric', (4, 2))]
    naive_req = []
    for cs in naive_codes:
        code, n, cname = reg(cs)
        d = code.n_k_d[2]
        t = (d - 1) // 2
        xs = part_errors(n, t, 'X')
        zs = part_errors(n, t, 'Z')
        add_jobs(cs, ('NaiveDecoder', (10,)), [x ^ z for x in xs for z in zs], 'naive/within-t')
        basis = zoo.syndrome_space(code, 'XZ')
        if len(basis) <= ctx.pick(8, 10):
            add_jobs(cs, ('NaiveDecoder', (rng.choice([10, None, 0, n]),)), zoo.all_syndrome_errors(basis), 'naive/all-syndromes')
        else:
            add_jobs(cs, ('NaiveDecoder', (None,)), zoo.weighted_errors(rng, n, ctx.pick(3, 12))[:ctx.pick(40, 200)],
                     'naive/sampled-syndromes')
        # the max_qubits guard
        add_jobs(cs, ('NaiveDecoder', (n - 1,)), [np.zeros(2 * n, dtype=int)], 'naive/guard')

    results = zoo.run_pool(zoo.run_decode_job, jobs)

    # ---- model requests ----
    req = []
    look = {}
    for job, res in zip(jobs, results):
        code, n, cname = codes[job['code']]
        for k, r in enumerate(res['results']):
            es = job['errors'][k]
            if r.get('recovery') is not None and len(r['recovery']) == 2 * n and set(r['recovery']) <= {'0', '1'}:
                v = ''.join('1' if a != b else '0' for a, b in zip(r['recovery'], es))
                look[(job['id'], k, 'span')] = len(req)
                req.append('spanb %s %d %s' % (cname, 2 * n, v))
            if job['decoder'][0] == 'NaiveDecoder':
                mq = job['decoder'][1][0]
                look[(job['id'], k, 'naive')] = len(req)
                req.append('naive %s %d %s %s' % (cname, n, '_' if mq is None else str(mq), r['syndrome']))
    out = zoo.model_parallel(ctx, 'dec', req, prefix=mat_lines)

    # negative answers get a verified certificate: a stabilizer or logical l anticommuting with v (w = l with halves
    # swapped vanishes on every stabilizer, since l commutes with all of them, but not on v)
    neg_req, neg_look = [], {}
    for job, res in zip(jobs, results):
        code, n, cname = codes[job['code']]
        for k, r in enumerate(res['results']):
            key = (job['id'], k, 'span')
            if key in look and out[look[key]] == '_':
                v = np.array([int(c) for c in req[look[key]].split(' ')[-1]])
                for l in list(code.logicals) + list(code.stabilizers):
                    if sym_commutes(v, np.array([l]))[0]:
                        w = np.concatenate([l[n:], l[:n]])
                        neg_look[(job['id'], k)] = len(neg_req)
                        neg_req.append('nospan %s %s %s' % (cname, bitstr(w), bitstr(v)))
                        break
    neg_out = zoo.model_parallel(ctx, 'dec', neg_req, prefix=mat_lines) if neg_req else []
    ctx.extra['negative_answers_certified'] = sum(1 for x in neg_out if x == '1')
    ctx.extra['negative_answers'] = sum(1 for i in look if i[2] == 'span' and out[look[i]] == '_')

    tables = {}
    kern = []
    for job, res in zip(jobs, results):
        cs, ds = job['code'], job['decoder']
        code, n, cname = codes[cs]
        kind = meta[job['id']]
        S, L = code.stabilizers, code.logicals
        d = code.n_k_d[2]
        t = (d - 1) // 2
        for k, r in enumerate(res['results']):
            es = job['errors'][k]
            e = np.array([int(c) for c in es])
            xw, zw = int(e[:n].sum()), int(e[n:].sum())
            tw = int(np.count_nonzero(e[:n] | e[n:]))
            rep = {'code': [cs[0], list(cs[1])], 'decoder': [ds[0], list(ds[1])], 'error': zoo.bsf_to_letters(e),
                   'x_weight': xw, 'z_weight': zw, 't': t, 'outcome': r['outcome'], 'recovery': r.get('recovery')}
            if kind == 'naive/guard':
                ctx.count(None, False, kind)
                m_ = out[look[(job['id'], k, 'naive')]] if (job['id'], k, 'naive') in look else None
                impl = 'ERR ValueError' if r['outcome'].startswith('ERR ValueError') else r.get('recovery') or r['outcome']
                ctx.cmp('NaiveDecoder max_qubits guard', req[look[(job['id'], k, 'naive')]][:200], impl, m_)
                continue
            # boundary / wrap-around defects
            s = np.array([int(c) for c in r['syndrome']])
            nontriv = False
            if cs[0] in ('planar', 'toric') and s.any():
                for idx in code.syndrome_to_plaquette_indices(s):
                    rr, cc = idx[-2], idx[-1]
                    if cs[0] == 'planar':
                        br, bc = code.bounds
                        nontriv = nontriv or rr in (0, 1, br - 1, br) or cc in (0, 1, bc - 1, bc)
                    else:
                        nontriv = nontriv or rr in (0, cs[1][0] - 1) or cc in (0, cs[1][1] - 1)
            else:
                nontriv = tw >= 1
            ctx.count((cname, ds[0], es), nontriv, '%s/%s' % (kind, cs[0]),
                      {'code': cname, 'decoder': ds[0], 'error': rep['error'], 'recovery': r.get('recovery'), 't': t}
                      if (nontriv and xw >= 1 and zw >= 1 and 13 <= n <= 25) else None)
            ctx.hist['%s xw=%d zw=%d' % (ds[0][:6], xw, zw)] += 1
            within = xw <= t and zw <= t
            if r['outcome'] != 'ok' or r.get('recovery') is None or (job['id'], k, 'span') not in look:
                ctx.violation('raised', '%s on %s: %s' % (ds[0], cname, r['outcome'] if r['outcome'] != 'ok' else 'malformed recovery'), rep)
                continue
            rec = np.array([int(c) for c in r['recovery']])
            v = rec ^ e
            m_span = out[look[(job['id'], k, 'span')]]
            zero_syn = not sym_commutes(v, S).any()
            indep = zero_syn and not sym_commutes(v, L).any()
            indep2 = gf2_in_span(S, v)
            ctx.cmp('in_span vs independent elimination / logical commutation', '%s %s' % (cname, bitstr(v)),
                    (indep, indep2), (m_span != '_', m_span != '_'))
            if m_span != '_':
                # the returned coefficients really combine the stabilizers to recovery xor error
                c = np.array([int(ch) for ch in m_span]) if m_span != '-' else np.zeros(0, dtype=int)
                comb = (c @ S) % 2 if len(c) else np.zeros(2 * n, dtype=int)
                if not np.array_equal(comb, v):
                    ctx.cmp('in_span coefficients', cname, 'do not combine to v', 'combine to v')
            corrected = m_span != '_'
            if not corrected:
                cert = neg_out[neg_look[(job['id'], k)]] if (job['id'], k) in neg_look else 'none'
                ctx.cmp('not_in_span_cert on a negative in_span answer', '%s %s' % (cname, bitstr(v)), cert, '1')
                rep['not_in_span_certificate'] = cert
            if ds[0] == 'NaiveDecoder':
                # model correspondence (same scan order => the same operator) and minimality
                m_n = out[look[(job['id'], k, 'naive')]]
                ctx.cmp('NaiveDecoder.decode', req[look[(job['id'], k, 'naive')]][:200], r['recovery'], m_n)
                if n <= ctx.pick(9, 10):
                    if cs not in tables:
                        tables[cs] = min_weight_table(S, n)
                    key = int(s @ (1 << np.arange(len(s), dtype=np.int64)))
                    wrec = int(np.count_nonzero(rec[:n] | rec[n:]))
                    if tables[cs].get(key) != wrec:
                        ctx.violation('naive-not-minimum', 'naive recovery has weight %d but an operator of weight %r has the '
                                      'same syndrome (exhaustive search)' % (wrec, tables[cs].get(key)), rep)
                if not zero_syn:
                    ctx.violation('naive-syndrome', 'naive recovery does not reproduce the syndrome', rep)
                if kind == 'naive/within-t' and not corrected:
                    if tw <= t:
                        ctx.violation('naive-not-corrected', 'error of total weight %d <= t=%d not corrected by the naive '
                                      'decoder (recovery xor error is not in the stabilizer span)' % (tw, t), rep)
                    else:
                        ctx.violation(KNOWN_NAIVE, 'naive decoder does not correct %s (X-part %d, Z-part %d, total weight %d '
                                      '> t=%d)' % (rep['error'], xw, zw, tw, t), rep)
            else:
                if within and not corrected:
                    ctx.violation('mwpm-not-corrected', '%s on %s: error with X-part %d and Z-part %d (t=%d) is not corrected: '
                                  'recovery xor error is not a product of stabilizers (in_span = None; independent check %s)'
                                  % (ds[0], cname, xw, zw, t, indep), rep)
                if len(kern) < 30 and n <= 25 and tw >= 2 and corrected and (job['id'] + k) % 11 == 0:
                    kern.append((cs, bitstr(v), m_span))
    ctx.extra['decodes'] = sum(len(j['errors']) for j in jobs)
    ctx.notes.append('in_span is sound for positive answers (checked coefficients); every negative answer is certified by '
                     'not_in_span_cert (a logical/stabilizer anticommuting with recovery xor error, c14_not_in_span_cert_sound) '
                     'and cross-checked by an independent elimination')
    ctx.notes.append('Blossom V backend absent: NetworkX matching only')

    # model's basic-code matrices are the implementation's
    o = ctx.model('dec', ['basic five', 'basic steane'])
    ctx.cmp('five_stabs', 'FiveQubitCode.stabilizers', rowsstr(zoo.make_code(('five', ())).stabilizers), o[0])
    ctx.cmp('steane_stabs', 'SteaneCode.stabilizers', rowsstr(zoo.make_code(('steane', ())).stabilizers), o[1])

    items = []
    for cs, v, coeffs in kern:
        code, n, cname = codes[cs]
        st = coq_list([coq_bits(row.tolist()) for row in code.stabilizers])
        items.append('(match in_span %d %s %s with Some c => beqv c %s | None => false end)'
                     % (2 * n, st, coq_bits([c == '1' for c in v]), coq_bits([c == '1' for c in coeffs])))
    text = ('From Coq Require Import List Bool Arith NArith.\nFrom QV Require Import Core.Bits Core.Span.\n'
            'Import ListNotations.\n'
            'Definition checks : list bool :=\n [' + ';\n  '.join(items) + '].\n'
            'Example corr : forallb (fun b => b) checks = true.\nProof. vm_compute. reflexivity. Qed.\n')
    ctx.kernel_cases('sample', text)
    ctx.extra['kernel_cases'] = len(items)


def replay(path):
    d = json.load(open(path))
    r = d.get('replay', {})
    print(json.dumps(d, indent=1)[:2500])
    if 'code' not in r or 'error' not in r:
        return 0
    cs = (r['code'][0], tuple(r['code'][1]))
    ds = (r['decoder'][0], tuple(r['decoder'][1]))
    e = zoo.letters_to_bsf(r['error'])
    zoo._init_worker()
    res = zoo.run_decode_job({'id': 0, 'code': cs, 'decoder': ds, 'errors': [bitstr(e)],
                              'contexts': [(('DepolarizingErrorModel', ()), 0.1)]})['results'][0]
    print('outcome now:', res)
    code = zoo.make_code(cs)
    n = code.n_k_d[0]
    bad = 1
    if res.get('recovery') and len(res['recovery']) == 2 * n:
        v = ''.join('1' if a != b else '0' for a, b in zip(res['recovery'], bitstr(e)))
        ctx = Ctx('C14', 'quick', 0)
        o = ctx.model('dec', ['mat c ' + rowsstr(code.stabilizers), 'span c %d %s' % (2 * n, v)])
        print('in_span(recovery xor error) =', o[1])
        bad = 1 if o[1] == '_' else 0
    print('REPRODUCED' if bad else 'not reproduced')
    return bad
