"""C01, third part — USER CODES WHOSE OPERATORS ARE PRESENTED AS VECTORS.

StabilizerCode.stabilizers / logical_xs / logical_zs are documented as "binary symplectic vector or matrix
(numpy.array 1d or 2d)": a code with a single stabilizer generator and / or a single logical pair may return the
operator as a 1-d vector instead of a one-row matrix.  For NumPy that changes the meaning of `.T`, `len()`, `.shape`
and of bsp (vector x vector = scalar), so anything in the run that derives a size from the presentation instead of
from the syndrome is wrong exactly there.  The property does not depend on the presentation: Core/CodeNd.v
(code_nd, atleast_2d) says a vector IS the one-row matrix.

Every generated case (code with one stabilizer and / or one logical pair, step errors, measurement flips, decoder
answer) is run under EVERY 1d/2d presentation of its single-row operators, ideal and fault-tolerant, with and
without flips, through run_once / run_once_ftp and through the app.run / app.run_ftp loops, with

* an rng proxy that honours the `size` it is asked for (a real generator returns what was asked), and the real
  numpy Generator in part of the cases (the flips are then read from the decoder context),
* the expected syndrome SHAPE derived from the presentation alone: one bit per stabilizer, laid out like the
  stabilizer presentation without its qubit axis (`S.shape[:-1]`: () for a vector, (m,) for a matrix), preceded by the
  time axis in fault-tolerant mode,
* the expected syndrome VALUES and verdict from the extracted model (App/RunOnce.run_once_model) on the normalised
  (2-d) code and from the letter-level evaluation of the property.
"""
import itertools

import numpy as np

from harness.common import bitstr, rowsstr, exc_class
from harness.proxies import UserCode, ScriptedErrorModel, ScriptedDecoder
from harness.c20 import random_valid, anti
from harness.c01_extra import ints, aenc_of, want_of, data_str, agg

KNOWN_KEY = 'vector-stabilizers-off-codespace'


class SizedRng:
    """choice() hands out the scripted flip rows, in the shape that was asked for.  If the requested number of
    entries is not the scripted one (one per stabilizer) the row is continued with its complement, then itself, ...
    so that surplus entries are not copies of the right ones."""

    def __init__(self, rows):
        self.rows = [np.array(r, dtype=int).ravel() for r in rows]
        self.calls = []

    def choice(self, a, size=None, p=None, **kw):
        i = len(self.calls)
        self.calls.append((tuple(a), size, tuple(p) if p is not None else None))
        row = self.rows[i % len(self.rows)]
        if size is None:
            return int(row[0])
        shape = (size,) if isinstance(size, (int, np.integer)) else tuple(size)
        cnt = int(np.prod(shape, dtype=int))
        if cnt == len(row):
            return row.copy().reshape(shape)
        return np.resize(np.concatenate([row, 1 - row]), shape)

    def random(self, *a, **k):
        raise AssertionError('scripted rng: unexpected random()')


class RealRng:
    """the real numpy Generator, recording the choice() calls"""

    def __init__(self, seed):
        self.gen = np.random.default_rng(seed)
        self.calls = []

    def choice(self, a, size=None, p=None, **kw):
        self.calls.append((tuple(a), size, tuple(p) if p is not None else None))
        return self.gen.choice(a, size=size, p=p, **kw)

    def random(self, *a, **k):
        raise AssertionError('unexpected random()')


def shape_of(size):
    if size is None:
        return None
    return (int(size),) if isinstance(size, (int, np.integer)) else tuple(int(v) for v in size)


def run_presentations(ctx, kern):
    from qecsim import app
    from qecsim.error import QecsimError
    from qecsim.model import DecodeResult
    rng = ctx.rng
    nmax = ctx.pick(6, 12)
    Tmax = ctx.pick(4, 8)
    req, post, samples = [], [], []
    nkern = nknown = 0

    def rand_err(n, kind):
        if kind == 0:
            return np.zeros(2 * n, dtype=int)
        if kind == 1:
            e = np.zeros(2 * n, dtype=int)
            for _ in range(rng.randint(1, 2)):
                q = rng.randrange(n)
                p = rng.randint(1, 3)
                e[q] ^= p & 1
                e[n + q] ^= (p >> 1) & 1
            return e
        return np.array([rng.randint(0, 1) for _ in range(2 * n)])

    def rb(rows, n):
        return np.array([[rng.randint(0, 1) for _ in range(2 * n)] for _ in range(rows)])

    def make_answer(spec):
        if spec['kind'] == 'N':
            return None
        if spec['kind'] == 'B':
            return np.array(spec['rec'], dtype=int)
        pat = spec['pat']

        def ans():
            return DecodeResult(success=spec['su'] if pat[0] else None,
                                logical_commutations=np.array(spec['lc'], dtype=int) if pat[1] else None,
                                recovery=np.array(spec['rec'], dtype=int) if pat[2] else None,
                                custom_values=np.array(spec['cv'], dtype=int) if pat[3] else None)
        return ans

    for it in range(ctx.pick(220, 2200)):
        # ---- a code with one stabilizer and / or one logical pair
        r = rng.random()
        if r < 0.3:  # valid, one stabilizer (n-1 logical pairs)
            n = rng.randint(2, nmax)
            S, X, Z = random_valid(rng, n, n - 1)
        elif r < 0.55:  # valid, one logical pair (n-1 stabilizers)
            n = rng.randint(2, nmax)
            S, X, Z = random_valid(rng, n, 1)
        elif r < 0.7:  # valid, both (two qubits)
            n = 2
            S, X, Z = random_valid(rng, 2, 1)
        else:  # arbitrary binary rows (run_once does not validate the code)
            n = rng.randint(1, nmax)
            ms, k = rng.choice([(1, 1), (1, 1), (1, rng.randint(1, 3)), (rng.randint(1, n + 1), 1)])
            S, X, Z = rb(ms, n), rb(k, n), rb(k, n)
        m, nl = len(S), len(X) + len(Z)
        api = rng.choice(['once', 'once', 'once', 'loop'])
        ftp = rng.random() < 0.6
        T = rng.randint(1, Tmax) if ftp else 1
        p = rng.choice([0.0, 0.25, 0.5, 1.0, 0.125])
        qsel = rng.choice(['none', 'zero', 'pos', 'pos', 'one']) if ftp else 'ideal'
        q = {'none': None, 'zero': 0.0, 'pos': rng.choice([0.25, 0.5, 0.75]), 'one': 1.0, 'ideal': None}[qsel]
        q_eff = (0.0 if T == 1 else p) if (ftp and q is None) else (q if ftp else 0.0)
        q_truthy = bool(q_eff)
        real = api == 'loop' or (q_truthy and rng.random() < 0.3)  # flips from the real generator
        K = rng.randint(2, 4) if api == 'loop' else 1
        runs = []
        for i in range(K):
            errs = [rand_err(n, rng.choice([0, 1, 1, 2])) for _ in range(T)]
            flips = []
            for t in range(T):
                kk = rng.choice([0, 1, 1, 2])
                f = np.zeros(m, dtype=int)
                if kk == 1:
                    f[rng.randrange(m)] = 1
                elif kk == 2:
                    f = np.array([rng.randint(0, 1) for _ in range(m)])
                flips.append(f)
            tot = np.bitwise_xor.reduce(np.array(errs), axis=0)
            back = tot.copy()  # a recovery that returns to the code space (of a valid code), other coset
            for row in list(S) + list(X) + list(Z):
                if rng.random() < 0.4:
                    back = back ^ row
            if any(anti(back ^ tot, s) for s in S):
                back = tot.copy()
            recs = [tot, back, back, rand_err(n, 1), rand_err(n, 2), tot ^ rand_err(n, 1)]
            if api == 'loop':  # summable answers with a recovery that returns to the code space
                pat = (rng.random() < 0.3, rng.random() < 0.3, True, False)
                dk = rng.random() < 0.6
                spec = {'kind': 'D' if dk else 'B', 'pat': pat if dk else (False, False, True, False),
                        'su': rng.random() < 0.5, 'lc': [rng.randint(-2, 5) for _ in range(nl)],
                        'rec': [int(v) for v in rng.choice(recs[:3])], 'cv': []}
            else:
                sh = rng.randrange(6)
                if sh <= 2:
                    spec = {'kind': 'B', 'pat': (False, False, True, False), 'su': False, 'lc': [], 'cv': [],
                            'rec': [int(v) for v in rng.choice(recs)]}
                elif sh == 3 and rng.random() < 0.2:
                    spec = {'kind': 'N', 'pat': (False, False, False, False), 'su': False, 'lc': [], 'cv': [], 'rec': []}
                else:
                    pat = (rng.random() < 0.4, rng.random() < 0.4, rng.random() < 0.85, rng.random() < 0.5)
                    spec = {'kind': 'D', 'pat': pat, 'su': rng.random() < 0.5,
                            'lc': [rng.randint(-2, 5) for _ in range(rng.choice([nl, nl, rng.randint(0, 4)]))],
                            'rec': [int(v) for v in rng.choice(recs)],
                            'cv': [rng.randint(-3, 9) for _ in range(rng.randint(0, 3))]}
            off = spec['pat'][2] and any(anti(np.array(spec['rec'], dtype=int) ^ tot, s) for s in S)
            runs.append({'errs': errs, 'flips': flips, 'spec': spec, 'aenc': aenc_of(spec), 'off_codespace': off,
                         'want': want_of(spec, S, X, Z, errs, n)})
        seed = rng.randrange(2 ** 31)
        # ---- every presentation of the single-row operators
        options = [([False, True] if len(M) == 1 else [False]) for M in (S, X, Z)]
        for pres in itertools.product(*options):
            if not any(pres) and rng.random() < 0.5:
                continue  # all matrices: the stream of harness/c01.py; kept here in part as the reference presentation
            Sp, Xp, Zp = [M[0].copy() if v else M.copy() for M, v in zip((S, X, Z), pres)]
            code = UserCode(Sp, Xp, Zp, n_k_d=(n, len(X), None), label='pres-%s' % ''.join('v' if v else 'm' for v in pres))
            unit = Sp.shape[:-1]  # one bit per stabilizer, laid out like the stabilizers without the qubit axis
            want_shape = ((T,) if ftp else ()) + unit
            pname = 'S:%s X:%s Z:%s' % tuple('1d' if v else '2d' for v in pres)
            em = ScriptedErrorModel([e for r_ in runs for e in r_['errs']])
            dec = ScriptedDecoder([make_answer(r_['spec']) for r_ in runs])
            srng = RealRng(seed) if real else SizedRng([f for r_ in runs for f in r_['flips']])
            base_rep = {'code': 'UserCode with %s' % pname, 'presentation': pname, 'S': rowsstr(S), 'X': rowsstr(X),
                        'Z': rowsstr(Z), 'api': api, 'mode': 'ftp' if ftp else 'ideal', 'T': T, 'p': p, 'q': q,
                        'rng': 'numpy default_rng(%d)' % seed if real else 'scripted, honours size', 'runs': K}

            def rep(i=None):
                return dict(base_rep, failing_run=i, history=[
                    {'errors': rowsstr(r_['errs']), 'flips': r_.get('flips_used', rowsstr(r_['flips'])),
                     'answer': r_['aenc'], 'impl': r_.get('impl'), 'want': r_['want']} for r_ in runs])

            try:
                if api == 'loop':
                    rd = app.run_ftp(code, T, em, dec, p, q, max_runs=K, random_seed=seed) if ftp else \
                        app.run(code, em, dec, p, max_runs=K, random_seed=seed)
                    res = '%d %d %d %s %s %d' % (rd['n_run'], rd['n_success'], rd['n_fail'],
                                                 ints(rd['n_logical_commutations']), ints(rd['custom_totals']),
                                                 int(rd['error_weight_total']))
                else:
                    data = app.run_once_ftp(code, T, em, dec, p, q, srng) if ftp else app.run_once(code, em, dec, p, srng)
                    res = data_str(data)
            except QecsimError:
                res = 'ERR QecsimError'
            except Exception as e:  # noqa
                res = 'ERR ' + exc_class(e)
            # ---- what the decoder saw in each run
            ok = True
            for i, r_ in enumerate(runs):
                if i >= len(dec.calls):
                    ctx.violation('decoder-not-called', 'decoder was not called in run %d (%s); the call returned %s'
                                  % (i, pname, res), rep(i))
                    ok = False
                    break
                c = dec.calls[i]
                kw = c['kwargs']
                sme = [np.array(v) for v in kw.get('step_measurement_errors', [])]
                shapes_ok = len(sme) == T and all(v.shape == unit for v in sme)
                if not shapes_ok:
                    ctx.violation('flip-shape', 'measurement flips in the decoder context are not one bit per stabilizer '
                                  '(%s): shapes %s, expected %d x %s' % (pname, [v.shape for v in sme][:4], T, unit), rep(i))
                if real and shapes_ok:  # the generator's draws are this run's measurement-error pattern
                    used = [v.reshape(m).astype(int) for v in sme]
                    if not q_truthy and any(v.any() for v in used):
                        ctx.violation('flip-calls', 'measurement flips present although q is zero', rep(i))
                else:
                    used = r_['flips'] if q_truthy else [np.zeros(m, dtype=int)] * T
                    if shapes_ok and not all(np.array_equal(v.reshape(m), u) for v, u in zip(sme, used)):
                        ctx.violation('context', 'decoder context step_measurement_errors are not the drawn flips', rep(i))
                r_['flips_used'] = rowsstr(used)
                syn = c['syndrome']
                want_rows = np.array([used[(t - 1) % T] ^ np.array([anti(r_['errs'][t], s) for s in S]) ^ used[t]
                                      for t in range(T)])
                if syn.shape != want_shape:
                    r_['syn'] = 'BADSHAPE' + str(syn.shape).replace(' ', '')
                    ctx.violation('syndrome-shape', 'decoder syndrome has shape %s; one bit per stabilizer (and step) is %s '
                                  '(%s)' % (syn.shape, want_shape, pname), dict(rep(i), syndrome_seen=repr(syn.tolist())))
                else:
                    s2 = syn.reshape(T, m)
                    r_['syn'] = rowsstr(s2)
                    if not np.array_equal(s2, want_rows):
                        ctx.violation('syndrome', 'decoder syndrome is not the (flip-composed) syndrome of the errors (%s)'
                                      % pname, dict(rep(i), syndrome_seen=r_['syn'], syndrome_want=rowsstr(want_rows)))
                tot = np.bitwise_xor.reduce(np.array(r_['errs']), axis=0)
                if not (np.array_equal(kw.get('error'), tot) and kw.get('error_probability') == p
                        and kw.get('measurement_error_probability') == q_eff and kw.get('error_model') is em
                        and len(kw.get('step_errors', [])) == T
                        and all(np.array_equal(a, b) for a, b in zip(kw['step_errors'], r_['errs']))):
                    ctx.violation('context', 'decoder context does not carry the run\'s error/probabilities/steps', rep(i))
                if ftp and c['time_steps'] != T:
                    ctx.violation('context', 'decode_ftp got wrong time_steps', rep(i))
                if c['code'] is not code:
                    ctx.violation('context', 'decoder did not get the code object', rep(i))
                r_['line'] = 'run_once %s %s %s %s %s %s %s' % (rowsstr(S), rowsstr(X), rowsstr(Z), rowsstr(r_['errs']),
                                                                rowsstr(used), '1' if q_truthy else '0', r_['aenc'])
                nontriv = any(pres) and any(e.any() for e in r_['errs']) and (any(f.any() for f in used) or
                                                                               r_['spec']['kind'] != 'B')
                sample = None
                if len(samples) < 3 and it % 50 == 5 and pres[0]:
                    sample = {'presentation': pname, 'api': api, 'mode': 'ftp' if ftp else 'ideal', 'T': T, 'n': n,
                              'syndrome_shape': list(syn.shape), 'answer': r_['aenc'][:60], 'want': r_['want']}
                    samples.append(sample)
                ctx.count((r_['line'], pres, api), nontriv,
                          'presentation/%s/%s/%s/%s' % (''.join('v' if v else 'm' for v in pres), api,
                                                        'ftp' if ftp else 'ideal', qsel), sample)
            # ---- the draws
            if api != 'loop':
                if len(em.calls) != T or any(c_[0] is not code or c_[1] != p or c_[2] is not srng for c_ in em.calls):
                    ctx.violation('generate-calls', 'error model not called once per step with (code, p, rng)', rep(0))
                if q_truthy and (len(srng.calls) != T or any(
                        c_[0] != (0, 1) or shape_of(c_[1]) != unit or c_[2] is None or c_[2][1] != q_eff
                        or abs(c_[2][0] - (1 - q_eff)) > 1e-15 for c_ in srng.calls)):
                    ctx.violation('flip-calls', 'measurement flips not drawn once per step, one bit per stabilizer (size %s), '
                                  'with p=(1-q,q): calls %s (%s)' % (unit, srng.calls[:3], pname), rep(0))
                if not q_truthy and srng.calls:
                    ctx.violation('flip-calls', 'measurement flips drawn although q is zero', rep(0))
            if not ok:
                continue
            # ---- the verdict
            if api == 'loop':
                want = agg([r_['want'] for r_ in runs])
                base_rep['loop_result'], base_rep['loop_want'] = res, want
                if res != want:
                    ctx.violation('verdict-loop', 'app.%s on a code with %s: the aggregated verdicts are not the sum of what '
                                  'each run\'s error and answer imply' % ('run_ftp' if ftp else 'run', pname), rep(None))
                i0 = len(req)
                req.extend(r_['line'] for r_ in runs)
                post.append(('loop', 'presentation run_ftp' if ftp else 'presentation run',
                             (i0, K, [r_['syn'] for r_ in runs]), res))
                continue
            r_ = runs[0]
            r_['impl'] = '%s %s' % (r_['syn'], res)
            if res != r_['want']:
                if pres[0] and r_['off_codespace'] and res == 'ERR TypeError':
                    # known defect of the unchanged tree (see known_findings): a vector of stabilizers and a recovery
                    # that does not return to the code space; probed under its own key, everything else is 'verdict'
                    nknown += 1
                    if nknown <= 3:  # reported a few times only, so that it cannot crowd out other violations
                        ctx.violation(KNOWN_KEY, 'run on a code whose single stabilizer is a vector, recovery not returning '
                                      'to the code space: TypeError instead of success=False', dict(rep(0), want=r_['want']))
                    continue
                ctx.violation('verdict', 'returned data is not what error and decoding imply (%s)' % pname,
                              dict(rep(0), want=r_['want']))
            elif res[0] != 'E' and type(data['success']) is not bool:
                ctx.violation('success-type', 'success is not a bool', rep(0))
            req.append(r_['line'])
            post.append(('run', 'presentation run_once_ftp' if ftp else 'presentation run_once', r_['line'], r_['impl']))
            if nkern < 16 and n <= 6 and any(pres) and not r_['syn'].startswith('BAD') and it % 3 == 0:
                nkern += 1
                kern.append((S, X, Z, r_['errs'], [np.array([c_ == '1' for c_ in row], dtype=int)
                                                   for row in r_['flips_used'].split(',')],
                             q_truthy, r_['aenc'], r_['impl']))

    out = ctx.model('c01', req)
    pos = 0
    for kind, fn, a, impl in post:
        if kind == 'run':
            ctx.cmp(fn, a[:800], impl, out[pos])
            pos += 1
        else:
            i0, K, syns = a
            ms = out[i0:i0 + K]
            pos = i0 + K
            for line, s, mo in zip(req[i0:i0 + K], syns, ms):
                ctx.cmp(fn + ' syndrome', line[:800], s, mo.split(' ', 1)[0])
            ctx.cmp(fn + ' aggregate', ' | '.join(req[i0:i0 + K])[:1500], impl, agg([mo.split(' ', 1)[1] for mo in ms]))
    ctx.extra['presentation_runs'] = len(req)
    ctx.extra['presentation_known_off_codespace_typeerror'] = nknown
    ctx.extra['presentation_samples'] = samples
