"""C09 extras — the same property quantified over the way callers USE paulitools, not only over argument values.

The model (Core/*.v, engine qmodel_c09) is value-semantic: the answer of a call is a function of the values of its
arguments at the time of the call and nothing else, and an answer, once returned, is a value that never changes.
Two families of executions are explored here and every answer is compared with that model:

1. consumption patterns of the weight-ordered iterators ipauli/ibsf: streamed, collected with list() before being
   looked at, two live iterators advanced alternately (same or different arguments), an iterator abandoned half way
   while a second one runs, the consumer overwriting each yielded array as soon as it has it, the consumer overwriting
   a collected element.  The COLLECTED sequence is what is compared with the model's enumeration, and the clauses
   "every Pauli in the weight range exactly once, in non-decreasing weight" are evaluated directly on it.

2. call histories of every public function: call; overwrite the returned array(s) in place; call again with
   equal but fresh arguments; overwrite the argument objects in place; call again with the same (now different)
   objects; keep results of earlier calls while later calls of other sizes run, and look at them again afterwards.
   Every later answer must be the model's answer for the argument values at that moment, the arguments must not be
   changed by the call, and neither a result nor an argument may change because the other was written to.

Expected values come only from the extracted model or from the property evaluated by independent Python code."""
import itertools

import numpy as np

from harness.common import bitstr, rowsstr, exc_class
from harness.c09_shapes import array_problem, int_problem, describe, any_fill, fill

LET = 'IXYZ'
XB = {'I': '0', 'X': '1', 'Y': '1', 'Z': '0'}
ZB = {'I': '0', 'X': '0', 'Y': '1', 'Z': '1'}


def _bits_of_pauli(s):
    """independent letter -> (x|z) rendering, as a canonical bit string"""
    return ''.join(XB[c] for c in s) + ''.join(ZB[c] for c in s)


def _wt_item(kind, c):
    if kind == 'ipauli':
        return sum(1 for ch in c if ch != 'I')
    h = len(c) // 2
    return sum(1 for i in range(h) if c[i] == '1' or c[h + i] == '1')


def _canon_item(x):
    return x if isinstance(x, str) else bitstr(x)


def _scribble(arr, rng):
    """overwrite a caller-owned array in place (result stays binary); returns False if it cannot be written"""
    if not isinstance(arr, np.ndarray) or arr.size == 0:
        return False
    try:
        how = rng.randrange(3)
        if how == 0:
            arr ^= 1
        elif how == 1:
            arr[...] = 1 - arr
        else:
            idx = tuple(rng.randrange(d) for d in arr.shape)
            arr[idx] = 1 - arr[idx]
    except ValueError:  # read-only result: the caller cannot write to it, nothing to explore
        return False
    return True


# ------------------------------------------------------------------------------------------------------------------
# 1. iterator consumption patterns
# ------------------------------------------------------------------------------------------------------------------
PATTERNS = ('stream', 'collect', 'interleave-same', 'interleave-other', 'abandon-restart', 'stream-overwrite',
            'collect-overwrite')


def _call_forms(n, lo, hi):
    """argument spellings that mean (n, lo, hi)"""
    forms = [((n, lo, hi), {}), ((n,), {'min_weight': lo, 'max_weight': hi}), ((n, lo), {'max_weight': hi})]
    if hi == n:
        forms += [((n, lo), {}), ((n, lo, None), {})]
        if lo == 0:
            forms += [((n,), {})]
    if lo == 0:
        forms += [((n,), {'max_weight': hi})]
    return forms


def _interleave(it1, it2, rng):
    """advance two live iterators in a random alternation, keep everything, look at nothing until both are done"""
    got1, got2 = [], []
    live = [(it1, got1), (it2, got2)]
    while live:
        it, got = live[rng.randrange(len(live))]
        for _ in range(rng.randint(1, 3)):
            try:
                got.append(next(it))
            except StopIteration:
                live = [p for p in live if p[0] is not it]
                break
    return got1, got2


def run_iterators(ctx, pt):
    rng = ctx.rng
    imax = ctx.pick(5, 6)
    triples = [(n, lo, hi) for n in range(1, imax + 1) for lo in range(0, n + 1) for hi in range(lo, n + 1)]
    lines = []
    for (n, lo, hi) in triples:
        lines.append('ipauli %d %d %d' % (n, lo, hi))
        lines.append('ibsf %d %d %d' % (n, lo, hi))
    out = ctx.model('c09', lines)
    model = {}
    for i, t in enumerate(triples):
        model[('ipauli',) + t] = [] if out[2 * i] == '-' else out[2 * i].split(',')
        model[('ibsf',) + t] = [] if out[2 * i + 1] == '-' else out[2 * i + 1].split(',')

    truths = {}

    def judge(kind, t, pattern, form, seq):
        """seq: canonical strings of the items as the consumer finally sees them"""
        n, lo, hi = t
        rep = {'fn': kind, 'n': n, 'min_weight': lo, 'max_weight': hi, 'call': repr(form), 'pattern': pattern}
        exp = model[(kind,) + t]
        ctx.cmp('%s[%s]' % (kind, pattern), '%s %s' % (t, form), ','.join(seq) or '-', ','.join(exp) or '-')
        if (kind,) + t not in truths:
            tr = set(''.join(p) for p in itertools.product(LET, repeat=n)
                     if lo <= sum(1 for ch in p if ch != 'I') <= hi)
            truths[(kind,) + t] = set(_bits_of_pauli(s) for s in tr) if kind == 'ibsf' else tr
        truth = truths[(kind,) + t]
        if len(seq) != len(set(seq)):
            seen, dup = set(), None
            for i, c in enumerate(seq):
                if c in seen:
                    dup = (i, c)
                    break
                seen.add(c)
            ctx.violation('iter-dup', '%s consumed as "%s" holds the same operator more than once' % (kind, pattern),
                          dict(rep, first_duplicate_index=dup[0], duplicate=dup[1], distinct=len(set(seq)),
                               yielded=len(seq), model_first=exp[:4], got_first=seq[:4]))
        if set(seq) != truth:
            ctx.violation('iter-complete', '%s consumed as "%s" is not exactly the Paulis of the weight range'
                          % (kind, pattern),
                          dict(rep, missing=sorted(truth - set(seq))[:5], extra=sorted(set(seq) - truth)[:5]))
        ws = [_wt_item(kind, c) for c in seq]
        if ws != sorted(ws):
            ctx.violation('iter-order', '%s consumed as "%s": weights decrease' % (kind, pattern), rep)
        if len(seq) != len(exp):
            ctx.violation('iter-length', '%s consumed as "%s" yields %d items, model %d'
                          % (kind, pattern, len(seq), len(exp)), rep)

    for kind in ('ipauli', 'ibsf'):
        f = getattr(pt, kind)
        for t in triples:
            n, lo, hi = t
            forms = _call_forms(n, lo, hi)
            for pattern in PATTERNS:
                if kind == 'ipauli' and pattern in ('stream-overwrite', 'collect-overwrite'):
                    continue  # str items cannot be written to
                if n == imax and n >= 5 and pattern not in ('collect', 'interleave-same') and rng.random() < 0.6:
                    continue  # largest size: every triple collected, a sample of the other patterns
                form = forms[rng.randrange(len(forms))]

                def mk(form=form):
                    return f(*form[0], **form[1])
                ctx.count((kind, t, pattern), n >= 2 and hi >= 1, 'iter-' + pattern,
                          {'iterator': kind, 'args': list(t), 'pattern': pattern}
                          if (kind, t, pattern) == ('ibsf', (3, 1, 2), 'interleave-same') else None)
                if pattern == 'stream':
                    judge(kind, t, pattern, form, [_canon_item(x) for x in mk()])
                elif pattern == 'collect':
                    items = list(mk())
                    judge(kind, t, pattern, form, [_canon_item(x) for x in items])
                elif pattern == 'interleave-same':
                    g1, g2 = _interleave(mk(), mk(), rng)
                    judge(kind, t, pattern + '/first', form, [_canon_item(x) for x in g1])
                    judge(kind, t, pattern + '/second', form, [_canon_item(x) for x in g2])
                elif pattern == 'interleave-other':
                    t2 = triples[rng.randrange(len(triples))]
                    while t2[0] > 5:
                        t2 = triples[rng.randrange(len(triples))]
                    g1, g2 = _interleave(mk(), f(*t2), rng)
                    judge(kind, t, pattern + '/first', form, [_canon_item(x) for x in g1])
                    judge(kind, t2, pattern + '/second', (t2, {}), [_canon_item(x) for x in g2])
                elif pattern == 'abandon-restart':
                    it = mk()
                    head = list(itertools.islice(it, rng.randint(0, 7)))
                    again = list(mk())
                    rest = list(it)
                    judge(kind, t, pattern + '/restarted', form, [_canon_item(x) for x in again])
                    judge(kind, t, pattern + '/resumed', form, [_canon_item(x) for x in head + rest])
                elif pattern == 'stream-overwrite':
                    seq = []
                    for x in mk():
                        seq.append(_canon_item(x))
                        _scribble(x, rng)  # the yielded array is the consumer's
                    judge(kind, t, pattern, form, seq)
                elif pattern == 'collect-overwrite':
                    items = list(mk())
                    before = [_canon_item(x) for x in items]
                    for i in sorted(set(rng.randrange(len(items)) for _ in range(3))) if items else []:
                        if not _scribble(items[i], rng):
                            continue
                        after = [_canon_item(x) for x in items]
                        moved = [j for j in range(len(items)) if j != i and after[j] != before[j]]
                        if moved:
                            ctx.violation('iter-alias', 'writing to one collected %s element changes another' % kind,
                                          {'fn': kind, 'n': n, 'min_weight': lo, 'max_weight': hi, 'call': repr(form),
                                           'written_index': i, 'changed_index': moved[0],
                                           'was': before[moved[0]], 'now': after[moved[0]]})
                        before = after
                    # the elements not written to are still the model's
                    # (judge on the sequence as first collected is the 'collect' pattern)


# ------------------------------------------------------------------------------------------------------------------
# 2. call histories of every public function
# ------------------------------------------------------------------------------------------------------------------
def _rbits(rng, k):
    """a binary vector; all-zero, all-one and one-hot vectors come up with moderate probability"""
    return np.array(fill(rng, 1, k, any_fill(rng))[0], dtype=int).reshape(k)


def _rmat(rng, r, c):
    """a binary matrix; all-zero (every stacked operator the identity), all-one, one-hot and partly zero ones too"""
    return np.array(fill(rng, r, c, any_fill(rng)), dtype=int).reshape(r, c)


def _rpauli(rng, n):
    k = rng.randrange(3)
    return ''.join(rng.choice(LET if k == 0 else ('IIIIIIXYZ' if k == 1 else 'XYZ')) for _ in range(n))


def _hexs(h):
    return h if h else '-'


class Op:
    """name; gen(rng)->args (a list of Python objects, freshly built); line(args)->model request;
    canon(result)->canonical string; arrays(result)->list of ndarrays owned by the caller"""

    def __init__(self, name, call, gen, line, canon, arrays=lambda r: [r] if isinstance(r, np.ndarray) else [],
                 problem=None):
        self.name, self.call, self.gen, self.line, self._canon, self.arrays = name, call, gen, line, canon, arrays
        self._problem = problem

    def canon(self, r):
        """canonical string of a result; a result of an unexpected type or shape must not stop the run"""
        try:
            return self._canon(r)
        except Exception:  # noqa
            return 'UNCANON(%s)' % describe(r)

    def problem(self, args, r):
        """None, or what is wrong with the type / shape of the result for these arguments"""
        try:
            return self._problem(args, r) if self._problem else None
        except Exception as e:  # noqa
            return 'result cannot be examined (%s): %s' % (exc_class(e), describe(r))


def _is_int(a, r):
    return int_problem(r)


def _is_str(a, r):
    return None if isinstance(r, str) else 'expected a string, got ' + describe(r)


def _bsp_shape(a, r):
    return array_problem(r, tuple(a[0].shape[:-1]) + tuple(a[1].shape[1:]))


def _ops(pt, rng, big):
    def n_():
        return rng.randint(1, big) if rng.random() < 0.25 else rng.randint(1, 9)

    def gen_unpack():
        v = _rbits(rng, rng.choice([0, 1, 2, 7, 8, 9, 15, 16, 17, 63, 64, 65]) if rng.random() < 0.5
                   else rng.randint(1, 4 * big))
        h = bytearray(np.packbits(v).tolist()).hex()  # numpy, not the code under test
        return [(h, len(v)) if rng.random() < 0.5 else [h, len(v)]]

    def gen_iter():
        n = rng.randint(1, 4)
        lo = rng.randint(0, n)
        return [n, lo, rng.randint(lo, n)]

    return [
        Op('pauli_to_bsf', pt.pauli_to_bsf, lambda: [_rpauli(rng, n_())], lambda a: 'to_bsf ' + a[0], bitstr,
           problem=lambda a, r: array_problem(r, (2 * len(a[0]),))),
        Op('pauli_to_bsf(list)', pt.pauli_to_bsf,
           lambda: (lambda n: [[_rpauli(rng, n) for _ in range(rng.randint(1, 4))]])(n_()),
           lambda a: 'to_bsf_list ' + ','.join(a[0]), rowsstr,
           problem=lambda a, r: array_problem(r, (len(a[0]), 2 * len(a[0][0])))),
        Op('pauli_wt', pt.pauli_wt, lambda: [_rpauli(rng, n_())], lambda a: 'pauli_wt ' + a[0], lambda r: str(int(r)),
           problem=_is_int),
        Op('pauli_wt(list)', pt.pauli_wt,
           lambda: (lambda n: [[_rpauli(rng, n) for _ in range(rng.randint(1, 4))]])(n_()),
           lambda a: 'pauli_wt_list ' + ','.join(a[0]), lambda r: str(int(r)), problem=_is_int),
        Op('bsf_to_pauli', pt.bsf_to_pauli, lambda: [_rbits(rng, 2 * n_())], lambda a: 'of_bsf ' + bitstr(a[0]),
           lambda r: r, problem=_is_str),
        Op('bsf_to_pauli(2d)', pt.bsf_to_pauli, lambda: [_rmat(rng, rng.randint(1, 4), 2 * n_())],
           lambda a: 'of_bsf_list ' + rowsstr(a[0]), lambda r: ','.join(r),
           problem=lambda a, r: None if isinstance(r, list) and len(r) == a[0].shape[0]
           and all(isinstance(x, str) for x in r) else 'expected a list of %d strings, got %s' % (a[0].shape[0],
                                                                                                describe(r))),
        Op('bsf_wt', pt.bsf_wt, lambda: [_rbits(rng, 2 * n_())], lambda a: 'bsf_wt ' + bitstr(a[0]),
           lambda r: str(int(r)), problem=_is_int),
        Op('bsf_wt(2d)', pt.bsf_wt, lambda: [_rmat(rng, rng.randint(1, 4), 2 * n_())],
           lambda a: 'bsf_wt_rows ' + rowsstr(a[0]), lambda r: str(int(r)), problem=_is_int),
        Op('bsp(vec,vec)', pt.bsp, lambda: (lambda n: [_rbits(rng, 2 * n), _rbits(rng, 2 * n)])(n_()),
           lambda a: 'bsp %s %s' % (bitstr(a[0]), bitstr(a[1])), lambda r: str(int(r)), problem=_bsp_shape),
        Op('bsp(vec,mat)', pt.bsp,
           lambda: (lambda n: [_rbits(rng, 2 * n), _rmat(rng, 2 * n, rng.randint(1, 4))])(n_()),
           lambda a: 'bsp_vm %s %s %d' % (bitstr(a[0]), rowsstr(a[1]), a[1].shape[1]), bitstr, problem=_bsp_shape),
        Op('bsp(mat,vec)', pt.bsp,
           lambda: (lambda n: [_rmat(rng, rng.randint(1, 4), 2 * n), _rbits(rng, 2 * n)])(n_()),
           lambda a: 'bsp_mv %s %s' % (rowsstr(a[0]), bitstr(a[1])), bitstr, problem=_bsp_shape),
        Op('bsp(mat,mat)', pt.bsp,
           lambda: (lambda n: [_rmat(rng, rng.randint(1, 4), 2 * n), _rmat(rng, 2 * n, rng.randint(1, 4))])(n_()),
           lambda a: 'bsp_mm %s %s %d' % (rowsstr(a[0]), rowsstr(a[1]), a[1].shape[1]), rowsstr,
           problem=_bsp_shape),
        Op('pack', pt.pack, lambda: [_rbits(rng, rng.randint(0, 4 * big))], lambda a: 'pack ' + bitstr(a[0]),
           lambda r: '%s %d' % (_hexs(r[0]), r[1])),
        Op('unpack', pt.unpack, gen_unpack, lambda a: 'unpack %s %d' % (_hexs(a[0][0]), a[0][1]), bitstr,
           problem=lambda a, r: array_problem(r, (a[0][1],))),
        Op('list(ipauli)', lambda *a: list(pt.ipauli(*a)), gen_iter, lambda a: 'ipauli %d %d %d' % tuple(a),
           lambda r: ','.join(r) or '-', lambda r: []),
        Op('list(ibsf)', lambda *a: list(pt.ibsf(*a)), gen_iter, lambda a: 'ibsf %d %d %d' % tuple(a),
           rowsstr, lambda r: list(r),
           problem=lambda a, r: next((p for p in (array_problem(x, (2 * a[0],)) for x in r) if p), None)),
    ]


def _fresh(args):
    """equal values, new objects"""
    out = []
    for a in args:
        if isinstance(a, np.ndarray):
            out.append(np.array(a.tolist(), dtype=a.dtype).reshape(a.shape))
        elif isinstance(a, list):
            out.append(list(a))
        elif isinstance(a, tuple):
            out.append(tuple(a))
        else:
            out.append(a)
    return out


def _mutate_args(op, args, rng):
    """write to the argument objects in place, keeping them inside the function's domain; True if anything changed"""
    changed = False
    for a in args:
        if isinstance(a, np.ndarray):
            changed = _scribble(a, rng) or changed
        elif isinstance(a, list) and a and isinstance(a[0], str) and op.name != 'unpack':
            i = rng.randrange(len(a))
            new = _rpauli(rng, len(a[i]))
            changed = changed or new != a[i]
            a[i] = new
        elif isinstance(a, list) and op.name == 'unpack':
            h, ln = a
            if ln >= 1:
                a[1] = rng.randint(0, ln - 1)  # a shorter prefix of the same bytes
                a[0] = h[:2 * ((a[1] + 7) // 8)] if rng.random() < 0.5 else h
                changed = True
    return changed


def run_histories(ctx, pt):
    rng = ctx.rng
    big = ctx.pick(40, 120)
    ops = _ops(pt, rng, big)
    recs = []  # (op name, model line, got canonical, stage, replay dict, first-call record index or None)
    retained = []  # (record index of the answer, op, result object, canonical at return time)
    window = []

    def call(op, args):
        try:
            r = op.call(*args)
        except Exception as e:  # noqa
            return None, 'ERR ' + exc_class(e)
        prob = op.problem(args, r)
        if prob:
            # the type / shape of an answer is part of the answer: one entry per stacked operator, an integer weight...
            ctx.violation('result-shape', '%s: %s' % (op.name, prob),
                          {'fn': op.name, 'request': op.line(args)[:600], 'got': describe(r)})
            return None, 'SHAPE ' + describe(r)[:200]
        return r, None

    def record(op, line, got, stage, hist, first):
        recs.append((op.name, line, got, stage, {'fn': op.name, 'request': line[:600], 'stage': stage,
                                                 'history': list(hist)}, first))
        return len(recs) - 1

    def look_again():
        """results kept from earlier calls, looked at after later calls (of other functions and sizes) have run"""
        for (idx, op, obj, c0) in retained:
            c1 = op.canon(obj)
            ctx.count(None, False, 'history-retained')
            if c1 != c0:
                name, line, _, _, rep, _ = recs[idx]
                # the value when returned is what is compared with the model (record idx); here it changed by itself
                ctx.violation('history-retained', 'a result kept by the caller changed while later calls ran',
                              dict(rep, returned=c0[:400], now=c1[:400], later_calls=[w[:120] for w in window][:40]))
        del retained[:]
        del window[:]

    ncases = ctx.pick(8000, 80000)
    for case in range(ncases):
        op = ops[rng.randrange(len(ops))]
        args = op.gen()
        line = op.line(args)
        hist = ['r1 = %s(%s)' % (op.name, line[:200])]
        window.append(line)
        r1, err = call(op, args)
        if err:
            record(op, line, err, 'call-1', hist, None)
            ctx.count(None, False, 'history-error')
            continue
        c1 = op.canon(r1)
        first = record(op, line, c1, 'call-1', hist, None)
        ctx.count(('hist', op.name, line[:80]), True, 'history',
                  {'history-of': op.name, 'request': line} if len(ctx.samples) < 6 and op.name == 'unpack' else None)
        if op.line(args) != line:
            ctx.violation('input-mutated', 'the call changed its argument', {'fn': op.name, 'request': line[:600],
                                                                             'now': op.line(args)[:600]})
            continue
        # the caller writes to what it was given
        wrote = False
        for arr in op.arrays(r1):
            wrote = _scribble(arr, rng) or wrote
        if wrote:
            hist.append('r1 overwritten in place by the caller, now ' + op.canon(r1)[:200])
            if op.line(args) != line:
                ctx.violation('result-aliases-input', 'writing to the result changes the argument',
                              {'fn': op.name, 'request': line[:600], 'now': op.line(args)[:600]})
                continue
        # call again with equal, fresh arguments (for unpack: as a tuple or as a list, as loaded from JSON)
        args2 = _fresh(args)
        if op.name == 'unpack':
            args2 = [tuple(args[0]) if rng.random() < 0.5 else list(args[0])]
        hist.append('r2 = %s(equal fresh arguments)' % op.name)
        r2, err = call(op, args2)
        c2 = err or op.canon(r2)
        idx2 = record(op, line, c2, 'call-2-after-result-overwritten' if wrote else 'call-2', hist, first)
        if err:
            continue
        # the caller now writes to the argument objects (both sets); r2 is a value and must stay what it was
        ch1 = _mutate_args(op, args, rng)
        ch2 = _mutate_args(op, args2, rng)
        if ch1 or ch2:
            hist.append('argument objects overwritten in place by the caller, now ' + op.line(args)[:200])
            if op.canon(r2) != c2:
                ctx.violation('result-views-input', 'writing to the arguments after the call changes the result',
                              dict(recs[idx2][4], returned=c2[:400], now=op.canon(r2)[:400]))
                continue
        # same objects, new contents: the answer must be the one for the new contents
        if ch1:
            line3 = op.line(args)
            hist3 = hist + ['r3 = %s(the first argument objects, now %s)' % (op.name, line3[:200])]
            window.append(line3)
            r3, err = call(op, args)
            c3 = err or op.canon(r3)
            r3c, errc = call(op, _fresh(args))  # control: the new contents in objects never seen before
            ctl = record(op, line3, errc or op.canon(r3c), 'call-1', [hist3[-1] + ' (fresh objects)'], None)
            idx3 = record(op, line3, c3, 'call-3-same-objects-new-contents', hist3, ctl)
            if not err and rng.random() < 0.5:
                retained.append((idx3, op, r3, c3))
        retained.append((idx2, op, r2, c2))
        if len(retained) >= 24:
            look_again()
    look_again()

    # ---- the model's answers ------------------------------------------------------------------------------------
    out = ctx.model('c09', [r[1] for r in recs])
    for i, ((name, line, got, stage, rep, first), m) in enumerate(zip(recs, out)):
        ok = ctx.cmp('%s[%s]' % (name, stage), line[:400], got, m)
        if ok:
            continue
        first_ok = first is None or recs[first][2] == out[first]
        if stage != 'call-1' and first_ok:
            # same function, same argument values, a different answer only because of what happened in between
            ctx.violation('history-' + stage, 'after this history the answer is not the model\'s answer',
                          dict(rep, got=got[:400], expected_by_model=m[:400]))


def run(ctx, pt):
    run_iterators(ctx, pt)
    run_histories(ctx, pt)
