"""C08 beyond the exhaustive-search range: LOGICALS AT LARGE SIZES.

The family checks decide C08 exhaustively on small sizes and compare logical weights up to 11..17 (quick) / 16..21
(thorough).  An implementation may switch code paths on the LENGTH of a line of sites (vectorised bulk paths, small-integer
widths, chunking), i.e. at sizes with a side beyond 32 / 64 / 128 / 256.  This pass takes, for all five families, long thin
lattices on both sides of such thresholds (and, in the thorough tier, large squares) and decides on what the implementation
publishes for them:

  * n_k_d equals the model's n_k_d formula (extracted engine);
  * every supplied logical has weight >= d, and the lightest has weight exactly d (theorems *_logical_weights_all:
    the model's logicals, which the implementation's are compared with row by row, have that property at all sizes);
  * every supplied logical commutes with every published stabilizer, X_i / Z_j anticommute exactly when i = j, and no
    supplied logical is a product of stabilizers (own GF(2) elimination);
  * no Pauli operator of weight 1 or 2 is a non-trivial logical when d exceeds that weight (column form of the low-weight
    sweep: a single-qubit operator's syndrome is a column of the stabilizer matrix, so this costs O(n m) at any size);
  * the logical rows equal the model's rows (the expected rows come from the extracted engine, never from the
    implementation).

Everything is evaluated with this module's own arithmetic (no qecsim.paulitools)."""
import numpy as np

from harness import lat_common

THRESHOLDS = (32, 64, 128, 256)


def sizes(ctx):
    """(class, args) with one side just below / at / just beyond 32, 64, 128, 256 for every family (long thin lattices with
    a short side of 3 or 4 so that d >= 3 and the short logical has weight d, the long one runs over the long side)."""
    PlanarCode, ToricCode, RotatedPlanarCode, RotatedToricCode, Color666Code = lat_common._families()
    rng = ctx.rng
    out = []
    ths = THRESHOLDS if not ctx.quick else THRESHOLDS[:3]
    for t in ths:
        short = rng.choice((3, 4))
        other = 7 - short
        # one step beyond the threshold in both orientations, the threshold itself, and a random size further out
        far = t + rng.randint(2, 12)
        for cls in (PlanarCode, ToricCode, RotatedPlanarCode):
            out += [(cls, (short, t + 1)), (cls, (t + 1, short)), (cls, (other, t)), (cls, (t, other)),
                    (cls, (other, far)), (cls, (far, short))]
        e = rng.choice((2, 4))
        o = 6 - e
        far += far % 2
        out += [(RotatedToricCode, (e, t + 2)), (RotatedToricCode, (t + 2, e)), (RotatedToricCode, (o, t)),
                (RotatedToricCode, (t, o)), (RotatedToricCode, (o, far)), (RotatedToricCode, (far, e))]
    out += [(PlanarCode, (2, 35)), (PlanarCode, (35, 2)), (ToricCode, (2, 35)), (ToricCode, (35, 2))]
    # between the family checks' range and the first threshold: random long sides in 12..31, both orientations, one square
    for cls in (PlanarCode, ToricCode, RotatedPlanarCode, RotatedToricCode):
        step = 2 if cls is RotatedToricCode else 1
        for _ in range(ctx.pick(3, 6)):
            a, b = rng.choice((3, 4, 5)), rng.randint(12, 31)
            if step == 2:
                a, b = rng.choice((2, 4, 6)), b + b % 2
            out += [(cls, (a, b)), (cls, (b, a))]
        q = rng.randint(12, 24)
        out.append((cls, (q + q % step, q + q % step)))
    out += [(Color666Code, (s,)) for s in rng.sample(range(15, 33, 2), ctx.pick(2, 4))]
    # two-dimensional: both sides beyond the first threshold (all logicals run over more than 32 sites)
    out += [(RotatedPlanarCode, (33, 33)), (RotatedPlanarCode, (33, 34)), (RotatedToricCode, (34, 34)),
            (Color666Code, (33,)), (Color666Code, (35,))]
    if not ctx.quick:
        out += [(PlanarCode, (33, 33)), (PlanarCode, (33, 35)), (ToricCode, (33, 33)), (ToricCode, (34, 33)),
                (RotatedPlanarCode, (65, 66)), (RotatedToricCode, (66, 68)), (Color666Code, (65,)), (Color666Code, (67,))]
    seen, uniq = set(), []
    for cls, args in out:
        if (cls, args) not in seen:
            seen.add((cls, args))
            uniq.append((cls, args))
    return uniq


def _request(cls, args):
    nm = cls.__name__
    if nm == 'PlanarCode':
        return 'latpt', ['pcode %d %d' % args]
    if nm == 'ToricCode':
        return 'latpt', ['tcode %d %d' % args]
    if nm == 'RotatedPlanarCode':
        return 'latrc', ['rp_nkd %d %d' % args, 'rp_code %d %d' % args]
    if nm == 'RotatedToricCode':
        return 'latrc', ['rt_nkd %d %d' % args, 'rt_code %d %d' % args]
    return 'latrc', ['c6_nkd %d' % args, 'c6_code %d' % args]


def _model_rows(field, width, hexa):
    """model reply field -> list of Python ints (one per row, bit 2n-1 = first column)"""
    if field == '-':
        return []
    return [int(s, 16 if hexa else 2) for s in field.split(',')]


def _ints(M):
    """rows of a 0/1 matrix as Python ints (first column = most significant of `width` bits)"""
    M = np.asarray(M).astype(np.uint8) & 1
    if M.ndim != 2 or M.shape[0] == 0:
        return []
    width = M.shape[1]
    pad = (-width) % 8
    if pad:
        M = np.hstack([np.zeros((M.shape[0], pad), dtype=np.uint8), M])
    return [int.from_bytes(r.tobytes(), 'big') for r in np.packbits(M, axis=1)]


def _basis(rows):
    basis = {}
    for v in rows:
        while v:
            h = v.bit_length()
            b = basis.get(h)
            if b is None:
                basis[h] = v
                break
            v ^= b
    return basis


def _in_span(basis, v):
    while v:
        b = basis.get(v.bit_length())
        if b is None:
            return False
        v ^= b
    return True


def _pauli(v, n):
    """int bsf row -> compact description: weight and the non-identity letters by qubit (at most 12 shown)"""
    x, z = v >> n, v & ((1 << n) - 1)
    sup = [(q, 'IXZY'[(x >> (n - 1 - q) & 1) + 2 * (z >> (n - 1 - q) & 1)]) for q in range(n)
           if (x | z) >> (n - 1 - q) & 1]
    return {'weight': len(sup), 'support': ['%s%d' % (l, q) for q, l in sup[:12]]}


def light_normalizer(n, d, S, basis):
    """A weight-1 or weight-2 Pauli operator (int bsf row) lighter than d that commutes with every row of S and is not in
    their span, or None; and the number of commuting candidates examined.  Column form: the syndrome of X_q is column q
    of the Z half, of Z_q column q of the X half, of Y_q their sum."""
    S = np.asarray(S).astype(np.uint8) & 1
    Sx, Sz = S[:, :n], S[:, n:]
    cols = np.concatenate([Sz.T, Sx.T, (Sx ^ Sz).T])        # 3n syndromes: X_q, Z_q, Y_q
    ops = [1 << (2 * n - 1 - q) for q in range(n)] + [1 << (n - 1 - q) for q in range(n)]
    ops += [ops[q] | ops[n + q] for q in range(n)]
    nonzero = cols.any(axis=1)
    cand = []
    if d > 1:
        cand += [ops[i] for i in np.flatnonzero(~nonzero)]
    if d > 2:
        groups = {}
        packed = np.packbits(cols, axis=1)
        for i in np.flatnonzero(nonzero):
            groups.setdefault(packed[i].tobytes(), []).append(int(i))
        for lst in groups.values():
            for a in range(len(lst)):
                for b in range(a + 1, len(lst)):
                    if lst[a] % n != lst[b] % n:
                        cand.append(ops[lst[a]] | ops[lst[b]])
    for v in cand:
        if not _in_span(basis, v):
            return v, len(cand)
    return None, len(cand)


def _bits(M):
    return np.asarray(M).astype(np.float64)


def _anti(A, B, n):
    A, B = _bits(A), _bits(B)
    return np.rint(A[:, :n] @ B[:, n:].T + A[:, n:] @ B[:, :n].T).astype(np.int64) % 2


def _model_parallel(ctx, reqs, parts=4):
    """ctx.model on interleaved chunks of the request lines of every engine, concurrently (replies are independent per
    line); {engine: replies}"""
    from concurrent.futures import ThreadPoolExecutor
    jobs = [(eng, i, lines[i::parts]) for eng, lines in reqs.items() for i in range(parts)]
    with ThreadPoolExecutor(max_workers=len(jobs)) as ex:
        outs = list(ex.map(lambda j: ctx.model(j[0], j[2]), jobs))
    replies = {eng: [None] * len(lines) for eng, lines in reqs.items()}
    for (eng, i, _), out in zip(jobs, outs):
        replies[eng][i::parts] = out
    return replies


def large_sizes(ctx):
    cases = sizes(ctx)
    reqs = {'latpt': [], 'latrc': []}
    where = []
    for cls, args in cases:
        eng, lines = _request(cls, args)
        where.append((eng, len(reqs[eng]), len(lines)))
        reqs[eng] += lines
    replies = _model_parallel(ctx, reqs)
    viol = lat_common._viol
    largest = 0
    for (cls, args), (eng, at, cnt) in zip(cases, where):
        fam = lat_common.FAMILY_OF[cls.__name__]
        rep = lat_common._rep(cls, args, check='large-size-logicals')
        inp = '%s%s' % (cls.__name__, args)
        rp = replies[eng][at:at + cnt]
        if eng == 'latpt':
            f = rp[0].split(' ')
            m_nkd, mS, mX, mZ = (f + [''] * 4)[:4]
            hexa = True
        else:
            f = rp[1].split(' ')
            m_nkd = rp[0]
            mS, mX, mZ = (f + [''] * 3)[:3]
            hexa = False
        try:
            m_nkd = [int(v) for v in m_nkd.split(',')]
            assert len(m_nkd) == 3
        except Exception:  # noqa
            ctx.cmp(fam + ' large-size model reply', inp, '<n,k,d and three matrices>', ' '.join(rp)[:200])
            continue
        try:
            code = cls(*args)
        except Exception as e:  # noqa
            viol(ctx, 'matrices-raise', 'constructor raises on an accepted size', dict(rep, attribute='__init__', exception=repr(e)[:200]))
            continue
        vals = {}
        for a in ('n_k_d', 'stabilizers', 'logical_xs', 'logical_zs'):
            ok, v = lat_common.read_attr(ctx, code, a, rep)
            if ok:
                vals[a] = v
        ctx.count(('large', cls.__name__, args), True, 'large-size-logicals/' + fam,
                  dict(rep, n_k_d_model=m_nkd) if (cls.__name__, args) == ('RotatedPlanarCode', (33, 33)) else None)
        if len(vals) < 4:
            continue
        try:
            n, k, d = (int(v) for v in vals['n_k_d'])
        except Exception:  # noqa
            viol(ctx, 'large-size-n_k_d', 'n_k_d is not a triple of integers', dict(rep, n_k_d=repr(vals['n_k_d'])))
            continue
        rep['n_k_d'] = [n, k, d]
        largest = max(largest, n)
        # ---- n_k_d against the model formula
        if [n, k, d] != m_nkd:
            viol(ctx, 'large-size-n_k_d', 'n_k_d differs from the model formula', dict(rep, n_k_d_model=m_nkd))
        S, X, Z = (np.asarray(vals[a]) for a in ('stabilizers', 'logical_xs', 'logical_zs'))
        if S.ndim != 2 or S.shape[1] != 2 * n or X.shape != (k, 2 * n) or Z.shape != (k, 2 * n) \
                or any(not np.issubdtype(M.dtype, np.integer) or not np.array_equal(M, M % 2) for M in (S, X, Z)):
            viol(ctx, 'large-size-shapes', 'published matrices are not binary integer matrices of the shapes n, k announce',
                 dict(rep, shapes=[list(S.shape), list(X.shape), list(Z.shape)]))
            continue
        # ---- supplied logicals: weights
        L = np.vstack([X, Z])
        names = ['logical_xs[%d]' % i for i in range(k)] + ['logical_zs[%d]' % i for i in range(k)]
        wts = [int(np.count_nonzero(r[:n] | r[n:])) for r in L]
        for nm, w in zip(names, wts):
            if w < d:
                viol(ctx, 'large-size-logical-lighter', 'a supplied logical is lighter than the advertised d',
                     dict(rep, which=nm, weight=w))
        if wts and min(wts) > d:
            viol(ctx, 'large-size-logical-weights', 'lightest supplied logical has weight %d, advertised d=%d (the model\'s '
                 'lightest logical has weight exactly d at every size)' % (min(wts), d), dict(rep, weights=wts))
        # ---- supplied logicals: normalizer, pairing, non-trivial
        a = _anti(S, L, n)
        if a.any():
            i, j = (int(v) for v in np.argwhere(a)[0])
            viol(ctx, 'large-size-logical-anticommutes', 'a supplied logical anticommutes with a published stabilizer',
                 dict(rep, which=names[j], stabilizer_row=i, weight=wts[j]))
        a = _anti(L, L, n)
        want = np.zeros((2 * k, 2 * k), dtype=np.int64)
        for i in range(k):
            want[i, k + i] = want[k + i, i] = 1
        if not np.array_equal(a, want):
            i, j = (int(v) for v in np.argwhere(a != want)[0])
            viol(ctx, 'large-size-logical-pairing', 'supplied logical X_i / Z_j do not anticommute exactly when i = j',
                 dict(rep, pair=[names[i], names[j]], anticommute=bool(a[i, j])))
        Sint, Lint = _ints(S), _ints(L)
        basis = _basis(Sint)
        if len(basis) != n - k:
            viol(ctx, 'large-size-rank', 'published stabilizers have GF(2) rank %d, n-k = %d' % (len(basis), n - k), rep)
        grown = dict(basis)
        for nm, v, w in zip(names, Lint, wts):
            # independent of the stabilizers AND of the logicals before it
            u = v
            while u:
                h = u.bit_length()
                b = grown.get(h)
                if b is None:
                    grown[h] = u
                    break
                u ^= b
            if not u:
                viol(ctx, 'large-size-logical-trivial', 'a supplied logical is a product of stabilizers (and earlier logicals): '
                     'not a non-trivial logical', dict(rep, which=nm, weight=w))
        # ---- no lighter non-trivial logical of weight 1 or 2
        v, ncand = light_normalizer(n, d, S, basis)
        if v is not None:
            viol(ctx, 'large-size-low-weight-logical', 'a non-trivial logical operator lighter than the advertised d exists',
                 dict(rep, operator=_pauli(v, n)))
        # ---- rows against the model
        for attr, M, field in (('stabilizers', S, mS), ('logical_xs', X, mX), ('logical_zs', Z, mZ)):
            mine, model = _ints(M), _model_rows(field, 2 * n, hexa)
            same = mine == model
            ctx.cmp('%s.%s (large size)' % (fam, attr), inp, 'equal' if same else 'differs', 'equal')
            if not same and attr != 'stabilizers':
                i = next((j for j in range(min(len(mine), len(model))) if mine[j] != model[j]), min(len(mine), len(model)))
                det = {'row': i, 'rows': [len(mine), len(model)]}
                if i < len(mine) and i < len(model):
                    det.update(published=_pauli(mine[i], n), model=_pauli(model[i], n))
                viol(ctx, 'large-size-logical-differs-from-model', '%s differs from the model\'s %s' % (attr, attr), dict(rep, **det))
    ctx.notes.append('large sizes: %d lattices with a side at / beyond 32, 64, 128%s (all five families): n_k_d against the model '
                     'formula, supplied logicals (weight >= d, lightest == d, normalizer, pairing, non-trivial), no weight-1/2 '
                     'logical, rows against the model' % (len(cases), '' if ctx.quick else ', 256'))
    ctx.extra['large_sizes'] = {'codes': len(cases), 'largest_n': largest}
