"""C18, record stream: which body records may be served at all.

The other streams of harness/c18.py write every recorded error the way pack() does (the payload holds exactly
ceil(length/8) bytes), so the answer to "is this record consistent with the code?" never depended on the payload.
Here the two parts of a record [hex payload, stated length] are varied independently around the byte boundary, for
several qubit counts:

  stated length L in 2n-9 .. 2n+9, payload of k whole bytes for every k with |8k - L| <= 16 and the empty payload
  (so payload bits - stated length runs through -9 .. +9 and beyond), payload bytes random / all ones / all zeros
  (padding bits are not assumed to be zero), hex digits lower / upper / mixed case, white space between bytes and
  around the payload, an odd number of digits (one digit dropped / added / a pair split by a space);

each such record is put at the first, the middle and the last position of a body of otherwise pack()-written records
(comment and blank lines interleaved), and the model is opened with start 0, just before, at and after the position
(record served first after skipping / skipped unvalidated) and at the end of the file.  Calls ask with the file's
qubit count and, at the varied records, also with the qubit count the stated length or the payload size would fit.

Decision taken from the record text alone (independent of the implementation, mirrors ErrorModels/FileRecords.v
record_decision): a record is served for a code on n qubits iff its payload is valid hex holding at least L bits and
L = 2n; the served array is then exactly the first L payload bits.  Everything else is refused with ValueError.  A
served array that is longer than the payload is an invented error ('short-payload-served'); a served record whose
stated length is not 2n is a missed refusal ('length-refusal').  One lenient case of slicing is not judged directly
(left to the model comparison and counted): payload of exactly 2n bits with a larger stated length."""
import json

HEX_DIGITS = '0123456789abcdefABCDEF'
HEX_SPACES = ' \t\n\r\x0b\x0c'
STYLES = ['lower', 'upper', 'mixed', 'spaced', 'padded', 'lower', 'upper']
ODD = ['drop-digit', 'add-digit', 'split-pair']


def payload_bits(h):
    """the bits a hex payload holds, read as bytes.fromhex documents it (pairs of hex digits, ASCII white space allowed
    between pairs), most significant bit first; None when it is not such a string.  Own code, integer arithmetic."""
    bits, i = [], 0
    while i < len(h):
        if h[i] in HEX_SPACES:
            i += 1
            continue
        pair = h[i:i + 2]
        if len(pair) < 2 or pair[0] not in HEX_DIGITS or pair[1] not in HEX_DIGITS:
            return None
        v = int(pair, 16)
        bits += [(v >> s) & 1 for s in range(7, -1, -1)]
        i += 2
    return bits


def decide(hexs, length, n):
    """what the property demands for the body record [hexs, length] (length an int >= 0) and a code on n qubits"""
    bits = payload_bits(hexs)
    if bits is None:
        return ('refuse', 'bad-hex')
    if length == 2 * n and len(bits) >= length:
        return ('bits', bits[:length])
    if len(bits) == 2 * n and length > len(bits):
        return ('lenient',)
    if length == 2 * n:
        return ('refuse', 'short-payload')
    return ('refuse', 'stated-length')


def styled(rng, raw, style):
    """raw: bytes -> hex text in the given style"""
    h = raw.hex()
    if style == 'upper':
        return h.upper()
    if style == 'mixed':
        return ''.join(c.upper() if rng.random() < 0.5 else c for c in h)
    if style == 'spaced':
        return rng.choice([' ', '\t', '  ', '\n']).join(h[i:i + 2] for i in range(0, len(h), 2))
    if style == 'padded':
        return rng.choice([' ', '\t', ' \r']) + h + rng.choice([' ', '\n', ''])
    return h


def rand_bytes(rng, k):
    r = rng.random()
    if r < 0.2:
        return b'\xff' * k
    if r < 0.3:
        return b'\x00' * k
    if r < 0.4 and k:
        return b'\x00' * (k - 1) + b'\x01'
    return bytes(rng.getrandbits(8) for _ in range(k))


def record_grid(rng, ns):
    """-> list of (n, hex text, stated length, class name) in shuffled order"""
    grid, si = [], 0
    for n in ns:
        for length in range(max(0, 2 * n - 9), 2 * n + 10):
            ks = sorted({0} | {k for k in range(0, (length + 16) // 8 + 1) if abs(8 * k - length) <= 16})
            if length == 2 * n:       # the line on which only the payload decides: every byte count up to two bytes too many
                ks = list(range(0, (length + 7) // 8 + 3)) * 3
            for k in ks:
                style = STYLES[si % len(STYLES)]
                si += 1
                d = 8 * k - length
                cls = 'payload%+d' % d if abs(d) <= 9 else ('empty-payload' if k == 0 else 'payload%s' % ('>+9' if d > 0 else '<-9'))
                grid.append((n, styled(rng, rand_bytes(rng, k), style), length, cls + '/' + style))
        # odd number of digits / split pair, with the right stated length
        nb = (2 * n + 7) // 8
        for odd in ODD:
            for k in (nb, nb + 1, max(1, nb - 1)):
                h = rand_bytes(rng, k).hex()
                if odd == 'drop-digit':
                    h = h[:-1]
                elif odd == 'add-digit':
                    h = h + rng.choice(HEX_DIGITS)
                else:
                    h = h[:1] + ' ' + h[1:]
                if rng.random() < 0.5:
                    h = h.upper()
                grid.append((n, h, 2 * n, 'odd-hex/' + odd))
    rng.shuffle(grid)
    return grid


def record_text(rng, hexs, length):
    return json.dumps([hexs, length], separators=rng.choice([None, (',', ':'), (' ,  ', ':')]))


def make_record_file(rng, base, n0, specials, pos_kind):
    """a body of pack()-written records of a code on n0 qubits with the given varied records at the first / middle / last
    positions; -> (scenario, rec).  base = harness.c18 (its packer, interleaver, assembler and call helpers)."""
    m = rng.randint(max(3, len(specials)), 8)
    slots = {'first': 0, 'middle': m // 2, 'last': m - 1}
    order = [slots[p] for p in pos_kind[:len(specials)]]
    records = []
    for i in range(m):
        e = [rng.randint(0, 1) for _ in range(2 * n0)]
        if rng.random() < 0.3:
            e = [0] * (2 * n0 - 1) + [1]        # the last recorded bit sits in the last payload byte
        records.append((base.pack_bits(e), 2 * n0, None))
    for j, (_, h, length, cls) in zip(order, specials):
        records[j] = (h, length, cls)
    pv = rng.choice([0.1, 0.4, 0.25, 0.5, 1, 1e-3])
    hdr = [('probability', pv), ('label', rng.choice(['records', 'L', 'truncated?']))]
    if rng.random() < 0.4:
        hdr.append(('probability_distribution', [0.7, 0.1, 0.1, 0.1]))
    rng.shuffle(hdr)
    hl, _ = base.interleave(rng, base.layout_lines(rng, hdr, list(range(len(hdr))), [1] if rng.random() < 0.5 else []),
                            rng.choice([0.0, 0.3]))
    bl, _ = base.interleave(rng, [record_text(rng, h, length) for h, length, _ in records], rng.choice([0.0, 0.0, 0.3]))
    text = base.assemble(rng, hl, bl)
    # start: 0, just before / at / just after a varied record (served first after skipping; skipped unvalidated), end
    j = rng.choice(order)
    start = rng.choice([0, 0, j, j, max(0, j - 1), j + 1, m - 1, m])
    p0f = float(pv)
    calls, targets = [], []
    for idx in range(start, m):
        h, length, cls = records[idx]
        n_call = n0
        if cls is not None and rng.random() < 0.3:
            bits = payload_bits(h)
            alts = [n0 + 1, max(0, n0 - 1)]
            if length % 2 == 0:
                alts += [length // 2] * 2           # the code the stated length fits
            if bits is not None:
                alts += [len(bits) // 2]            # the code the payload size fits
            n_call = rng.choice(alts)
        if rng.random() < 0.08:
            calls.append(('G', n0, rng.choice(base.wrong_ps(p0f))))      # refused before pulling: consumes nothing
            targets.append(None)
        calls.append(('G', n_call, rng.choice(base.right_ps(p0f))))
        targets.append(idx)
    for _ in range(2):
        calls.append(('G', n0, p0f))
        targets.append(m)
    rec = {'n0': n0, 'm': m, 'records': records, 'targets': targets, 'start': start,
           'items': hdr, 'errors': []}
    return {'text': text, 'start': start, 'calls': calls}, rec


def expected_records(rec, calls):
    out = []
    for c, t in zip(calls, rec['targets']):
        if t is None:
            out.append(('refuse-p',))
        elif t >= rec['m']:
            out.append(('eof',))
        else:
            h, length, cls = rec['records'][t]
            out.append(decide(h, length, c[1]) + (t,))
    return out


def check_records(ctx, scn, rec, head, outs):
    """the property evaluated on the implementation's answers, record by record"""
    from harness import c18 as base
    rep = dict(base.replay_dict(scn, rec), records=[[h, length] for h, length, _ in rec['records']],
               varied_records={str(i): cls for i, (_, _, cls) in enumerate(rec['records']) if cls})
    if head[0] != 'OK':
        ctx.violation('init-rejected', 'a file whose header is well-formed and whose start lies inside the body was rejected at '
                      'construction with %s (records are validated when they are served)' % head[1], rep)
        return
    exp = expected_records(rec, scn['calls'])
    for i, (c, o, e) in enumerate(zip(scn['calls'], outs, exp)):
        r = dict(rep, call_index=i, call=repr(c), got=base.describe(o))
        if e[0] == 'refuse-p':
            if o[0] != 'E' or o[1] != 'ValueError':
                ctx.violation('refuse', 'a disagreeing probability was not refused with ValueError', r)
            continue
        if e[0] == 'eof':
            if o[0] != 'E' or o[1] != 'EOFError':
                ctx.violation('eof', 'no EOFError after the last record (repeated or invented error?)', r)
            continue
        t = e[-1]
        h, length, cls = rec['records'][t]
        r = dict(r, record_index=t, record=[h, length], qubits_asked=c[1])
        pb = payload_bits(h)
        ctx.hist['record/' + ('varied' if cls else 'packed') + '/' + (e[0] if e[0] != 'refuse' else 'refuse-' + e[1])] += 1
        # (a) whatever was expected: an array that is served must come out of the payload, bit for bit
        if o[0] == 'B':
            if pb is None or len(o[1]) > len(pb):
                ctx.violation('short-payload-served',
                              'record %d %s holds %s payload bits but an array of %d bits was served for it: the error is (partly) '
                              'invented, the record must be refused' % (t, json.dumps([h, length]),
                                                                        'no valid' if pb is None else len(pb), len(o[1])),
                              dict(r, payload_bits=None if pb is None else len(pb), want='ValueError'))
                continue
            if o[1] != pb[:len(o[1])]:
                ctx.violation('replay-order', 'the array served for record %d is not the beginning of its payload' % t,
                              dict(r, want=base.bitstr(pb[:len(o[1])])))
                continue
            if len(o[1]) != 2 * c[1]:
                ctx.violation('length-refusal', 'an array of %d bits was served to a code on %d qubits' % (len(o[1]), c[1]), r)
                continue
        # (b) the decision
        if e[0] == 'bits':
            if o[0] != 'B' or o[1] != e[1]:
                if o[0] == 'E' and o[1] == 'EOFError':
                    ctx.violation('eof', 'EOFError before the records were exhausted', r)
                else:
                    ctx.violation('replay-order', 'record %d (stated length 2n, payload holding at least that many bits) was not '
                                  'served as its first %d payload bits' % (t, length), dict(r, want=base.bitstr(e[1])))
        elif e[0] == 'refuse':
            if o[0] == 'B':
                ctx.violation('length-refusal',
                              'record %d %s (%s) is inconsistent with a code on %d qubits but was served instead of refused'
                              % (t, json.dumps([h, length]), e[1], c[1]), dict(r, want='ValueError'))
            elif o[0] != 'E' or o[1] != 'ValueError':
                ctx.violation('malformed-class', 'record %d (%s) not refused with ValueError' % (t, e[1]), r)
        else:   # lenient: payload of exactly 2n bits, larger stated length (served by slicing; the model says so too)
            if o[0] == 'B':
                ctx.extra.setdefault('lenient_records_served', [])
                if len(ctx.extra['lenient_records_served']) < 5:
                    ctx.extra['lenient_records_served'].append({'record': [h, length], 'qubits_asked': c[1],
                                                               'served': base.bitstr(o[1])})
            elif o[0] != 'E' or o[1] != 'ValueError':
                ctx.violation('malformed-class', 'record %d not served and not refused with ValueError' % t, r)


def run_records(ctx, do):
    """drive the stream; do(scn, rec, kind, checker, nt) runs one file on the implementation and queues it for the model"""
    from harness import c18 as base
    rng = ctx.rng
    ns = ctx.pick([1, 2, 3, 4, 5, 7, 8, 12, 13, 16, 33], list(range(1, 26)) + [31, 32, 33, 40, 64, 100])
    grid = record_grid(rng, ns)
    by_n = {}
    for g in grid:
        by_n.setdefault(g[0], []).append(g)
    nfiles = 0
    # the seeded situation and its neighbours, verbatim (five-qubit and Steane code objects, first / middle / last, after skipping)
    H = '{"probability": 0.4, "label": "records"}\n'
    for n0, good, shorts in [(5, ['f380', '2940', 'ce00', '7bc0'], ['84', '', 'ce', 'CE']),
                             (7, ['fffc', '0004', '8000'], ['ff', '', '00']),
                             (4, ['a5', 'ff'], ['', 'f']),
                             (8, ['a5a5', '0001'], ['a5', '00', '']),
                             (9, ['a5a5c0', '000040'], ['a5a5', '0000', 'a5', ''])]:
        for short in shorts:
            for pos in range(len(good) + 1):
                hexes = good[:pos] + [short] + good[pos:]
                records = [(h, 2 * n0, 'short-payload-verbatim' if j == pos else None) for j, h in enumerate(hexes)]
                for start in sorted({0, pos, min(pos + 1, len(hexes))}):
                    calls = [('G', n0, 0.4)] * (len(hexes) - start + 1)
                    targets = list(range(start, len(hexes) + 1))
                    scn = {'text': H + ''.join(json.dumps([h, length]) + '\n' for h, length, _ in records), 'start': start, 'calls': calls}
                    rec = {'n0': n0, 'm': len(hexes), 'records': records, 'targets': targets, 'start': start, 'items': [], 'errors': []}
                    do(scn, rec, 'records/verbatim', check_records, start <= pos)
                    nfiles += 1
    orders = [['first', 'middle', 'last'], ['middle', 'last', 'first'], ['last', 'first', 'middle']]
    for n0 in ns:
        gs = by_n[n0]
        for i in range(0, len(gs), 3):
            specials = gs[i:i + 3]
            scn, rec = make_record_file(rng, base, n0, specials, orders[nfiles % 3])
            reached = any(t is not None and t < rec['m'] and rec['records'][t][2] for t in rec['targets'])
            do(scn, rec, 'records/n=%d' % n0 if n0 in (1, 5, 7) else 'records', check_records, reached)
            nfiles += 1
    ctx.extra['record_stream'] = {'files': nfiles, 'grid_records': len(grid), 'qubit_counts': ns}
