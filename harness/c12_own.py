"""C12 — result ownership histories.

The property quantifies over every call: a canonical form / truncation must represent its input, consist of isometries
and have unit norm whatever was computed, and whatever the caller did with earlier results, before.  The tensors a call
returns belong to the caller, who commonly works on them in place (absorbs the returned norm into one tensor, flips a
sign, rescales, zeroes or overwrites a site).  A history here is

    call_0, edit_0, call_1, edit_1, ..., call_k          (2-4 calls, all on the SAME caller container)

where every call is left/right_canonical_form (QR and SVD variants, chi, tol, masks, normalise) or truncate, and every
edit modifies, in place, tensors returned by the call before it (or is 'keep': the result is collected and must still be
bit-identical after every later call and edit).  After every edit the input container is checked untouched; every call of
the history is then checked against the full contracts of harness/c12.py (state preserved, isometries, unit norm, bonds,
masks, truncation error bound, zero state; expected values from the snapshot of the input and from the extracted shape
model), so a later call built from memory shared with an earlier, edited result is reported with the concrete history:

    result-aliased-later-call   a call made after an in-place edit of an earlier result violates a contract
    earlier-result-changed      a collected result changed although the caller never touched it
"""
import numpy as np

from harness import c12 as base

_EFFECTIVE_EDITS = [0]     # in-place edits of results made so far in this process (all histories)
EDITS = ('keep', 'absorb-norm', 'negate', 'zero', 'halve-all', 'fill', 'nan')


# ---------------------------------------------------------------------------------------------
class _RecMps:
    """qecsim.tensortools.mps with the last value returned by the three functions under test recorded"""

    def __init__(self, real):
        self._real, self.last = real, None

    def __getattr__(self, name):
        f = getattr(self._real, name)
        if name not in ('left_canonical_form', 'right_canonical_form', 'truncate'):
            return f

        def g(*a, **kw):
            self.last = None
            self.last = f(*a, **kw)
            return self.last
        return g


class _RecTT:
    def __init__(self, tt):
        self.mps = _RecMps(tt.mps)


class _StepCtx:
    """what check_canonical / check_truncate see as ctx: violations of a later call of a history carry the history"""

    def __init__(self, ctx, hrep, step, edited):
        self.ctx, self.hrep, self.step, self.edited, self.n = ctx, hrep, step, edited, 0

    def violation(self, key, what, rep):
        self.n += 1
        if self.step == 0:
            # a single call on a fresh input: replayable on its own unless it depends on what earlier histories left behind
            if _EFFECTIVE_EDITS[0]:
                what += (' [first call of an ownership history on a fresh input; %d in-place edits of results were made by '
                         'earlier histories of this run]' % _EFFECTIVE_EDITS[0])
            self.ctx.violation(key, what, rep)
            return
        extra = {k: rep[k] for k in ('out', 'norm') if k in rep}
        hrep = dict(self.hrep, failing_step=self.step, failing_check=key, **extra)
        if self.edited:
            self.ctx.violation('result-aliased-later-call',
                               'call %d of the history, on the same untouched input, made after the caller edited in place the '
                               'tensors returned by an earlier call (%s): [%s] %s'
                               % (self.step, ', '.join(self.edited), key, what), hrep)
        else:
            self.ctx.violation(key, 'call %d of a history of calls on the same input: %s' % (self.step, what), hrep)


def apply_edit(out, norm, edit):
    """edit the caller's result in place; returns True iff some entry of some tensor was changed"""
    op = edit['op']
    if op == 'keep':
        return False
    ts = [t for t in out if t is not None]
    if not ts or any(not isinstance(t, np.ndarray) for t in ts):
        return False
    sel = ts if op == 'halve-all' else [ts[edit['site'] % len(ts)]]
    changed = False
    for t in sel:
        if not t.flags.writeable:       # a read-only result cannot be edited by the caller
            continue
        before = t.tobytes()
        if op == 'absorb-norm':
            f = 3.0
            try:
                nf = float(norm)
                if np.isfinite(nf) and nf not in (0.0, 1.0):
                    f = nf
            except (TypeError, ValueError):
                pass
            t *= f
        elif op == 'negate':
            t *= -1.0
        elif op == 'zero':
            t[...] = 0.0
        elif op == 'halve-all':
            t *= 0.5
        elif op == 'fill':
            t[...] = (np.arange(t.size, dtype=float) + 1.0).reshape(t.shape)
        elif op == 'nan':
            t[...] = float('nan')
        changed = changed or t.tobytes() != before
    return changed


def snapshot(out):
    return [None if t is None else (t.copy() if isinstance(t, np.ndarray) else t) for t in out]


def run_history(ctx, tt, mpmath, mps, kind, ckind, steps, add, cont=None):
    """steps: list of dicts {fn, chi, tol, qr, normalise, mask, mask_container, edit: {op, site}}"""
    cont = cont or base.Cont(mps, ckind)
    hrep = {'function': 'ownership-history', 'mps': base.hexs(cont.snap), 'kind': kind, 'container': cont.ckind, 'steps': steps}
    rec = _RecTT(tt)
    edited = []         # descriptions of the effective edits so far
    kept = []           # (step, result list, snapshot) of collected results
    effective = 0
    for i, st in enumerate(steps):
        sctx = _StepCtx(ctx, hrep, i, list(edited))
        rec.mps.last = None
        given = cont.obj
        if st['fn'] == 'truncate':
            base.check_truncate(sctx, rec, mpmath, mps, kind, st['chi'], st['tol'], st['mask'], add, cont=cont,
                                mkind=st['mask_container'])
        else:
            base.check_canonical(sctx, rec, mpmath, mps, kind, st['fn'] == 'rcf', st['chi'], st['tol'], st['qr'], st['normalise'],
                                 st['mask'], add, cont=cont, mkind=st['mask_container'])
        # collected results must not have changed (by this call)
        for (j, res, snap) in kept:
            if len(res) != len(snap) or any(not base.tensor_bits_equal(x, y) for x, y in zip(res, snap)):
                ctx.violation('earlier-result-changed', 'the result of call %d, which the caller never touched, was changed by '
                              'call %d' % (j, i), dict(hrep, failing_step=i, kept_step=j))
                kept = []
                break
        res = rec.mps.last
        if res is None or sctx.n:
            break           # exception (reported) or a contract already broken: the history ends here
        if st['fn'] == 'truncate' or st['normalise']:
            out, norm = res
        else:
            out, norm = res, None
        if out is given or i == len(steps) - 1:
            continue        # truncate returned the caller's own container (documented identity): nothing to own
        snap_before = snapshot(out)
        if apply_edit(out, norm, st['edit']):
            effective += 1
            _EFFECTIVE_EDITS[0] += 1
            edited.append('%s after call %d' % (st['edit']['op'], i))
            # the caller edited ITS result; collected results of other calls must not follow
            for (j, res_j, snap) in kept:
                if any(not base.tensor_bits_equal(x, y) for x, y in zip(res_j, snap)):
                    ctx.violation('earlier-result-changed', 'the result of call %d changed when the caller edited the result of '
                                  'call %d in place: two results share memory' % (j, i), dict(hrep, failing_step=i, kept_step=j))
                    kept = []
                    break
            if cont.modified():
                # the result shares memory with the input: the premise "same untouched input" is restored for what follows
                ctx.count(None, False, 'ownership: result shares memory with the input')
                cont.rebuild()
        elif st['edit']['op'] == 'keep':
            kept.append((i, out, snap_before))
    return effective


# ---------------------------------------------------------------------------------------------
def gen_call(rng, mps, maxb, bd, force_qr=None):
    fn = rng.choice(['lcf', 'lcf', 'rcf', 'rcf', 'truncate'])
    mk = rng.choice(base.MASK_CONTAINERS)
    if fn == 'truncate':
        chi = rng.choice([None, 1, 2, 3, max(bd - 1, 1), max(bd // 2, 1), bd + 1])
        tol = rng.choice([None, None, None, 1e-12, 1e-8])
        mask = None if rng.random() < 0.5 else [rng.random() < 0.5 for _ in mps]
        return {'fn': fn, 'chi': chi, 'tol': tol, 'qr': False, 'normalise': True, 'mask': mask, 'mask_container': mk}
    qr = (rng.random() < 0.5) if force_qr is None else force_qr
    if qr:
        chi, tol = rng.choice([None, None, 0]), rng.choice([None, None, 0])
    else:
        chi = rng.choice([None, None, 1, 2, 3, maxb, maxb + 1])
        tol = rng.choice([None, None, None, 1e-12, 1e-8, 1e-3])
    mask = None if rng.random() < 0.5 else [rng.random() < 0.5 for _ in mps]
    return {'fn': fn, 'chi': chi, 'tol': tol, 'qr': qr, 'normalise': rng.random() < 0.6, 'mask': mask, 'mask_container': mk}


def gen_steps(rng, mps):
    ts = [t for t in mps if t is not None]
    maxb = max([max(t.shape[0], t.shape[2]) for t in ts] + [1])
    bd = max([t.shape[0] for t in ts] + [0])
    n = rng.choice([2, 2, 3, 3, 4])
    steps = []
    for i in range(n):
        if steps and rng.random() < 0.55:
            call = dict(rng.choice(steps))      # the same call again (mask copied below)
            call['mask'] = None if call['mask'] is None else list(call['mask'])
        else:
            call = gen_call(rng, mps, maxb, bd)
        call = {k: v for k, v in call.items() if k != 'edit'}
        call['edit'] = {'op': rng.choice(EDITS), 'site': rng.randrange(max(len(ts), 1))}
        steps.append(call)
    return steps


def run(ctx):
    import mpmath
    from qecsim import tensortools as tt
    rng = ctx.rng
    ctx.rule += ('; result ownership histories: 2-4 calls (left/right canonical form QR/SVD/chi/tol/mask/normalise, truncate) '
                 'on one caller container, the tensors returned by each call edited in place by the caller (absorb the norm, '
                 'negate / zero / overwrite / NaN a site, halve all) or collected, every later call held to the same contracts '
                 'and collected results required bit-unchanged; also on columns of planar networks')
    ctx.notes.append('ownership histories: results belong to the caller; after each in-place edit of a result the input '
                     'container is checked untouched and the next call (same or another function, same input) must meet the '
                     'same contracts (key result-aliased-later-call); collected results must stay bit-identical (key '
                     'earlier-result-changed)')
    req, exp = [], []

    def add(fn, line, impl, inp):
        req.append(line)
        exp.append((fn, inp, impl))

    containers = ('list',) + base.CONTAINERS
    for it in range(ctx.pick(700, 7000)):
        mps, kind, typ = base.gen_mps(rng, maxlen=ctx.pick(5, 7) if it % 4 else 7)
        ckind = rng.choice(containers)
        steps = gen_steps(rng, mps)
        eff = run_history(ctx, tt, mpmath, mps, kind, ckind, steps, add)
        a, b = base.run_of(mps)
        ctx.count((base.shape_enc(mps), kind, ckind, it, 'ownership'), eff > 0 and b - a >= 3,
                  'ownership history (%d calls)' % len(steps),
                  {'mps': base.shape_enc(mps), 'kind': kind, 'container': ckind,
                   'history': ['%s%s%s -> %s' % (s['fn'], ' qr' if s['qr'] else '', '' if s['chi'] is None else ' chi=%s' % s['chi'],
                                                s['edit']['op']) for s in steps]} if it == 5 else None, n=len(steps))

    # systematic part: every function variant x every edit, the same call repeated on the same input:
    #   call, edit(op) ; call, keep ; call, edit(next op) ; call
    # (call 1 and 3 follow an edit; the collected result of call 1 must survive call 2 and the edit of its result)
    ops = [e for e in EDITS if e != 'keep']
    nvar = 7
    for it in range(ctx.pick(nvar * len(ops) * 20, nvar * len(ops) * 200)):
        vi, oi = it % nvar, (it // nvar) % len(ops)
        while True:     # a fresh MPS per history: histories must not inherit edits from one another
            mps, kind, typ = base.gen_mps(rng, kind=rng.choice(['normal', 'normal', 'uniform', 'rankdef', 'ints', 'scaled']),
                                          maxlen=5)
            a, b = base.run_of(mps)
            if b - a >= 2:
                break
        bd = max(t.shape[0] for t in mps if t is not None)
        part = [i < (a + b) // 2 or rng.random() < 0.3 for i in range(len(mps))]     # falsy entries: QR-decomposed sites
        rest = [not x for x in part]
        var = [
            {'fn': 'lcf', 'chi': None, 'tol': None, 'qr': True, 'normalise': it % 2 == 0, 'mask': None},
            {'fn': 'rcf', 'chi': None, 'tol': None, 'qr': True, 'normalise': it % 2 == 1, 'mask': None},
            {'fn': 'lcf', 'chi': rng.choice([None, 2, bd + 1]), 'tol': None, 'qr': False, 'normalise': it % 3 == 0, 'mask': None},
            {'fn': 'rcf', 'chi': rng.choice([None, 2, bd + 1]), 'tol': None, 'qr': False, 'normalise': it % 3 != 0, 'mask': part},
            {'fn': 'lcf', 'chi': max(bd - 1, 1), 'tol': None, 'qr': False, 'normalise': True, 'mask': rest},
            {'fn': 'truncate', 'chi': max(bd - 1, 1), 'tol': None, 'qr': False, 'normalise': True, 'mask': None},
            {'fn': 'truncate', 'chi': max(bd // 2, 1), 'tol': rng.choice([None, 1e-12]), 'qr': False, 'normalise': True,
             'mask': part},
        ][vi]
        ckind = rng.choice(containers)
        op = ops[oi]

        def step(o, site):
            return dict(var, mask=None if var['mask'] is None else list(var['mask']),
                        mask_container=base.MASK_CONTAINERS[(vi + oi) % 3], edit={'op': o, 'site': site})
        steps = [step(op, rng.randrange(b - a)), step('keep', 0), step(ops[(oi + 1) % len(ops)], rng.randrange(b - a)),
                 step('keep', 0)]
        eff = run_history(ctx, tt, mpmath, mps, kind, ckind, steps, add)
        ctx.count((base.shape_enc(mps), kind, ckind, it, 'ownership-systematic'), eff > 0 and b - a >= 3,
                  'ownership history (systematic: %s%s, %s)' % (var['fn'], ' qr' if var['qr'] else '', op), n=len(steps))

    # columns of real networks, handed over as views of the network, with the same histories
    from qecsim.models.generic import DepolarizingErrorModel
    from qecsim.models.planar import PlanarCode, PlanarMPSDecoder
    for size in ctx.pick([(3, 3), (4, 3)], [(2, 2), (3, 3), (3, 4), (4, 3), (4, 4), (5, 5)]):
        code = PlanarCode(*size)
        p = rng.choice([0.05, 0.1, 0.2])
        bits = [rng.random() < p for _ in range(2 * code.n_k_d[0])]
        tn = PlanarMPSDecoder.TNC().create_tn(DepolarizingErrorModel().probability_distribution(p),
                                              code.new_pauli(np.array(bits, dtype=int)))
        guard = base.Cont(list(tn[:, 0]), 'column', base=tn, index=(slice(None), 0))
        for c in range(tn.shape[1]):
            tensors = list(tn[:, c])
            if not base.ladder_ok(tensors):
                continue
            steps = gen_steps(rng, tensors)     # one history per column: histories must not inherit edits from one another
            cont = base.Cont(tensors, 'column', base=tn, index=(slice(None), c))
            eff = run_history(ctx, tt, mpmath, tensors, 'network-column', 'column', steps, add, cont=cont)
            ctx.count(('ownership-network', size, c), eff > 0, 'ownership history on a network column', n=len(steps))
            if guard.modified():
                break

    out = ctx.model('c12', req)
    for (fn, inp, impl), m, line in zip(exp, out, req):
        ctx.cmp(fn, {'request': line[:300], 'case': inp} if isinstance(inp, dict) else line[:300], impl, m)
    ctx.extra['ownership_model_requests'] = len(req)


def replay_rep(rep):
    import mpmath
    from qecsim import tensortools as tt
    from harness.common import Ctx
    mps = base.from_hexs(rep['mps'])
    ctx = Ctx('C12', 'quick', 0)
    print({k: v for k, v in rep.items() if k != 'mps'})
    run_history(ctx, tt, mpmath, mps, rep.get('kind', ''), rep.get('container', 'list'), rep['steps'], lambda *a: None)
    for v in ctx.violations:
        print('REPRODUCED:', v['key'], v['what'])
    return 1 if ctx.violations else 0
