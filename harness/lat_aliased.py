"""C15 - THE CALLER OWNS WHAT THE CODE RETURNS (planar, toric, rotated toric).

The family modules ask `syndrome_to_plaquette_indices`, `translation` and `virtual_plaquette_index` once per input and only
look at the answer.  Decoders (the package's extension point) use the returned set as their own work list: they pop defects
off it, clear it, add virtual plaquettes to it.  "Each syndrome bit maps back to the plaquette that produced it" has to hold
on every call, whatever callers did with the containers returned by earlier calls, on the same code object and on any
other code of the same size.  So here, per family, ONE interleaved history over several lattice sizes:

  queries   the zero syndrome, single bits, syndromes of path operators (implementation's own stabilizers and symplectic
            product), sparse and dense random syndromes, the all-ones syndrome; handed over as a fresh array or in one
            caller-side buffer that is overwritten for every call
  calls     every query is resolved 2-4 times, interleaved with the other queries and the other sizes, on the same code
            object, on a second long-lived code of equal size, or on a code constructed just for the call
  between   the caller does with the returned object what an owner may do: pop / clear / add / remove / update on sets,
            (pop / clear / append / overwrite on lists, overwrite on writable arrays, recursively inside tuples), or keeps
            it and looks at it later, or drops it
  checks    every returned set = the MODEL's answer for that syndrome (engines latpt psynd / tsynd, latrc rt_synd) and,
            directly on the implementation, the plaquette operators of the returned indices are exactly the flagged
            stabilizer rows (path syndromes: exactly the in-lattice end points)
              first resolution of a syndrome wrong                               key <fam>-syndrome-history
              a later resolution wrong after a caller changed / kept a result    key <fam>-result-aliased
            results kept by the caller still hold what they held when returned   key <fam>-result-overwritten
  and the same with translation(a, b) (model: ppath / tpath / rt_transfrom) and planar virtual_plaquette_index (pvirt):
  call, change the returned object in place where it is mutable, call again on the same and on a fresh equal code.

Pauli.to_bsf() is not part of this: its documentation allows the returned array to be a view of the Pauli."""
import numpy as np

from harness import lat_common
from harness.common import exc_class

BOGUS = [(-7, -7), (99, 3), (0, 0), (1, 2)]


def _s(i):
    return ':'.join(str(int(v)) for v in i)


def _bits(a):
    return ''.join('1' if int(v) else '0' for v in a)


def _hexrow(bits):
    return '%x' % int('1' + _bits(bits), 2)


def _norm(got):
    """canonical form of a returned collection of indices (order-free, plain ints); None when it is not one"""
    try:
        return sorted(tuple(int(v) for v in t) for t in got)
    except Exception:  # noqa
        return None


def scribble(rng, obj, arity=2):
    """change a returned object in place the way its owner may; the description of what was done, or None when the object
    (and everything inside it) is immutable"""
    if isinstance(obj, set):
        kind = rng.choice(['pop', 'pop-all', 'clear', 'add', 'remove-one', 'difference_update', 'replace'])
        bogus = tuple(BOGUS[rng.randrange(len(BOGUS))][k % 2] for k in range(arity))
        if kind == 'pop' and obj:
            obj.pop()
        elif kind == 'pop-all':
            while obj:
                obj.pop()
        elif kind == 'clear':
            obj.clear()
        elif kind == 'remove-one' and obj:
            obj.remove(sorted(obj)[rng.randrange(len(obj))])
        elif kind == 'difference_update':
            obj.difference_update(set(obj))
        elif kind == 'replace':
            obj.clear()
            obj.add(bogus)
        else:
            kind = 'add'
            obj.add(bogus)
        return 'set.%s%s' % (kind, repr(bogus) if kind in ('add', 'replace') else '()')
    if isinstance(obj, list):
        kind = rng.choice(['pop', 'clear', 'append', 'overwrite', 'reverse'])
        if kind == 'pop' and obj:
            obj.pop()
        elif kind == 'clear':
            obj.clear()
        elif kind == 'overwrite' and obj:
            obj[rng.randrange(len(obj))] = 41
        elif kind == 'reverse' and len(obj) > 1 and obj != obj[::-1]:
            obj.reverse()
        else:
            kind = 'append'
            obj.append(41)
        return 'list.' + kind
    if isinstance(obj, dict):
        obj.clear()
        return 'dict.clear'
    if isinstance(obj, np.ndarray):
        if obj.size == 0:
            return None
        try:
            obj[...] = obj + 3
            return 'array += 3'
        except Exception:  # noqa  (read-only array: the caller cannot change it)
            return None
    if isinstance(obj, tuple):
        for x in obj:
            d = scribble(rng, x, arity)
            if d is not None:
                return 'inside tuple: ' + d
    return None


# ------------------------------------------------------------------------------------------------------------------
# families
# ------------------------------------------------------------------------------------------------------------------
class _Planar:
    name, engine, arity = 'planar', 'latpt', 2

    @staticmethod
    def sizes(ctx, rng):
        hi = ctx.pick(7, 10)
        return [(2, 2), (3, 5), (6, 4)] + [(rng.randint(2, hi), rng.randint(2, hi)) for _ in range(ctx.pick(4, 8))]

    @staticmethod
    def mk(size):
        from qecsim.models.planar import PlanarCode
        return PlanarCode(*size)

    @staticmethod
    def nodes(code, size):
        from harness.lat_planar import planar_plaquette_sets
        real, virt = planar_plaquette_sets(code)
        inb = set(real)
        return [[p for p in real + virt if p[0] % 2 == t] for t in (1, 0)], (lambda p: p if p in inb else None), real

    @staticmethod
    def variant(rng, size, p):
        return p

    @staticmethod
    def synd_req(size, bits):
        return 'psynd %d %d %s' % (size[0], size[1], bits)

    @staticmethod
    def model_translations(ctx, size, pairs):
        out = []
        for k in range(0, len(pairs), 300):
            out += ctx.model('latpt', ['ppath %d %d %s' % (size[0], size[1], ','.join(_s(a) + '>' + _s(b)
                                                                                    for a, b in pairs[k:k + 300]))])[0].split(',')
        return [None if (r == 'E' or r.startswith('ERR')) else tuple(int(v) for v in r.split(';')[1].split(':')) for r in out]


class _Toric:
    name, engine, arity = 'toric', 'latpt', 3

    @staticmethod
    def sizes(ctx, rng):
        hi = ctx.pick(7, 10)
        return [(2, 2), (3, 4), (6, 5)] + [(rng.randint(2, hi), rng.randint(2, hi)) for _ in range(ctx.pick(4, 8))]

    @staticmethod
    def mk(size):
        from qecsim.models.toric import ToricCode
        return ToricCode(*size)

    @staticmethod
    def nodes(code, size):
        from harness.lat_toric import all_indices
        real = all_indices(*size)
        R, C = size
        return [[p for p in real if p[0] == la] for la in (0, 1)], (lambda p: (p[0] % 2, p[1] % R, p[2] % C)), real

    @staticmethod
    def variant(rng, size, p):
        if rng.random() < 0.3:
            return (p[0] + 2 * rng.randint(-1, 1), p[1] + size[0] * rng.randint(-2, 2), p[2] + size[1] * rng.randint(-2, 2))
        return p

    @staticmethod
    def synd_req(size, bits):
        return 'tsynd %d %d %s' % (size[0], size[1], bits)

    @staticmethod
    def model_translations(ctx, size, pairs):
        out = []
        for k in range(0, len(pairs), 300):
            out += ctx.model('latpt', ['tpath %d %d %s' % (size[0], size[1], ','.join(_s(a) + '>' + _s(b)
                                                                                    for a, b in pairs[k:k + 300]))])[0].split(',')
        return [None if (r == 'E' or r.startswith('ERR')) else tuple(int(v) for v in r.split(';')[1].split(':')) for r in out]


class _RotToric:
    name, engine, arity = 'rottoric', 'latrc', 2

    @staticmethod
    def sizes(ctx, rng):
        hi = ctx.pick(8, 12)
        return [(2, 2), (4, 6), (6, 6)] + [(2 * rng.randint(1, hi // 2), 2 * rng.randint(1, hi // 2))
                                           for _ in range(ctx.pick(4, 8))]

    @staticmethod
    def mk(size):
        from qecsim.models.rotatedtoric import RotatedToricCode
        return RotatedToricCode(*size)

    @staticmethod
    def nodes(code, size):
        r, c = size
        real = [(x, y) for y in range(r) for x in range(c)]
        return [[p for p in real if (p[0] - p[1]) % 2 == t] for t in (0, 1)], (lambda p: (p[0] % c, p[1] % r)), real

    @staticmethod
    def variant(rng, size, p):
        if rng.random() < 0.3:
            return (p[0] + size[1] * rng.randint(-2, 2), p[1] + size[0] * rng.randint(-2, 2))
        return p

    @staticmethod
    def synd_req(size, bits):
        return 'rt_synd %d %d %s' % (size[0], size[1], bits)

    @staticmethod
    def model_translations(ctx, size, pairs):
        out = ctx.model('latrc', ['rt_transfrom %d %d %d %d %d:%d' % (size[0], size[1], a[0], a[1], b[0], b[1])
                                  for a, b in pairs])
        return [None if (m == 'E' or m.startswith('ERR')) else tuple(int(v) for v in m.split(':')) for m in out]


FAMS = (_Planar, _Toric, _RotToric)


# ------------------------------------------------------------------------------------------------------------------
# syndrome -> plaquettes
# ------------------------------------------------------------------------------------------------------------------
class _State:
    """one lattice size inside a family's history"""

    def __init__(self, ctx, F, size):
        rng = ctx.rng
        self.F, self.size = F, size
        self.same = F.mk(size)
        self.other = F.mk(size)
        probe = F.mk(size)                      # used for everything that is not under test
        S = np.array(probe.stabilizers).astype(np.int64)
        self.m, self.n = len(S), S.shape[1] // 2
        self.Sx, self.Sz = S[:, :self.n], S[:, self.n:]
        self.srow = [_hexrow(r) for r in S]
        self.types, self.canon, self.real = F.nodes(probe, size)
        self.prow = {p: _hexrow(probe.new_pauli().plaquette(p).to_bsf()) for p in self.real}
        self.buf = np.zeros(self.m, dtype=int)
        m = self.m
        q = [('zero', np.zeros(m, dtype=int), None), ('ones', np.ones(m, dtype=int), None)]
        bits = list(range(m)) if m <= 24 else sorted(set([0, m - 1] + [rng.randrange(m) for _ in range(20)]))
        for i in bits:
            e = np.zeros(m, dtype=int)
            e[i] = 1
            q.append(('bit %d' % i, e, None))
        for _ in range(8):
            t = self.types[rng.randrange(2)]
            if not t:
                continue
            a, b = rng.choice(t), rng.choice(t)
            pb = np.asarray(probe.new_pauli().path(F.variant(rng, size, a), F.variant(rng, size, b)).to_bsf()).astype(np.int64)
            ends = {self.canon(a), self.canon(b)} - {None}
            if self.canon(a) == self.canon(b):
                ends = set()
            q.append(('path %s-%s' % (a, b), (self.Sz @ pb[:self.n] + self.Sx @ pb[self.n:]) % 2, sorted(ends)))
        for _ in range(6):
            e = np.zeros(m, dtype=int)
            for i in rng.sample(range(m), min(m, rng.randint(2, 4))):
                e[i] = 1
            q.append(('sparse', e, None))
        for _ in range(3):
            q.append(('dense', np.array([rng.randint(0, 1) for _ in range(m)]), None))
        self.queries = q
        self.model = None
        self.log = {_bits(b): [] for (_, b, _) in q}      # calls per syndrome VALUE (different queries may coincide)

    def direct_problem(self, bits, norm, ends):
        """the property on the implementation's own objects: the plaquette operators of the returned indices are exactly
        the flagged stabilizer rows (path syndromes: the returned indices are exactly the in-lattice end points)"""
        if norm is None:
            return 'the result is not a collection of indices'
        if any(p not in self.prow for p in norm):
            return 'the result holds an index that is not a plaquette of the lattice'
        if len(set(norm)) != len(norm) or sorted(self.prow[p] for p in norm) != sorted(self.srow[i] for i in np.flatnonzero(bits)):
            return 'the plaquette operators of the returned indices are not the flagged stabilizers'
        if ends is not None and norm != ends:
            return 'the syndrome of the path operator does not map back to the end points of the path'
        return None


def _syndrome_histories(ctx, F):
    rng = ctx.rng
    fam = F.name
    sizes = []
    for s in F.sizes(ctx, rng):
        if s not in sizes:
            sizes.append(s)
    states = [_State(ctx, F, s) for s in sizes]
    req = [F.synd_req(st.size, _bits(b)) for st in states for (_, b, _) in st.queries]
    out = ctx.model(F.engine, req)
    k = 0
    for st in states:
        st.model = []
        for _ in st.queries:
            m = out[k]
            k += 1
            ok = m == '-' or not (m.startswith('ERR') or m == 'E')
            st.model.append(None if not ok else ([] if m == '-' else sorted(tuple(int(v) for v in t.split(':')) for t in m.split(','))))
        bad = [st.queries[i][0] for i, v in enumerate(st.model) if v is None]
        ctx.obligation('model answers every syndrome of the %s %s history' % (fam, st.size), not bad, repr(bad[:5]))
    events = []
    for si, st in enumerate(states):
        for qi in range(len(st.queries)):
            for occ, t in enumerate(sorted(rng.random() for _ in range(rng.choice((2, 3, 3, 4))))):
                events.append((t, si, qi, occ))
    events.sort()
    held = []
    callno = 0

    def look_at_held(now):
        for h in held:
            if h['done']:
                continue
            cur = _norm(h['obj'])
            if cur != h['norm']:
                h['done'] = True
                st = states[h['si']]
                lat_common._viol(ctx, fam + '-result-overwritten',
                                 'a set returned by syndrome_to_plaquette_indices and kept by the caller no longer holds what it '
                                 'held when it was returned (the caller did not touch it; other calls / other callers did)',
                                 {'family': fam, 'check': 'result-aliased', 'size': list(st.size), 'function': 'syndrome_to_plaquette_indices',
                                  'syndrome': _bits(st.queries[h['qi']][1]), 'returned_by_call': h['call'], 'held_then': h['norm'],
                                  'holds_now': cur, 'looked_at_after_call': now, 'calls_on_this_syndrome': st.log[_bits(st.queries[h['qi']][1])]})

    for (_, si, qi, occ) in events:
        st = states[si]
        label, bits, ends = st.queries[qi]
        log = st.log[_bits(bits)]
        which = 'same' if occ == 0 and rng.random() < 0.7 else rng.choice(('same', 'same', 'other', 'fresh'))
        code = {'same': st.same, 'other': st.other}.get(which) or F.mk(st.size)
        if rng.random() < 0.4:
            st.buf[:] = bits
            arr, how = st.buf, 'caller buffer'
        else:
            arr, how = np.array(bits, dtype=int), 'new array'
        callno += 1
        rep = {'family': fam, 'check': 'result-aliased', 'size': list(st.size), 'function': 'syndrome_to_plaquette_indices',
               'query': label, 'syndrome': _bits(bits), 'call': callno, 'code_object': which, 'argument': how}
        try:
            got = code.syndrome_to_plaquette_indices(arr)
        except Exception as e:  # noqa
            lat_common._viol(ctx, fam + ('-result-aliased' if log else '-syndrome-history'),
                             'syndrome_to_plaquette_indices raises %s' % exc_class(e),
                             dict(rep, error=repr(e)[:200], earlier_calls_on_this_syndrome=log))
            log.append({'call': callno, 'code_object': which, 'returned': 'raised ' + exc_class(e), 'then': None})
            continue
        norm = _norm(got)
        want = st.model[qi]
        problem = None
        if want is not None and norm != want:
            problem = 'differs from the model\'s answer'
        else:
            problem = st.direct_problem(bits, norm, ends)
        touched = [e for e in log if e['then'] not in (None, 'dropped')]
        if problem:
            key = fam + ('-result-aliased' if touched else '-syndrome-history')
            what = ('syndrome_to_plaquette_indices: %s' % problem) + \
                (' - after the caller changed / kept the set returned for the same syndrome by an earlier call' if touched else '')
            lat_common._viol(ctx, key, what, dict(rep, returned=norm if norm is not None else repr(got)[:200], model=want,
                                                  path_end_points=ends, earlier_calls_on_this_syndrome=list(log)))
        # what the caller does with its result
        u = rng.random()
        if u < 0.6:
            then = scribble(rng, got, F.arity) or 'immutable result'
        elif u < 0.85 and norm is not None:
            then = 'kept'
            held.append({'obj': got, 'norm': norm, 'si': si, 'qi': qi, 'call': callno, 'done': False})
        else:
            then = 'dropped'
            del got
        log.append({'call': callno, 'code_object': which, 'returned': norm, 'then': then})
        ctx.count((fam, 'aliased', st.size, qi, occ), bool(touched), fam + ('-resolve-again' if log[:-1] else '-resolve-first'),
                  dict(rep, returned=norm, then=then) if (fam == 'rottoric' and occ == 2 and touched and label.startswith('path')) else None)
        if callno % 64 == 0:
            look_at_held(callno)
    look_at_held(callno)
    return len(states), callno


# ------------------------------------------------------------------------------------------------------------------
# translation / virtual plaquettes
# ------------------------------------------------------------------------------------------------------------------
def _tuple_results(ctx, F):
    rng = ctx.rng
    fam = F.name
    ncalls = 0
    for size in F.sizes(ctx, rng)[:4]:
        code = F.mk(size)
        types, canon, real = F.nodes(F.mk(size), size)
        pairs = []
        for _ in range(ctx.pick(30, 80)):
            t = types[rng.randrange(2)]
            if t:
                pairs.append((F.variant(rng, size, rng.choice(t)), F.variant(rng, size, rng.choice(t))))
        want = F.model_translations(ctx, size, pairs)
        jobs = [('translation', (a, b), w) for (a, b), w in zip(pairs, want) if w is not None]
        if fam == 'planar':
            grid = [(rng.randint(-2, 2 * size[0]), rng.randint(-2, 2 * size[1])) for _ in range(30)]
            out = ctx.model('latpt', ['pvirt %d %d %s' % (size[0], size[1], ','.join(_s(i) for i in grid))])[0].split(',')
            jobs += [('virtual_plaquette_index', (i,), tuple(int(v) for v in m.split(':'))) for i, m in zip(grid, out) if m != 'E']
        rng.shuffle(jobs)
        for fn, args, w in jobs:
            hist = []
            for which in ('same', rng.choice(('same', 'fresh')), 'fresh'):
                c = code if which == 'same' else F.mk(size)
                ncalls += 1
                rep = {'family': fam, 'check': 'result-aliased', 'size': list(size), 'function': fn, 'arguments': [list(x) for x in args],
                       'code_object': which}
                try:
                    got = getattr(c, fn)(*args)
                    val = tuple(int(v) for v in got)
                except Exception as e:  # noqa
                    lat_common._viol(ctx, fam + ('-result-aliased' if hist else '-tuple-history'), '%s raises %s' % (fn, exc_class(e)),
                                     dict(rep, error=repr(e)[:200], earlier_calls=hist))
                    break
                touched = [h for h in hist if h['then']]
                if val != w:
                    lat_common._viol(ctx, fam + ('-result-aliased' if touched else '-tuple-history'),
                                     '%s differs from the model\'s answer%s' % (fn, ' after the caller changed the object returned by an '
                                                                               'earlier call with the same arguments' if touched else ''),
                                     dict(rep, returned=list(val), model=list(w), earlier_calls=list(hist)))
                then = scribble(rng, got, F.arity)
                hist.append({'code_object': which, 'returned': list(val), 'then': then})
                ctx.count((fam, 'aliased', fn, size, args, len(hist)), bool(touched), fam + '-' + fn + '-again')
    return ncalls


def result_aliased(ctx):
    done = []
    for F in FAMS:
        def one(ctx, F=F):
            ns, nc = _syndrome_histories(ctx, F)
            nt = _tuple_results(ctx, F)
            done.append('%s: %d sizes, %d syndrome resolutions, %d translation / virtual-plaquette calls' % (F.name, ns, nc, nt))
        lat_common.stage(ctx, 'result_aliased_' + F.name, one)
    ctx.notes.append('caller-owned results (lat_aliased): every syndrome resolved 2-4 times on the same / another / a fresh code of '
                     'equal size, interleaved over sizes, with the caller popping / clearing / adding to / keeping the returned sets '
                     'in between; every answer compared with the model and with the plaquette operators of the returned indices; '
                     + '; '.join(done))
