import argparse
import importlib
import os
import sys
import traceback

from harness.common import Ctx


def main():
    ap = argparse.ArgumentParser()
    ap.add_argument('pid')
    ap.add_argument('--tier', default=os.environ.get('VERIF_TIER', 'quick'))
    ap.add_argument('--replay', default=None)
    a = ap.parse_args()
    tier = a.tier if a.tier in ('quick', 'thorough') else 'quick'
    seed = int(os.environ.get('VERIF_SEED', '0') or 0)
    mod = importlib.import_module('harness.' + a.pid.lower())
    if a.replay:
        sys.exit(mod.replay(a.replay))
    ctx = Ctx(a.pid, tier, seed)
    try:
        mod.run(ctx)
    except Exception:
        # the harness itself failed: the property is not shown to hold on this run
        tb = traceback.format_exc()
        print(tb, file=sys.stderr)
        ctx.obligation('harness completed', False, tb)
    sys.exit(ctx.finish())


if __name__ == '__main__':
    main()
