"""Toric code family: the C07 / C15 / C08 checks (called by harness/c07.py, c15.py, c08.py).
Same structure as harness/lat_planar.py, whose shared helpers are reused; model = Lattice/Toric.v via engine latpt."""
import numpy as np

from harness.common import exc_class, coq_bits, coq_list
from harness.lat_planar import (hexrow, hexrows, cmp_matrix, code_conditions, ctor_stream, distance_search, c08_sizes,
                                idx_s, sizes_upto, plain_int_tuple, guarded)

FAMILY = 'toric'


def all_indices(R, C):
    return [(la, r, c) for la in range(2) for r in range(R) for c in range(C)]


def documented_support(p, R, C):
    """sites of the plaquette indexed by its northern edge: N, S, W, E (primal lattice 0: Z; dual lattice 1: X)"""
    la, r, c = p
    if la == 0:
        return {(0, r, c), (0, (r + 1) % R, c), (1, r, c), (1, r, (c + 1) % C)}
    return {(1, r, c), (1, (r + 1) % R, c), (0, (r + 1) % R, (c - 1) % C), (0, (r + 1) % R, c)}


def check_c07(ctx):
    from qecsim.models.toric import ToricCode
    rng = ctx.rng
    fam = FAMILY
    smax = ctx.pick(10, 16)
    sizes = sizes_upto(2, smax)
    out = ctx.model('latpt', ['tcode %d %d' % s for s in sizes])
    kern = []
    for size, reply in zip(sizes, out):
        def body(size=size, reply=reply):
            R, C = size
            code = ToricCode(R, C)
            S, X, Z = code.stabilizers, code.logical_xs, code.logical_zs
            f = reply.split(' ')
            if len(f) == 5:
                ctx.cmp(fam + ' n_k_d', {'size': list(size)}, ','.join(str(v) for v in code.n_k_d), f[0])
                cmp_matrix(ctx, fam + ' stabilizers', size, S, f[1])
                cmp_matrix(ctx, fam + ' logical_xs', size, X, f[2])
                cmp_matrix(ctx, fam + ' logical_zs', size, Z, f[3])
            else:
                ctx.cmp(fam + ' tcode', {'size': list(size)}, '<5 fields>', reply[:200])
            if code.label != 'Toric %dx%d' % size or repr(code) != 'ToricCode(%d, %d)' % size or code.size != size \
                    or code.shape != (2, R, C):
                ctx.violation(fam + '-label', 'label / repr / size / shape do not name the lattice size',
                              {'family': fam, 'size': list(size), 'label': code.label, 'repr': repr(code)})
            code_conditions(ctx, fam, size, code, S, X, Z, 2)
            # index -> qubit is a bijection onto range(n)
            n = int(code.n_k_d[0])
            seen = {}
            for s in all_indices(R, C):
                b = code.new_pauli().site('X', s).to_bsf()
                nz = np.nonzero(b)[0]
                if len(b) != 2 * n or len(nz) != 1 or nz[0] >= n or int(nz[0]) in seen:
                    ctx.violation(fam + '-flatten', 'site index -> qubit is not a bijection onto range(n)',
                                  {'family': fam, 'size': list(size), 'site': list(s), 'bsf_nonzero': [int(v) for v in nz]})
                    break
                seen[int(nz[0])] = list(s)
            else:
                if sorted(seen) != list(range(n)):
                    ctx.violation(fam + '-flatten', 'sites do not cover range(n)', {'family': fam, 'size': list(size),
                                                                                    'sites': len(seen), 'n': n})
            ctx.count((fam, size), R != C or min(R, C) == 2, fam + '-size',
                      {'family': fam, 'size': list(size), 'n_k_d': list(code.n_k_d), 'stabilizer[0]': hexrow(S[0])}
                      if size == (2, 3) else None)
            if n <= 60 and (size in ((2, 2), (2, 5), (4, 3)) or rng.random() < 0.08) and len(kern) < 8:
                kern.append((size, S, X, Z))
        guarded(ctx, fam, size, body)

    # ---- site / plaquette / operator / to_bsf on every index of every size <= 7, with wrapping margins ----
    req, exp = [], []
    for size in sizes_upto(2, 7):
        def body(size=size):
            R, C = size
            code = ToricCode(R, C)
            n = int(code.n_k_d[0])
            grid = [(la, r, c) for la in range(-1, 3) for r in range(-2, R + 2) for c in range(-2, C + 2)]
            gs = ','.join(idx_s(i) for i in grid)

            def call(f):
                try:
                    return f()
                except Exception as e:  # noqa
                    return 'ERR ' + exc_class(e)
            for op in 'XYZ':
                got = [call(lambda: hexrow(code.new_pauli().site(op, i).to_bsf())) for i in grid]
                req.append('tsite %d %d %s %s' % (R, C, op, gs))
                exp.append((fam + ' site', {'size': list(size), 'op': op}, ','.join(got)))
            got = [call(lambda: hexrow(code.new_pauli().plaquette(i).to_bsf())) for i in grid]
            req.append('tplaq %d %d %s' % (R, C, gs))
            exp.append((fam + ' plaquette', {'size': list(size)}, ','.join(got)))
            b = np.array([rng.randint(0, 1) for _ in range(2 * n)])
            p = code.new_pauli(b)
            got = [call(lambda: p.operator(i)) for i in grid]
            req.append('top %d %d %d %s %s' % (R, C, 2 * n, hexrow(b), gs))
            exp.append((fam + ' operator', {'size': list(size), 'bsf': hexrow(b)}, ','.join(got)))
            if not np.array_equal(p.to_bsf(), b):
                ctx.violation(fam + '-to_bsf', 'new_pauli(bsf).to_bsf() != bsf', {'family': fam, 'size': list(size), 'bsf': hexrow(b)})
            for s in all_indices(R, C):
                one = code.new_pauli().site('X', s).to_bsf()
                q = int(np.nonzero(one)[0][0]) if one.any() else -1
                want = 'IXZY'[int(b[q]) + 2 * int(b[n + q])] if 0 <= q < n else '?'
                wrapped = (s[0] + 2, s[1] - R, s[2] + 2 * C)
                if p.operator(s) != want or p.operator(wrapped) != want:
                    ctx.violation(fam + '-site-access', 'operator(site) disagrees with the bsf entry that site() toggles',
                                  {'family': fam, 'size': list(size), 'site': list(s), 'bsf': hexrow(b)})
                    break
                for op in 'XYZ':
                    if code.new_pauli().site(op, wrapped).operator(s) != op:
                        ctx.violation(fam + '-site-access', 'operator(site) after site(op, site + period) is not op',
                                      {'family': fam, 'size': list(size), 'site': list(s), 'op': op})
            ctx.count((fam, 'pauli', size), R != C or min(R, C) == 2, fam + '-pauli-api', n=5 * len(grid))
        guarded(ctx, fam, size, body)
    out = ctx.model('latpt', req)
    for (fn, inp, impl), m in zip(exp, out):
        if impl != m:
            a, bb = impl.split(','), m.split(',')
            k = next((i for i in range(min(len(a), len(bb))) if a[i] != bb[i]), 0)
            ctx.cmp(fn, dict(inp, position=k), a[k] if k < len(a) else '', bb[k] if k < len(bb) else '')

    ctor_stream(ctx, fam, ToricCode, 'tctor')

    items = []
    for (size, S, X, Z) in kern:
        def mat(M):
            return coq_list([coq_bits(row.tolist()) for row in M])
        items.append('(let c := toric_code %d %d in beqm (stabs c) %s && beqm (lxs c) %s && beqm (lzs c) %s)'
                     % (size[0], size[1], mat(S), mat(X), mat(Z)))
    text = ('From Coq Require Import List Bool ZArith NArith.\nFrom QV Require Import Core.Bits Core.Code Lattice.Planar Lattice.Toric.\n'
            'Import ListNotations.\nOpen Scope Z_scope.\nOpen Scope bool_scope.\n'
            'Definition checks : list bool :=\n [' + ';\n  '.join(items) + '].\n'
            'Example corr : forallb (fun b => b) checks = true.\nProof. vm_compute. reflexivity. Qed.\n')
    ctx.kernel_cases('toric_codes', text)
    ctx.extra['kernel_cases_toric'] = len(items)


def check_c15(ctx):
    from qecsim.models.toric import ToricCode, ToricMWPMDecoder
    rng = ctx.rng
    fam = FAMILY
    smax = ctx.pick(6, 9)
    kern = []
    req, exp = [], []
    for size in sizes_upto(2, smax):
        def body(size=size):
            R, C = size
            code = ToricCode(R, C)
            n = int(code.n_k_d[0])
            S = code.stabilizers
            rep = {'family': fam, 'size': list(size)}
            real = all_indices(R, C)
            # -- plaquette operators have the documented support; syndrome bit i maps back to plaquette i
            row_of = {}
            for p in real:
                pp = code.new_pauli().plaquette(p)
                letter = 'Z' if p[0] == 0 else 'X'
                sup = documented_support(p, R, C)
                if any(pp.operator(s) != (letter if s in sup else 'I') for s in real):
                    ctx.violation(fam + '-plaquette-support', 'plaquette operator does not have the documented support',
                                  dict(rep, plaquette=list(p)))
                row_of[p] = hexrow(pp.to_bsf())
                if hexrow(code.new_pauli().plaquette((p[0] - 2, p[1] + R, p[2] - 3 * C)).to_bsf()) != row_of[p]:
                    ctx.violation(fam + '-plaquette-support', 'plaquette index is not taken modulo the lattice shape',
                                  dict(rep, plaquette=list(p)))
            if len(S) != len(real):
                ctx.violation(fam + '-syndrome-map', 'number of stabilizers != number of plaquettes', rep)
                return
            pidx = []
            for i in range(len(S)):
                e = np.zeros(len(S), dtype=int)
                e[i] = 1
                g = [tuple(int(v) for v in t) for t in code.syndrome_to_plaquette_indices(e)]
                if len(g) != 1 or g[0] not in row_of or row_of[g[0]] != hexrow(S[i]):
                    ctx.violation(fam + '-syndrome-map', 'syndrome bit i does not map back to the plaquette of stabilizer i',
                                  dict(rep, bit=i, got=[list(t) for t in g]))
                    pidx.append(None)
                else:
                    pidx.append(g[0])
            if None in pidx:
                return
            for _ in range(3):
                syn = np.array([rng.randint(0, 1) for _ in range(len(S))])
                got = sorted(tuple(int(v) for v in t) for t in code.syndrome_to_plaquette_indices(syn))
                req.append('tsynd %d %d %s' % (R, C, ''.join(str(int(v)) for v in syn)))
                exp.append((fam + ' syndrome_to_plaquette_indices', dict(rep, syndrome=''.join(str(int(v)) for v in syn)),
                            ','.join(idx_s(t) for t in got) if got else '-', 'sortidx'))
                if set(got) != {pidx[i] for i in range(len(S)) if syn[i]}:
                    ctx.violation(fam + '-syndrome-map', 'syndrome_to_plaquette_indices is not the set of flagged plaquettes', rep)
            # -- all ordered same-lattice pairs; each also once with indices shifted by multiples of the period
            Sx, Sz = S[:, :n].astype(np.int64), S[:, n:].astype(np.int64)
            for la in (0, 1):
                nodes = [p for p in real if p[0] == la]
                pairs = []
                for a in nodes:
                    for b in nodes:
                        pairs.append((a, b, a, b))
                        k = [rng.randint(-2, 2) for _ in range(6)]
                        pairs.append(((a[0] + 2 * k[0], a[1] + R * k[1], a[2] + C * k[2]),
                                      (b[0] + 2 * k[3], b[1] + R * k[4], b[2] + C * k[5]), a, b))
                bsfs, got = [], []
                for (a, b, a0, b0) in pairs:
                    try:
                        pb = code.new_pauli().path(a, b).to_bsf()
                        t = code.translation(a, b)
                        dist = ToricMWPMDecoder.distance(code, a, b)
                        got.append('%s;%d:%d;%d' % (hexrow(pb), t[0], t[1], dist))
                        bsfs.append(pb)
                    except Exception as e:  # noqa
                        got.append('E' if isinstance(e, IndexError) else 'ERR ' + exc_class(e))
                        bsfs.append(np.zeros(2 * n, dtype=int))
                        ctx.violation(fam + '-path-raises', 'path/translation/distance raises on a same-lattice pair',
                                      dict(rep, a=list(a), b=list(b), error=exc_class(e)))
                for k0 in range(0, len(pairs), 400):
                    chunk = pairs[k0:k0 + 400]
                    req.append('tpath %d %d %s' % (R, C, ','.join(idx_s(a) + '>' + idx_s(b) for a, b, _, _ in chunk)))
                    exp.append((fam + ' path;translation;distance', dict(rep, pairs=[[list(a), list(b)] for a, b, _, _ in chunk]),
                                ','.join(got[k0:k0 + 400]), 'pairs'))
                P = np.array(bsfs, dtype=np.int64)
                syn = (P[:, :n] @ Sz.T + P[:, n:] @ Sx.T) % 2
                wts = np.count_nonzero(P[:, :n] | P[:, n:], axis=1)
                for j, (a, b, a0, b0) in enumerate(pairs):
                    want = np.array([1 if ((pidx[i] == a0) != (pidx[i] == b0)) else 0 for i in range(len(S))])
                    sr, sc = (b0[1] - a0[1]) % R, (b0[2] - a0[2]) % C
                    tie = (R % 2 == 0 and sr == R // 2) or (C % 2 == 0 and sc == C // 2)
                    nontriv = (a0[1] != b0[1] and a0[2] != b0[2]) or tie or (a, b) != (a0, b0)
                    ctx.count((fam, size, a, b), nontriv, fam + ('-pair' if (a, b) == (a0, b0) else '-pair-wrapped'),
                              dict(rep, a=list(a), b=list(b), path=got[j]) if (size, a, b) == ((4, 3), (0, 0, 0), (0, 2, 2)) else None)
                    if got[j].startswith('E'):
                        continue
                    if not np.array_equal(syn[j], want):
                        ctx.violation(fam + '-path-syndrome', 'path(a,b) does not anticommute with exactly its endpoints',
                                      dict(rep, a=list(a), b=list(b), syndrome=''.join(str(int(v)) for v in syn[j]),
                                           want=''.join(str(int(v)) for v in want)))
                    t = tuple(int(v) for v in code.translation(a, b))
                    t2 = tuple(int(v) for v in code.translation(b, a))
                    dist = abs(t[0]) + abs(t[1])
                    if a0 == b0 and P[j].any():
                        ctx.violation(fam + '-path-identity', 'path(a,a) is not the identity', dict(rep, a=list(a)))
                    if wts[j] != dist or ToricMWPMDecoder.distance(code, a, b) != dist:
                        ctx.violation(fam + '-path-weight', 'weight of path != decoder distance',
                                      dict(rep, a=list(a), b=list(b), weight=int(wts[j]), distance=int(dist)))
                    if (abs(t[0]), abs(t[1])) != (abs(t2[0]), abs(t2[1])):
                        ctx.violation(fam + '-translation-symmetry', 'translation(a,b) and translation(b,a) differ in length',
                                      dict(rep, a=list(a), b=list(b), ab=list(t), ba=list(t2)))
                    if ((a0[1] + t[0]) % R, (a0[2] + t[1]) % C) != (b0[1], b0[2]):
                        ctx.violation(fam + '-translation-leads', 'translation(a,b) does not lead from a to b modulo the period',
                                      dict(rep, a=list(a), b=list(b), translation=list(t)))
                    if abs(t[0]) != min(sr, R - sr) or abs(t[1]) != min(sc, C - sc):
                        ctx.violation(fam + '-translation-shortest', 'translation is not the shortest one around the torus',
                                      dict(rep, a=list(a), b=list(b), translation=list(t)))
                    if n <= 40 and len(kern) < 150 and rng.random() < 0.01:
                        kern.append((size, a, b, P[j].tolist()))
            # different lattices: IndexError (model: None)
            bad = [((0, 0, 0), (1, 0, 0)), ((1, 1, 1), (0, 1, 1)), ((2, 0, 0), (3, 1, 1)), ((-1, 0, 0), (4, 0, 1))]
            got = []
            for (a, b) in bad:
                try:
                    code.new_pauli().path(a, b)
                    got.append('accepted')
                except IndexError:
                    got.append('E')
                ctx.count((fam, size, a, b, 'bad'), True, fam + '-pair-invalid')
            req.append('tpath %d %d %s' % (R, C, ','.join(idx_s(a) + '>' + idx_s(b) for a, b in bad)))
            exp.append((fam + ' path (invalid pair)', rep, ','.join(got), None))
        guarded(ctx, fam, size, body)
    out = ctx.model('latpt', req)
    for (fn, inp, impl, mode), m in zip(exp, out):
        if mode == 'sortidx':
            m = ','.join(idx_s(t) for t in sorted(tuple(int(v) for v in s.split(':')) for s in m.split(','))) if m != '-' else '-'
        if impl != m:
            a, b = impl.split(','), m.split(',')
            k = next((i for i in range(min(len(a), len(b))) if a[i] != b[i]), 0)
            inp2 = dict(inp)
            if mode == 'pairs':
                inp2['pair'] = inp['pairs'][k] if k < len(inp['pairs']) else None
                del inp2['pairs']
            ctx.cmp(fn, inp2, a[k] if k < len(a) else '', b[k] if k < len(b) else '')
    items = []
    for (size, a, b, bits) in kern:
        items.append('(match tpath %d %d (%d, %d, %d) (%d, %d, %d) (tnew_pauli %d %d) with Some p => beqv (p_to_bsf p) %s | None => false end)'
                     % (size[0], size[1], a[0], a[1], a[2], b[0], b[1], b[2], size[0], size[1], coq_bits(bits)))
    text = ('From Coq Require Import List Bool ZArith NArith.\nFrom QV Require Import Core.Bits Core.Code Lattice.Planar Lattice.Toric.\n'
            'Import ListNotations.\nOpen Scope Z_scope.\nOpen Scope bool_scope.\n'
            'Definition checks : list bool :=\n [' + ';\n  '.join(items) + '].\n'
            'Example corr : forallb (fun b => b) checks = true.\nProof. vm_compute. reflexivity. Qed.\n')
    ctx.kernel_cases('toric_paths', text)
    ctx.extra['kernel_cases_toric'] = len(items)


def check_c08(ctx):
    from qecsim.models.toric import ToricCode
    fam = FAMILY
    sizes = [s for s in c08_sizes(ctx, lambda r, c: 2 * r * c, min) if s[0] * s[1] <= 63]
    out = ctx.model('latpt', ['tcode %d %d' % s for s in sizes])
    for size, reply in zip(sizes, out):
        def body(size=size, reply=reply):
            code = ToricCode(*size)
            ctx.cmp(fam + ' n_k_d', {'size': list(size)}, ','.join(str(v) for v in code.n_k_d), reply.split(' ')[0])
            ev = distance_search(ctx, fam, size, code)
            d = int(code.n_k_d[2])
            ctx.count((fam, size), size[0] != size[1] or d >= 3, fam + '-distance',
                      {'family': fam, 'size': list(size), 'n_k_d': list(code.n_k_d), 'supports_enumerated': ev} if size == (3, 4) else None,
                      n=max(1, ev))
        guarded(ctx, fam, size, body)
