"""C13 — matching is perfect and of minimum total weight.
The extracted verified checker `is_min_pm` (Decoders/Matching.v, c13_checker) is applied to what the real
graphtools.mwpm / mwpm_networkx return on generated graphs; SimpleGraph contents are compared with the
model of add_edge after every insertion sequence; the property is also evaluated directly with an
independent subset-DP in Python.  Besides random graphs: structured families over small weight alphabets, and operation
histories on ONE SimpleGraph object (harness/c13_extra.py; model Decoders/MatchingHist.v, engine command `hist`): every
matcher call is judged on the content of the object at the time of the call.  Dense graphs with 60-153 edges (complete /
complete bipartite on 12-20 nodes) over every weight source incl. sign-structured ones: decided by the verified memoised
checker is_min_pm_memo (Decoders/MatchingMemo.v via MatchingMin.v, proved equal to is_min_pm; command `mcheck`) and by the
independent subset DP."""
import itertools
import json
from fractions import Fraction

from harness.common import coq_list, Ctx
from harness import c13_extra as extra

WEIGHT_KINDS = ('small-int', 'dyadic', 'negative', 'zero', 'ties', 'tiny-float', 'wide-range', 'huge-float')
NODE_KINDS = ('int', 'tuple2', 'tuple3', 'txy-bool', 'identity', 'identity-dup', 'mixed-tuples')
DENSITIES = (1.0, 0.7, 0.4)
DP_MAX = 16
DENSE_DP_MAX = 20        # the dense-large stream (the memoised DP visits few subsets of a dense graph: K20 0.04 s)
HIST_WEIGHT_KINDS = ('small-int', 'dyadic', 'negative', 'zero', 'ties')


class _Node:
    """identity-hashed node object, as PlanarCMWPMDecoder.StepGrid._Node / _ClusterNode"""
    __slots__ = ('index',)

    def __init__(self, index):
        self.index = index

    def __repr__(self):
        return '_Node(%r)@%x' % (self.index, id(self) & 0xffff)


def make_nodes(rng, n, kind):
    """node specs (kind, payload); 'obj' = identity-hashed object carrying the payload"""
    if kind == 'int':
        return [('val', v) for v in rng.sample(range(-5, 60), n)]
    if kind == 'tuple2':
        return [('val', v) for v in rng.sample([(r, c) for r in range(-2, 9) for c in range(-2, 9)] + [(-9, -10), (-10, -9)], n)]
    if kind == 'tuple3':
        return [('val', v) for v in rng.sample([(la, r, c) for la in (0, 1) for r in range(6) for c in range(6)], n)]
    if kind == 'txy-bool':
        return [('val', v) for v in rng.sample([((t, x, y), b) for t in range(3) for x in range(-1, 4) for y in range(-1, 4)
                                                for b in (False, True)], n)]
    if kind == 'identity':
        return [('obj', (rng.randint(0, 9), rng.randint(0, 9))) for _ in range(n)]
    if kind == 'identity-dup':  # all payloads equal: only object identity separates the nodes
        idx = (rng.randint(0, 3), -1)
        return [('obj', idx) for _ in range(n)]
    pool = [(r, c) for r in range(4) for c in range(4)] + [(0, r, c) for r in range(3) for c in range(3)] + \
           [((0, r, c), True) for r in range(3) for c in range(3)]
    return [('val', v) for v in rng.sample(pool, n)]


def build_node(spec):
    kind, payload = spec
    if kind == 'obj':
        return _Node(payload)
    return payload


def graph_job(job):
    """worker: job = dict(nodes=[(kind, payload)], ops=[(ia, ib, w, fresh)], steps) -> run SimpleGraph + both entry points"""
    import qecsim.graphtools as gt
    objs = [build_node(sp) for sp in job['nodes']]

    def obj(i, fresh):
        o = objs[i]
        if fresh and isinstance(o, tuple):
            return tuple(list(o))        # an equal but distinct tuple object: must be the same node
        return o
    return execute_graph(gt, [(obj(a, f), obj(b, f), w) for a, b, w, f in job['ops']], job['steps'],
                         dp_max=job.get('dp_max', DP_MAX), spread=job.get('spread', False))


def graph_jobs(jobs):
    return [graph_job(j) for j in jobs]


def history_job(job):
    """worker: one history on one SimpleGraph object (generated and executed together, see c13_extra.gen_history)"""
    import random
    import qecsim.graphtools as gt
    rng = random.Random(job['seed'])
    objs = [build_node(sp) for sp in make_nodes(rng, job['npool'], job['nodes'])]
    h = extra.gen_history(gt, objs, rng.getrandbits(48), make_weight, HIST_WEIGHT_KINDS, job['nmax'], direct_eval,
                          dense_max=job.get('dense_max', 8))
    h['meta'] = {'kind': 'hist', 'seed': job['seed'], 'nodes': job['nodes'], 'npool': job['npool'], 'nmax': job['nmax']}
    if 'dense_max' in job:
        h['meta']['dense_max'] = job['dense_max']
    return h


def history_jobs(jobs):
    return [history_job(j) for j in jobs]


def execute_graph(gt, ops_nodes, steps, dp_max=None, spread=False):
    ids = {}

    def nid(x):
        if x not in ids:
            ids[x] = len(ids)
        return ids[x]
    g = gt.SimpleGraph()
    prefixes = []
    for a, b, w in ops_nodes:
        g.add_edge(a, b, w)
        if steps:
            prefixes.append([((nid(x), nid(y)), v) for (x, y), v in g.items()])
    ops = [(nid(a), nid(b), w) for a, b, w in ops_nodes]
    items = [((nid(a), nid(b)), w) for (a, b), w in g.items()]
    res = []
    for fn in (gt.mwpm, gt.mwpm_networkx):
        try:
            m = fn(g)
            if not isinstance(m, (set, frozenset)):
                res.append('ERR type ' + type(m).__name__)
            else:
                res.append(sorted((nid(a), nid(b)) for a, b in m))
        except Exception as e:  # noqa
            res.append('ERR ' + type(e).__name__ + ': ' + str(e)[:80])
    ev = [direct_eval(items, r if isinstance(r, list) else [], dp_max, both=spread) for r in res]
    c = {'ops': ops, 'items': items, 'res': res, 'prefixes': prefixes, 'eval': ev}
    if spread:      # do two perfect matchings of different weight exist (independent DP: least vs greatest total, one pass)
        c['spread'] = weight_spread(items, dp_max)
    return c


def make_weight(rng, kind):
    if kind == 'small-int':
        return rng.randint(0, 9)
    if kind == 'dyadic':
        return rng.randint(0, 80) / 8.0
    if kind == 'negative':
        return rng.choice([rng.randint(-9, 9), rng.randint(-40, 40) / 4.0])
    if kind == 'zero':
        return rng.choice([0, 0.0])
    if kind == 'tiny-float':          # all weights around 1e-18 .. 1e-21 (exact dyadics)
        return rng.randint(1, 40) * 2.0 ** -70
    if kind == 'wide-range':          # order-one weights next to a few enormous ones; every partial sum stays an
        # exactly representable double (multiples of 1/4 below 2^45), so exact minimality is meaningful for floats
        return rng.choice([float(rng.randint(1, 9)), rng.randint(1, 12) / 4.0, float(2 ** 40), float(2 ** 40 + 2 ** 10)])
    if kind == 'huge-float':
        return rng.randint(1, 30) * 2.0 ** 80
    return rng.choice([1, 1, 1, 2, 2.0])


def frac(w):
    f = Fraction(w)
    if abs(f.numerator) < 2 ** 60 and f.denominator < 2 ** 60:
        return '%d/%d' % (f.numerator, f.denominator)
    return '%sb%s/b%s' % ('-' if f.numerator < 0 else '', format(abs(f.numerator), 'b'), format(f.denominator, 'b'))


def parse_q(s):
    a, b = s.split('/')
    sign = -1 if a.startswith('-') else 1
    return Fraction(sign * int(a.lstrip('-'), 2), int(b, 2))


def brute_min(nodes, w, both=False):
    """independent minimum over all perfect matchings: the lowest uncovered node is matched with each neighbour in turn,
    memoised on the set of uncovered nodes; w[(i,j)] (integers) for i<j. None if there is none.
    both=True: (minimum, maximum)"""
    n = len(nodes)
    if n % 2:
        return None
    adj = [[(j, w[(i, j)]) for j in range(i + 1, n) if (i, j) in w] for i in range(n)]
    memo = {0: (0, 0)}

    def rec(mask):
        r = memo.get(mask, memo)
        if r is not memo:
            return r
        i = (mask & -mask).bit_length() - 1
        rest = mask ^ (1 << i)
        lo = hi = None
        for j, wij in adj[i]:
            if rest >> j & 1:
                sub = rec(rest ^ (1 << j))
                if sub is not None:
                    c = sub[0] + wij
                    if lo is None or c < lo:
                        lo = c
                    c = sub[1] + wij
                    if hi is None or c > hi:
                        hi = c
        r = None if lo is None else (lo, hi)
        memo[mask] = r
        return r
    r = rec((1 << n) - 1)
    if both or r is None:
        return r
    return r[0]


_DP_MEMO = [None, None]     # the last graph evaluated and its DP result (both entry points are judged on the same graph)


def dp_min_max(nodes, wi, both):
    key = (len(nodes), tuple(sorted(wi.items())), both)
    if _DP_MEMO[0] != key:
        _DP_MEMO[0], _DP_MEMO[1] = key, brute_min(nodes, wi, both)
    return _DP_MEMO[1]


def weight_spread(items, dp_max=None):
    """True iff the graph has two perfect matchings of different total weight (None: not evaluated / no perfect matching)"""
    w = {}
    scale = 1
    for _, x in items:
        scale = max(scale, Fraction(x).denominator)
    for (a, b), x in items:
        k = (min(a, b), max(a, b))
        if k in w or a == b:
            return None
        w[k] = (Fraction(x) * scale).numerator
    nodes = sorted(set(x for k in w for x in k))
    if len(nodes) > (dp_max or DP_MAX):
        return None
    pos = {x: i for i, x in enumerate(nodes)}
    r = dp_min_max(nodes, {(pos[a], pos[b]): x for (a, b), x in w.items()}, True)
    return None if r is None else r[0] != r[1]


def direct_eval(items, matching, dp_max=None, both=False):
    """the property's right-hand side evaluated in Python on the dict the matcher was given.
    items: [((ia, ib), weight)], matching: [(ia, ib)]. Returns (status, detail)"""
    dp_max = dp_max or DP_MAX
    w = {}
    scale = 1
    for _, x in items:
        scale = max(scale, Fraction(x).denominator)     # weights are ints or dyadic floats: a power of two
    for (a, b), x in items:
        k = (min(a, b), max(a, b))
        if k in w or a == b:
            return 'reversed-duplicate', 'graph has the unordered pair %r twice (or a loop)' % (k,)
        f = Fraction(x) * scale
        assert f.denominator == 1
        w[k] = f.numerator
    nodes = sorted(set(x for k in w for x in k))
    pos = {x: i for i, x in enumerate(nodes)}
    wi = {(pos[a], pos[b]): x for (a, b), x in w.items()}
    large = len(nodes) > dp_max      # the subset DP is not run: only coverage and edge use are evaluated here
    mn = None if large else dp_min_max(nodes, wi, both)
    if both and mn is not None:
        mn = mn[0]
    if mn is None and not large:
        return 'no-pm', None
    used = [x for p in matching for x in p]
    if large and sorted(used) != nodes:
        return 'large-not-covering', None      # no perfect matching, or an imperfect result: the checker decides
    if sorted(used) != nodes:
        return 'not-perfect', 'matching %r does not cover every node exactly once' % (matching,)
    tot = 0
    for a, b in matching:
        k = (min(a, b), max(a, b))
        if k not in w:
            return 'not-perfect', 'pair %r is not an edge of the graph' % ((a, b),)
        tot += w[k]
    if large:
        return 'large-perfect', None
    if tot != mn:
        return 'not-minimum', 'weight %s but the minimum over perfect matchings is %s' % (Fraction(tot, scale), Fraction(mn, scale))
    return 'ok', None


def run(ctx):
    import logging
    logging.getLogger('qecsim').setLevel(logging.CRITICAL)
    import qecsim.graphtools as gt
    from qecsim.graphtools import blossom5
    rng = ctx.rng
    nmax = ctx.pick(10, 12)
    ctx.rule = ('graphs with 2..%d nodes (odd counts and unmatchable graphs included and skipped by the model\'s own '
                'all_pms = []), edge probability 1/0.7/0.4, five weight kinds (small ints, dyadic floats, negatives, '
                'all-zero, heavy ties), seven node kinds (ints, 2-/3-tuples, ((t,x,y),bool), identity-hashed objects '
                'with equal payloads), random insertion order/orientation with reversed and same-orientation '
                're-insertion; structured families (even cycles, paths, ladders, grids, K_nn, pruned K_nn, trees / '
                'caterpillars with a perfect matching, pruned decoder-like graphs, prisms, chorded cycles, cubes, '
                'two-component unions) with up to %d nodes over small weight alphabets (e.g. {-2..2}, {-1,0,1}, '
                '{-1.0,-0.5,0.0,0.5,1.0}, mixed int/float, optionally shifted by a constant); DENSE-LARGE graphs with 60-190 '
                'edges (K12, K14, K16, K18, K20, K8,8, K9,9, K10,10, each also minus 1-6 edges) over every alphabet and weight '
                'kind plus sign-structured kinds (all negative, negated non-negative ints/floats, 1-6 strongly negative edges '
                'among positive ones, one barely negative edge, non-negative shifted below zero, mixed-sign floats / wide '
                'ints), all node kinds, each decided by the verified memoised checker (is_min_pm_memo = is_min_pm) and by '
                'the independent subset DP; operation histories on ONE '
                'SimpleGraph object (add_edge, g[k]=w, del, pop, popitem, update, |=, setdefault, clear, copies, '
                'interleaved with mwpm / mwpm_networkx calls on the object or on a dict copy, fills with 4-10 nodes and with '
                'complete graphs on 10-12 nodes (45-66 edges); the caller damages returned '
                'sets; all results read again at the end) judged on the content of the object at each call; '
                'decoder-shaped graphs recorded from real MWPM/CMWPM/SMWPM decodes; all graphs on 4 '
                'labelled nodes with weights in a small set exhaustively. nontrivial = >= 6 nodes with >= 2 perfect '
                'matchings of different weight' % (nmax, ctx.pick(18, 24)))
    ctx.props_obligations()
    if blossom5.available():
        ctx.notes.append('Blossom V library unexpectedly available: graphtools.mwpm used it')
    else:
        ctx.notes.append('Blossom V backend skipped: blossom5.available() is False (library absent); only the NetworkX '
                         'path (mwpm -> mwpm_networkx) runs; weight_to_int_fn scaling not compared')
    ctx.hist['blossom5-skipped'] += 1

    cases = []   # dict(ops, items, res, prefixes, meta)
    pjobs, pmeta = [], []

    def run_graph(ops_nodes, meta):
        """in-process run (graphs recorded from decoders: arbitrary node objects)"""
        c = execute_graph(gt, ops_nodes, meta.get('steps'))
        c['meta'] = meta
        cases.append(c)

    # ---- 1. generated graphs --------------------------------------------------------------
    ngraphs = ctx.pick(8000, 40000)
    for it in range(ngraphs):
        n = rng.randint(2, nmax)
        if n > 10 and rng.random() < 0.6:
            n = rng.randint(2, 10)
        if n % 2 and rng.random() < 0.75:
            n += 1 if n < nmax else -1
        nk = rng.choice(NODE_KINDS)
        wk = rng.choice(WEIGHT_KINDS)
        dens = rng.choice(DENSITIES)
        nodes = make_nodes(rng, n, nk)
        edges = [(a, b) for a, b in itertools.combinations(range(n), 2) if rng.random() < dens]
        if dens < 1 and n % 2 == 0 and rng.random() < 0.7:
            # plant a perfect matching so that sparse graphs are mostly matchable
            perm = list(range(n))
            rng.shuffle(perm)
            for i in range(0, n, 2):
                e = (min(perm[i], perm[i + 1]), max(perm[i], perm[i + 1]))
                if e not in edges:
                    edges.append(e)
        rng.shuffle(edges)
        ops = []
        for a, b in edges:
            if rng.random() < 0.5:
                a, b = b, a
            ops.append((a, b, make_weight(rng, wk)))
        # re-insertions: reversed with a new weight, same orientation with a new weight
        reins = rng.choice([0, 0, 1, 2, 4])
        for _ in range(reins):
            if not ops:
                break
            a, b, _w = rng.choice(ops)
            if rng.random() < 0.7:
                a, b = b, a
            ops.insert(rng.randint(0, len(ops)), (a, b, make_weight(rng, wk)))
        fresh = it % 50 == 0   # equal-but-distinct tuple objects must be one node
        pjobs.append({'nodes': nodes, 'ops': [(a, b, w, fresh) for a, b, w in ops], 'steps': it % 10 == 0})
        pmeta.append({'kind': 'gen', 'n': n, 'nodes': nk, 'weights': wk, 'density': dens, 'reins': reins,
                      'steps': it % 10 == 0})

    # ---- 1b. structured families (cycles, paths, ladders, grids, K_nn, trees and caterpillars with a perfect matching,
    # pruned decoder-like graphs, prisms, cubes, unions) over small weight alphabets: many zeros, ties, negatives --------
    smax = ctx.pick(18, 24)
    for it in range(ctx.pick(5000, 30000)):
        fam, an, n, ops = extra.structured_graph(rng, smax if it % 3 == 0 else 12, dense_max=nmax)
        nk = rng.choice(NODE_KINDS)
        pjobs.append({'nodes': make_nodes(rng, n, nk), 'ops': [(a, b, w, False) for a, b, w in ops], 'steps': it % 25 == 0})
        pmeta.append({'kind': 'struct', 'n': n, 'nodes': nk, 'weights': an, 'density': fam, 'reins': 0,
                      'steps': it % 25 == 0})

    # ---- 1c. DENSE-LARGE graphs (60-190 edges): K12, K14, K16, K18, K20, K_{8,8}, K_{9,9}, K_{10,10}, each also minus a
    # few edges, over every weight alphabet / kind above plus sign-structured kinds (all negative, negated non-negative, a
    # few strongly negative edges among positive ones, one barely negative edge, shifted below zero, mixed-sign floats), all
    # node kinds.  Every graph is decided by the verified memoised checker is_min_pm_memo (= is_min_pm,
    # Decoders/MatchingMemo.v; engine command `mcheck`: K12 0.02 s, K16 0.3 s, K20 3 s) AND by the independent subset DP;
    # some 12-node graphs also by the plain constant-space recursion (`fcheck`, Decoders/MatchingMin.v)
    for it in range(ctx.pick(800, 4000)):
        shape, wname, n, ops = extra.dense_graph(rng, make_weight, WEIGHT_KINDS)
        nk = rng.choice(NODE_KINDS)
        pjobs.append({'nodes': make_nodes(rng, n, nk), 'ops': [(a, b, w, False) for a, b, w in ops], 'steps': False,
                      'dp_max': DENSE_DP_MAX, 'spread': True})
        pmeta.append({'kind': 'dense', 'n': n, 'nodes': nk, 'weights': wname, 'density': shape, 'reins': 0, 'steps': False})

    # ---- 2. all graphs on 4 labelled nodes, weights from a small set (exhaustive) ------------
    wset = ctx.pick([None, -1, 0, 1], [None, -1, 0, 1, 2.5])
    pairs4 = list(itertools.combinations(range(4), 2))
    for ws in itertools.product(wset, repeat=6):
        ops = [(a, b, w, False) if (a + b + len(ws)) % 2 else (b, a, w, False) for (a, b), w in zip(pairs4, ws) if w is not None]
        pjobs.append({'nodes': [('val', i) for i in range(4)], 'ops': ops, 'steps': False})
        pmeta.append({'kind': 'exhaustive-4', 'n': 4, 'nodes': 'int', 'weights': 'set', 'density': 0, 'reins': 0})
    from harness import decoder_zoo as zoo
    # the dense jobs cost 0.01 - 0.8 s each (subset DP): small chunks, dispatched first, the most expensive first
    didx = sorted((i for i, m_ in enumerate(pmeta) if m_['kind'] == 'dense'), key=lambda i: -pmeta[i]['n'])
    oidx = [i for i, m_ in enumerate(pmeta) if m_['kind'] != 'dense']
    groups = list(zoo.chunks(didx, 8)) + list(zoo.chunks(oidx, 100))
    chunked = [[pjobs[i] for i in g_] for g_ in groups]
    for chunk_res, chunk_meta in zip(zoo.run_pool(graph_jobs, chunked), [[pmeta[i] for i in g_] for g_ in groups]):
        for c, m_ in zip(chunk_res, chunk_meta):
            c['meta'] = m_
            cases.append(c)

    # ---- 2b. histories on ONE SimpleGraph object: every dict method between matcher calls, results kept and read again
    # at the end, returned sets damaged by the caller, copies, clear-and-refill at another size -------------------------
    hjobs = []
    for it in range(ctx.pick(1500, 12000)):
        hn = rng.choice([4, 6, 6, 8, 8, 10])
        hjobs.append({'seed': rng.getrandbits(48), 'nodes': rng.choice(NODE_KINDS), 'npool': hn + 2, 'nmax': hn})
    # ... and histories whose fills cross the 64-edge mark (complete graphs on 10-12 nodes: 45-66 edges) on the same object
    for it in range(ctx.pick(80, 800)):
        hjobs.append({'seed': rng.getrandbits(48), 'nodes': rng.choice(NODE_KINDS), 'npool': 14, 'nmax': 12, 'dense_max': 12})
    hists = [h for chunk in zoo.run_pool(history_jobs, list(zoo.chunks(hjobs, 20))) for h in chunk]

    # ---- 3. decoder-shaped graphs recorded from real decodes ----------------------------------
    recorded = []
    orig = gt.mwpm

    def rec(graph):
        m = orig(graph)
        recorded.append((dict(graph), m))
        return m
    gt.mwpm = rec
    try:
        import logging
        import numpy as np
        logging.getLogger('qecsim').setLevel(logging.ERROR)
        from qecsim import paulitools as pt
        from qecsim.models.planar import PlanarCode, PlanarMWPMDecoder, PlanarCMWPMDecoder
        from qecsim.models.toric import ToricCode, ToricMWPMDecoder
        from qecsim.models.rotatedplanar import RotatedPlanarCode, RotatedPlanarSMWPMDecoder
        from qecsim.models.rotatedtoric import RotatedToricCode, RotatedToricSMWPMDecoder
        from qecsim.models.generic import BiasedDepolarizingErrorModel
        combos = [(PlanarCode(3, 4), PlanarMWPMDecoder()), (PlanarCode(5, 5), PlanarMWPMDecoder()),
                  (ToricCode(4, 5), ToricMWPMDecoder()), (PlanarCode(4, 4), PlanarCMWPMDecoder()),
                  (PlanarCode(3, 5), PlanarCMWPMDecoder(2, 3, 'r', 2)),
                  (RotatedPlanarCode(5, 5), RotatedPlanarSMWPMDecoder()),
                  (RotatedToricCode(4, 4), RotatedToricSMWPMDecoder())]
        nprng = np.random.default_rng(ctx.seed + 13)
        for code, dec in combos:
            for rep in range(ctx.pick(6, 40)):
                n = code.n_k_d[0]
                e = np.zeros(2 * n, dtype=int)
                for q in nprng.choice(n, size=int(nprng.integers(1, 4)), replace=False):
                    p = int(nprng.integers(1, 4))
                    e[q] ^= p & 1
                    e[n + q] ^= p >> 1
                s = pt.bsp(e, code.stabilizers.T)
                try:
                    dec.decode(code, s, error_model=BiasedDepolarizingErrorModel(10, 'Y'), error_probability=0.1)
                except Exception:  # noqa  (decoder faults are C02's business)
                    pass
    finally:
        gt.mwpm = orig
    nrec = 0
    rcap = ctx.pick(12, 14)
    for graph, m in recorded:
        ns = set(x for k in graph for x in k)
        if not graph or len(ns) > rcap or len(graph) > 70:
            ctx.hist['recorded-too-large-or-empty'] += 1
            continue
        # the decoder's graph, weights rounded to multiples of 2^-10 so that float sums are exact
        ops = [(a, b, (w if isinstance(w, int) else round(float(w) * 1024) / 1024.0)) for (a, b), w in graph.items()]
        run_graph(ops, {'kind': 'recorded', 'n': len(ns), 'nodes': 'decoder', 'weights': 'decoder', 'density': 0,
                        'reins': 0})
        nrec += 1
        if nrec >= ctx.pick(250, 2500):
            break

    # ---- empty graph ------------------------------------------------------------------------
    for fn in (gt.mwpm, gt.mwpm_networkx):
        r = fn(gt.SimpleGraph())
        ctx.count('empty', False, 'empty')
        if r != set():
            ctx.violation('empty', 'empty graph does not yield the empty matching', {'got': repr(r)})

    # dense cases are judged last, the smallest first (so that a replay record is as small as the stream allows)
    cases.sort(key=lambda c_: c_['meta']['n'] if c_['meta']['kind'] == 'dense' else -1)

    # ---- model runs ---------------------------------------------------------------------------
    def gline(items):
        return ';'.join('%d:%d:%s' % (a, b, frac(w)) for (a, b), w in items) or '-'

    def mline(m):
        return ';'.join('%d:%d' % p for p in m) or '-'
    req = []
    dreq, dcost, fpairs = [], [], []
    for c in cases:
        c['i_build'] = len(req)
        req.append('build ' + (';'.join('%d:%d:%s' % (a, b, frac(w)) for a, b, w in c['ops']) or '-'))
        if c['prefixes']:
            c['i_steps'] = len(req)
            req.append('build_steps ' + (';'.join('%d:%d:%s' % (a, b, frac(w)) for a, b, w in c['ops']) or '-'))
        c['i_chk'] = []
        if c['meta']['kind'] == 'dense':
            # all_pms is never materialised for these: `mcheck` (an empty matching when the call raised: only npm is read)
            for wi, r in enumerate(c['res']):
                if wi == 1 and c['res'][0] == r:
                    c['i_chk'].append(c['i_chk'][0])
                    continue
                c['i_chk'].append(len(dreq))
                dl = '%s %s' % (gline(c['items']), mline(r) if isinstance(r, list) else '-')
                dreq.append('mcheck ' + dl)
                dcost.append(extra.DENSE_ENGINE_COST[c['meta']['density'].split('-')[0]])
                if c['meta']['n'] == 12 and len(fpairs) < ctx.pick(40, 400):
                    fpairs.append((len(dreq) - 1, len(dreq)))       # the same request to the plain recursion
                    dreq.append('fcheck ' + dl)
                    dcost.append(0.15)
            continue
        for wi, r in enumerate(c['res']):
            if isinstance(r, list):
                if wi == 1 and c['res'][0] == r:
                    c['i_chk'].append(c['i_chk'][0])
                    continue
                c['i_chk'].append(len(req))
                req.append('check %s %s' % (gline(c['items']), mline(r)))
            else:
                c['i_chk'].append(len(req))
                req.append('npms ' + gline(c['items']))
    # histories: the content after every operation (model of the dict methods) and one checker call per matcher call
    for h in hists:
        h['i_hist'] = len(req)
        req.append('hist ' + (';'.join(h['hops']) or '-'))
        for ev in h['events']:
            ev['i_chk'] = len(req)
            if len(set(x for k, _ in ev['items'] for x in k)) >= 11:
                # all_pms has >= 10^4 elements on a dense graph: the memoised checker (same boolean function)
                req.append('mcheckd %s %s' % (gline(ev['items']), mline(ev['res']) if isinstance(ev['res'], list) else '-'))
            elif isinstance(ev['res'], list):
                req.append('check %s %s' % (gline(ev['items']), mline(ev['res'])))
            else:
                req.append('npms ' + gline(ev['items']))
    # the dense requests run beside the others, dealt to 16 engine processes by measured cost (longest first)
    from concurrent.futures import ThreadPoolExecutor
    nth = 16
    parts, loads = [[] for _ in range(nth)], [0.0] * nth
    for i in sorted(range(len(dreq)), key=lambda i_: -dcost[i_]):
        j = loads.index(min(loads))
        parts[j].append(i)
        loads[j] += dcost[i]
    parts = [p_ for p_ in parts if p_]
    with ThreadPoolExecutor(max_workers=nth) as ex:
        futs = [ex.submit(ctx.model, 'c13', [dreq[i] for i in p_], 2400) for p_ in parts]
        out = zoo.model_parallel(ctx, 'c13', req)
        dout = [None] * len(dreq)
        for p_, fu in zip(parts, futs):
            for i, o in zip(p_, fu.result()):
                dout[i] = o

    out_main, req_main = out, req
    for im, if_ in fpairs:      # memoised vs plain recursion (is_min_pm_memo = is_min_pm_fast is proved; this checks the engine)
        fm, ff = (dict(t.split('=') for t in dout[i_].split(' ')) for i_ in (im, if_))
        ctx.cmp('engine mcheck vs fcheck', dreq[im][:400], *[' '.join('%s=%s' % (k_, f_[k_]) for k_ in ('npm', 'perfect', 'min', 'w'))
                                                                for f_ in (ff, fm)])
        ctx.count(None, False, 'dense/engine-cross-check(memo vs plain recursion)')

    def canon_graph(s):
        if s == '-':
            return []
        r = []
        for e in s.split(';'):
            a, b, w = e.split(':')
            r.append(((int(a), int(b)), parse_q(w)))
        return r

    def judge(kind, meta, items, r, ic, ev, rep, fname, key, sample_ok, out=None, req=None, spread=None):
        """one matcher call: r = what it returned on the graph `items`, out[ic] = the verified checker's verdict (or the
        number of perfect matchings when the call raised), ev = the independent evaluation. Returns the checker fields"""
        out, req = (out_main if out is None else out), (req_main if req is None else req)
        st, detail = ev
        large = st.startswith('large')
        if not isinstance(r, list):
            # an exception or a non-set: the model decides whether the graph is in the property's domain
            npm = int(out[ic]) if out[ic].isdigit() else int(dict(t.split('=') for t in out[ic].split(' '))['npm'])
            ctx.count(None, False, kind + '/raised')
            if not large and (npm == 0) != (st == 'no-pm') and st != 'reversed-duplicate':
                ctx.cmp('all_pms = [] vs independent DP', req[ic][:400], st, 'no-pm' if npm == 0 else 'has-pm')
            if npm > 0:
                ctx.violation('raised', '%s raised / returned a non-set on a graph with a perfect matching: %s'
                              % (fname, r), dict(rep, function=fname))
            return None
        f = dict(t.split('=') for t in out[ic].split(' '))
        npm = int(f['npm'])
        if npm == 0:
            ctx.count(key, False, kind + '/no-perfect-matching(skipped)')
            if st not in ('no-pm', 'reversed-duplicate', 'large-not-covering'):
                ctx.cmp('all_pms = [] vs independent DP', req[ic][:400], st, 'no-pm')
            return None
        meta = dict(meta, n=len(set(x for k, _ in items for x in k)))
        nontriv = meta['n'] >= 6 and npm >= 2 and (f['distinctw'] == '1' if spread is None else bool(spread))
        if kind == 'dense':
            label = 'dense/%s' % meta['density']
        elif kind == 'struct':
            label = 'struct/%s' % meta['density']
            ctx.hist['struct-alphabet/%s' % meta['weights']] += 1
        elif kind == 'hist':
            label = 'hist/%s' % fname
        else:
            label = '%s/%s/%s/d=%s' % (kind, meta['weights'], meta['nodes'], meta['density'])
        ctx.count(key, nontriv, label,
                  {'n': meta['n'], 'nodes': meta['nodes'], 'weights': meta['weights'], 'graph': gline(items)[:160],
                   'returned': mline(r), 'perfect_matchings': npm, 'min_weight': str(parse_q(f['minw']))}
                  if (meta['n'] == 6 and nontriv and sample_ok) else None)
        ctx.hist['n=%d' % meta['n']] += 1
        repv = dict(rep, function=fname, returned=[list(p) for p in r], checker=out[ic])
        if f['perfect'] != '1':
            ctx.violation('not-perfect', '%s: returned matching is not a perfect matching of the graph '
                          '(verified checker is_perfect = false)' % fname, repv)
        elif f['min'] != '1' and float(parse_q(f['w'])) == float(parse_q(f['minw'])) and parse_q(f['w']) != parse_q(f['minw']):
            # float weights whose exact totals differ by less than a rounding error: equal as doubles
            ctx.count(None, False, kind + '/equal-as-floats')
        elif f['min'] != '1':
            ctx.violation('not-minimum', '%s: returned perfect matching has weight %s but %s has the smaller '
                          'weight %s (verified checker is_min_pm = false)'
                          % (fname, parse_q(f['w']), 'another perfect matching' if f['counter'] == '_' else f['counter'],
                             parse_q(f['minw'])), repv)
        # independent evaluation must agree with the verified checker
        if large:
            ctx.count(None, False, kind + '/larger-than-DP(checker only)')
            if (st == 'large-perfect') != (f['perfect'] == '1'):
                ctx.cmp('is_perfect vs independent evaluation', req[ic][:400], st, 'perfect=' + f['perfect'])
            return f
        want = 'ok' if f['min'] == '1' else ('not-perfect' if f['perfect'] != '1' else 'not-minimum')
        if st != want and st != 'reversed-duplicate':
            ctx.cmp('is_min_pm vs independent DP', req[ic][:400], st, want)
        if st not in ('ok', 'reversed-duplicate') and f['min'] == '1':
            ctx.violation(st, '%s: %s (independent evaluation)' % (fname, detail), repv)
        return f

    kern = []
    dkern = []
    for c in cases:
        meta = c['meta']
        kind = meta['kind']
        impl_items = [((a, b), Fraction(w)) for (a, b), w in c['items']]
        model_items = canon_graph(out[c['i_build']])
        rep = {'ops': [[a, b, frac(w)] for a, b, w in c['ops']], 'graph': [[a, b, frac(w)] for (a, b), w in c['items']],
               'meta': {k: v for k, v in meta.items()}}
        # SimpleGraph contents vs the model of add_edge (ordered items), and the property directly
        ctx.cmp('SimpleGraph.add_edge sequence', req[c['i_build']][:600], impl_items, model_items)
        if c['prefixes']:
            mp = [canon_graph(s) for s in out[c['i_steps']].split('|')] if out[c['i_steps']] != '-' else []
            ip = [[((a, b), Fraction(w)) for (a, b), w in p] for p in c['prefixes']]
            ctx.cmp('SimpleGraph.add_edge prefixes', req[c['i_steps']][:600], ip, mp)
        last = {}
        for a, b, w in c['ops']:
            last[(min(a, b), max(a, b))] = Fraction(w)
        got = {}
        dup = False
        for (a, b), w in impl_items:
            k = (min(a, b), max(a, b))
            dup = dup or k in got
            got[k] = w
        if dup:
            ctx.violation('reversed-duplicate', 'SimpleGraph holds an edge together with its reverse', rep)
        elif got != last:
            ctx.violation('last-weight', 'SimpleGraph edge does not carry the weight of its last insertion', rep)
        if kind == 'dense':
            ws_ = [w for _, w in c['items']]
            sign = 'all-negative' if max(ws_) < 0 else ('non-negative' if min(ws_) >= 0 else
                                                        ('non-positive' if max(ws_) <= 0 else 'mixed-sign'))
            ctx.hist['dense-sign/%s' % sign] += 1
            ctx.hist['dense-weights/%s' % meta['weights']] += 1
            ctx.hist['dense-edges>=64' if len(c['items']) >= 64 else 'dense-edges<64'] += 1
        for which, (r, ic) in enumerate(zip(c['res'], c['i_chk'])):
            fname = ('mwpm', 'mwpm_networkx')[which]
            key = (tuple(c['ops'][:40]), which)
            if kind == 'dense':
                f = judge(kind, meta, c['items'], r, ic, c['eval'][which], rep, fname, key, False, out=dout, req=dreq,
                          spread=c.get('spread'))
                if f and which == 0 and f['min'] == '1' and meta['n'] == 12 and len(dkern) < 3 and min(ws_) < 0 < max(ws_) \
                        and all(Fraction(w).denominator <= 8 and abs(w) < 10 ** 4 for w in ws_):
                    dkern.append((c['items'], r))
                continue
            f = judge(kind, meta, c['items'], r, ic, c['eval'][which], rep, fname, key,
                      sample_ok=which == 0)
            if f and which == 0 and kind == 'gen' and len(set(x for k, _ in c['items'] for x in k)) <= 6 \
                    and len(kern) < 40 and f['min'] == '1' and not dup:
                kern.append((c['ops'], c['items'], r))

    # ---- histories on one object ----------------------------------------------------------------
    nev = 0
    hkern = []
    for h in hists:
        meta = h['meta']
        rep0 = {'history': h['ops'], 'meta': meta}
        model_states = [canon_graph(x) for x in out[h['i_hist']].split('|')] if h['hops'] else []
        impl_states = [[((a, b), Fraction(w)) for (a, b), w in st_] for st_ in h['states']]
        ctx.cmp('SimpleGraph history (dict methods)', req[h['i_hist']][:800], impl_states, model_states)
        ctx.count(None, False, 'history')
        for ei, ev in enumerate(h['events']):
            nev += 1
            rep = dict(rep0, call_index=ev['at'], function=ev['fn'], target=ev['target'],
                       graph=[[a, b, frac(w)] for (a, b), w in ev['items']])
            ks = [(min(a, b), max(a, b)) for (a, b), _ in ev['items']]
            if len(set(ks)) != len(ks) or any(a == b for a, b in ks):
                ctx.count(None, False, 'hist/reversed-duplicate-or-loop(skipped)')
                continue
            hm = dict(meta, kind='hist', weights='hist', density='hist')
            f = judge('hist', hm, ev['items'], ev['res'], ev['i_chk'], ev['eval'], rep, ev['fn'],
                      (meta['seed'], ei), sample_ok=False)
            if f and f['min'] == '1' and ei >= 1 and len(hkern) < 12 and len(h['ops']) <= 40 and ev['target'] == 'self' \
                    and not any(hk[0] is h for hk in hkern):
                hkern.append((h, ev))
            if not ev['items'] and ev['res'] != []:
                ctx.violation('empty', 'empty graph (after clear / pops) does not yield the empty matching', rep)
            if ev['res_end'] is not None and ev['res_end'] != ev['res']:
                ctx.violation('result-changed', '%s: the returned set read %r when it was returned and reads %r at the end of '
                              'the history (later operations changed a result already handed out)'
                              % (ev['fn'], ev['res'], ev['res_end']), rep)
    ctx.extra['histories'] = len(hists)
    ctx.extra['history_matcher_calls'] = nev
    ctx.extra['graphs'] = len(cases)
    ctx.extra['recorded_decoder_graphs'] = nrec
    ctx.exhaustive = False
    ctx.notes.append('exhaustive sub-sweep: all graphs on 4 labelled nodes with edge weights from %r' % (wset,))

    # ---- in-kernel shard ---------------------------------------------------------------------
    def q(w):
        f = Fraction(w)
        return '(Qmake (%d)%%Z %d%%positive)' % (f.numerator, f.denominator)
    def qs(s_):
        a, b = s_.split('/')
        return '(Qmake (%s)%%Z %s%%positive)' % (a, b)

    def coq_hop(op):
        c = op[0]
        if c == 'A':
            return 'HAdd %d %d %s' % (op[1], op[2], qs(op[3]))
        if c in 'SF':
            return '%s (%d, %d) %s' % ({'S': 'HSet', 'F': 'HSetdefault'}[c], op[1], op[2], qs(op[3]))
        if c == 'D':
            return 'HDel (%d, %d)' % (op[1], op[2])
        if c == 'U':
            return 'HUpdate %s' % coq_list(['((%d, %d), %s)' % (a, b, qs(w)) for a, b, w in op[1]])
        return {'P': 'HPopitem', 'C': 'HClear'}.get(c)
    hitems = []
    for h, ev in hkern:
        # the content of the object at the call = run (the dict operations logged before it), and the checker on it
        # (a history continued on a copy carries the content over, so the logged operations still describe it)
        hops = [coq_hop(op) for op in h['ops'][:ev['at']]]
        cg = coq_list(['((%d, %d), %s)' % (a, b, q(w)) for (a, b), w in ev['items']])
        hitems.append('(geqb (run %s) %s && is_min_pm %s %s)'
                      % (coq_list([x for x in hops if x]), cg, cg, coq_list(['(%d, %d)' % p_ for p_ in ev['res']])))
    items = []
    for ops, its, m in kern:
        cops = coq_list(['(%d, %d, %s)' % (a, b, q(w)) for a, b, w in ops])
        cg = coq_list(['((%d, %d), %s)' % (a, b, q(w)) for (a, b), w in its])
        cm = coq_list(['(%d, %d)' % p for p in m])
        items.append('(geqb (build %s) %s && is_min_pm %s %s)' % (cops, cg, cg, cm))
    ditems = []
    for its, m in dkern:
        # dense 12-node graphs with mixed-sign weights: the memoised checker on the scaled graph, inside the kernel
        cg = coq_list(['((%d, %d), %s)' % (a, b, q(w)) for (a, b), w in its])
        ditems.append('(is_min_pm_big %s %s)' % (cg, coq_list(['(%d, %d)' % p_ for p_ in m])))
    text = ('From Coq Require Import List Bool Arith QArith.\nFrom QV Require Import Decoders.Matching Decoders.MatchingHist '
            'Decoders.MatchingMemo.\n'
            'Import ListNotations.\nOpen Scope nat_scope.\n'
            'Definition qeqb (a b : Q) := Z.eqb (Qnum a) (Qnum b) && Pos.eqb (Qden a) (Qden b).\n'
            'Fixpoint geqb (g h : graph) : bool := match g, h with [], [] => true | (k, w) :: g\', (k\', w\') :: h\' => '
            'keyb k k\' && qeqb w w\' && geqb g\' h\' | _, _ => false end.\n'
            'Definition checks : list bool :=\n [' + ';\n  '.join(items + hitems + ditems) + '].\n'
            'Example corr : forallb (fun b => b) checks = true.\nProof. vm_compute. reflexivity. Qed.\n')
    ctx.kernel_cases('sample', text)
    ctx.extra['kernel_cases'] = len(items)
    ctx.extra['kernel_history_cases'] = len(hitems)
    ctx.extra['kernel_dense_cases'] = len(ditems)


def replay(path):
    """re-run one recorded case: rebuild the SimpleGraph from the integer-labelled insertion sequence, call both
    entry points, and apply the verified checker"""
    import qecsim.graphtools as gt
    d = json.load(open(path))
    print(json.dumps(d, indent=1)[:3000])
    r = d.get('replay', {})
    if 'history' in r:
        return replay_hist(r)
    if 'ops' not in r:
        return 0
    g = gt.SimpleGraph()
    for a, b, w in r['ops']:
        f = Fraction(w)
        g.add_edge(a, b, f.numerator if f.denominator == 1 else float(f))
    ctx = Ctx('C13', 'quick', 0)
    bad = 0
    nn = len(set(x for k in g for x in k))
    for fn in (gt.mwpm, gt.mwpm_networkx):
        try:
            m = sorted(fn(g))
        except Exception as e:  # noqa
            print(fn.__name__, 'raised', type(e).__name__, e)
            m = []
        items = list(g.items())
        st = direct_eval(items, m, 22)
        print(fn.__name__, m, 'independent evaluation (subset DP):', st)
        if st[0] in ('not-perfect', 'not-minimum'):
            bad = 1
        if nn > 22:
            continue            # beyond the engine's reach in reasonable time: the DP above decides
        # the verified checker: enumeration up to 10 nodes, the memoised one (same boolean) beyond
        line = '%s %s %s' % ('check' if nn <= 10 else 'mcheck',
                             ';'.join('%d:%d:%s' % (a, b, frac(w)) for (a, b), w in items) or '-',
                             ';'.join('%d:%d' % p for p in m) or '-')
        o = ctx.model('c13', [line])[0]
        print(fn.__name__, o)
        f = dict(t.split('=') for t in o.split(' '))
        if f['npm'] != '0' and f['min'] != '1':
            bad = 1
    print('REPRODUCED' if bad else 'not reproduced')
    return bad


def replay_hist(r):
    """re-execute a logged history on one SimpleGraph (integer node labels) and apply the verified checker to every
    matcher call, on the content the object had at that call"""
    import qecsim.graphtools as gt
    h = extra.replay_history(gt, r['history'], direct_eval)
    ctx = Ctx('C13', 'quick', 0)
    bad = 0
    for ev in h['events']:
        gl = ';'.join('%d:%d:%s' % (a, b, frac(w)) for (a, b), w in ev['items']) or '-'
        big = len(set(x for k, _ in ev['items'] for x in k)) >= 11     # the memoised checker (same boolean function)
        if isinstance(ev['res'], list):
            o = ctx.model('c13', ['%s %s %s' % ('mcheckd' if big else 'check', gl,
                                                ';'.join('%d:%d' % p for p in ev['res']) or '-')])[0]
            f = dict(t.split('=') for t in o.split(' '))
            fail = f['npm'] != '0' and f['min'] != '1'
        elif big:
            o = ctx.model('c13', ['mcheck %s -' % gl])[0]
            fail = dict(t.split('=') for t in o.split(' '))['npm'] != '0'
        else:
            o = ctx.model('c13', ['npms ' + gl])[0]
            fail = o != '0'
        if ev['res_end'] is not None and ev['res_end'] != ev['res']:
            fail = True
            o += ' result-changed-to=%r' % (ev['res_end'],)
        print('op %d %s(%s) graph=%s -> %s : %s%s' % (ev['at'], ev['fn'], ev['target'], gl, ev['res'], o,
                                                     '   <== FAILS' if fail else ''))
        bad = bad or fail
    print('REPRODUCED' if bad else 'not reproduced')
    return 1 if bad else 0
