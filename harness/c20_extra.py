"""C20 helpers: large / structured user-defined codes and a vectorised letter-level ground truth.

Large codes: a random Clifford frame (CNOT/H/S circuit followed by a few symplectic transvections, applied to the
trivial frame X_1..X_n, Z_1..Z_n) gives stabilizer generators G, their destabilizers D, and k logical pairs.  The
stabilizer LIST handed to validate() has m rows (m independent of n: redundant products of generators are allowed, as
StabilizerCode.stabilizers documents).  Rows at chosen position classes (first rows, middle, last rows, rows next to
powers of two) are 'pure': each is a generator that appears in no other row, so multiplying some operator by its
destabilizer produces a MINIMAL violation - exactly one anticommuting pair, located at a chosen pair of positions.
"""
import numpy as np


# ---------------------------------------------------------------- ground truth (letter level, vectorised)
def letter_planes(M):
    """one-hot planes (is X, is Y, is Z) of the Pauli letters of the rows of a bsf matrix"""
    M = np.atleast_2d(np.asarray(M))
    n = M.shape[1] // 2
    x, z = M[:, :n] != 0, M[:, n:] != 0
    return [(x & ~z).astype(np.float64), (x & z).astype(np.float64), (~x & z).astype(np.float64)]


def anti_matrix(A, B):
    """anti[i, j] = parity of the number of positions where letters of A_i and B_j are both non-identity and differ
    (Pauli letters X, Y, Z pairwise anticommute) - no symplectic product involved; float counts are exact (< 2**53)"""
    pa, pb = letter_planes(A), letter_planes(B)
    na, nb = pa[0] + pa[1] + pa[2], pb[0] + pb[1] + pb[2]
    both = na @ nb.T
    same = pa[0] @ pb[0].T + pa[1] @ pb[1].T + pa[2] @ pb[2].T
    return (np.rint(both - same).astype(np.int64)) % 2


def conditions_fast(S, X, Z):
    """(stabilizers mutually commute, stabilizers commute with logicals, logicals canonical) for len(X) == len(Z)"""
    S, X, Z = (np.atleast_2d(np.asarray(M)) for M in (S, X, Z))
    k = len(X)
    c1 = not anti_matrix(S, S).any() if len(S) else True
    L = np.vstack([X, Z])
    c2 = not anti_matrix(S, L).any() if len(S) and len(L) else True
    want = np.zeros((2 * k, 2 * k), dtype=np.int64)
    for i in range(k):
        want[i, k + i] = want[k + i, i] = 1
    c3 = len(X) == len(Z) and (np.array_equal(anti_matrix(L, L), want) if k else True)
    return bool(c1), bool(c2), bool(c3)


def hexrows(M):
    """compact replay encoding: one hex number per row (most significant bit = column 0)"""
    M = np.atleast_2d(np.asarray(M))
    w = (M.shape[1] + 3) // 4
    return [format(int(''.join('1' if v else '0' for v in r) or '0', 2), '0%dx' % w) for r in M]


# ---------------------------------------------------------------- random Clifford frames
def transvect(M, v):
    n = M.shape[1] // 2
    sw = np.concatenate([v[n:], v[:n]])
    c = (M @ sw) % 2
    return (M + np.outer(c, v)) % 2


def random_frame(rng, n, gates, transvections):
    """rows 0..n-1: images of X_1..X_n, rows n..2n-1: images of Z_1..Z_n"""
    f = np.identity(2 * n, dtype=int)
    for _ in range(gates):
        g, q = rng.randrange(3), rng.randrange(n)
        if g == 0:      # H on q
            f[:, [q, n + q]] = f[:, [n + q, q]]
        elif g == 1:    # S on q
            f[:, n + q] ^= f[:, q]
        else:           # CNOT q -> t
            t = rng.randrange(n)
            if t != q:
                f[:, t] ^= f[:, q]
                f[:, n + q] ^= f[:, n + t]
    for _ in range(transvections):
        w = rng.randint(1, 6)
        v = np.zeros(2 * n, dtype=int)
        for c in rng.sample(range(2 * n), min(w, 2 * n)):
            v[c] = 1
        f = transvect(f, v)
    return f


def position_classes(m):
    P = {0, 1, m // 2, m - 2, m - 1}
    b = 16
    while b - 1 < m:
        P.update((b - 1, b, b + 1))
        b *= 2
    return sorted(p for p in P if 0 <= p < m)


class BigCode:
    """valid code with m stabilizer rows on n qubits, k logical qubits; self.pure = {row position: generator index}"""

    def __init__(self, rng, n, k, m):
        self.n, self.k, self.m = n, k, m
        r = n - k
        f = random_frame(rng, n, rng.randint(2 * n, 10 * n), rng.randint(0, 4))
        self.D, self.X = f[:r].copy(), f[r:n].copy()
        G, self.Z = f[n:n + r], f[n + r:].copy()
        P = position_classes(m)
        if len(P) > r - 1:
            keep = [p for p in dict.fromkeys((0, m - 1, m - 2, 1)) if p in P][:max(0, r - 1)]
            rest = [p for p in P if p not in keep]
            P = sorted(keep + rng.sample(rest, max(0, min(len(rest), r - 1 - len(keep)))))
        gens = list(range(r))
        rng.shuffle(gens)
        self.pure = {p: gens[i] for i, p in enumerate(P)}
        pool = gens[len(P):]
        others = [p for p in range(m) if p not in self.pure]
        S = np.zeros((m, 2 * n), dtype=int)
        for p, g in self.pure.items():
            S[p] = G[g]
        for i, p in enumerate(others):
            if i < len(pool):
                S[p] = G[pool[i]]
            elif pool:   # redundant row: a product of a few generators of the pool
                for g in rng.sample(pool, min(len(pool), rng.randint(2, 4))):
                    S[p] ^= G[g]
            else:
                S[p] = G[rng.choice(gens)]
        if len(others) >= 2:   # mix the non-pure rows among themselves (same group)
            for _ in range(rng.randint(0, min(len(others), 64))):
                i, j = rng.sample(others, 2)
                S[i] ^= S[j]
        self.S, self.others = S, others

    def variants(self, rng, lite=False):
        """(kind, S, X, Z, how) - the base code, valid variants and single-operator corruptions at position classes"""
        S, X, Z, D, k, m, n = self.S, self.X, self.Z, self.D, self.k, self.m, self.n
        P = sorted(self.pure)
        out = [('big-valid', S, X, Z, 'valid')]

        def pair(j, i, kind='big-pair'):
            S2 = S.copy()
            S2[j] ^= D[self.pure[i]]
            out.append((kind, S2, X, Z, 'stabilizer row %d times the destabilizer of pure row %d' % (j, i)))

        def stab_logical(j):
            S2 = S.copy()
            l = rng.randrange(k)
            which = rng.choice('XZ')
            S2[j] ^= (X if which == 'X' else Z)[l]
            out.append(('big-stab-logical', S2, X, Z, 'stabilizer row %d times logical %s%d' % (j, which, l)))

        def logical_destab(i):
            X2, Z2 = X.copy(), Z.copy()
            l = rng.randrange(k)
            which = rng.choice('XZ')
            (X2 if which == 'X' else Z2)[l] ^= D[self.pure[i]]
            out.append(('big-logical-destab', S, X2, Z2, 'logical %s%d times the destabilizer of pure row %d' % (which, l, i)))

        last, first, mid = P[-1], P[0], P[len(P) // 2]
        if len(P) >= 2:
            pair(P[-1], P[-2])
            pair(first, last)
        stab_logical(last)
        logical_destab(last)
        if lite:
            return out
        if len(P) >= 2:
            pair(P[-2], P[-1])
            pair(last, first)
            for _ in range(3):
                j, i = rng.sample(P, 2)
                pair(j, i)
            if self.others:
                pair(rng.choice(self.others), rng.choice(P), 'big-generic-pair')
        for j in (first, mid, rng.randrange(m)):
            stab_logical(j)
        logical_destab(rng.choice(P))
        # valid variants
        l = rng.randrange(k)
        Z2 = Z.copy()
        Z2[l] ^= X[l]
        out.append(('big-valid-variant', S, X, Z2, 'logical Z%d times logical X%d (still canonical)' % (l, l)))
        X2 = X.copy()
        j = rng.randrange(m)
        X2[l] ^= S[j]
        out.append(('big-valid-variant', S, X2, Z, 'logical X%d times stabilizer row %d (still valid)' % (l, j)))
        if m >= 2:
            S2 = S.copy()
            j, i = rng.sample(range(m), 2)
            S2[j] ^= S[i]
            out.append(('big-valid-variant', S2, X, Z, 'stabilizer row %d times stabilizer row %d (still valid)' % (j, i)))
        # logical against logical
        X2 = X.copy()
        X2[l] = Z[l]
        out.append(('big-logical-logical', S, X2, Z, 'logical X%d replaced by logical Z%d' % (l, l)))
        if k >= 2:
            l1, l2 = rng.sample(range(k), 2)
            Z2 = Z.copy()
            Z2[l1] ^= X[l2]
            out.append(('big-logical-logical', S, X, Z2, 'logical Z%d times logical X%d' % (l1, l2)))
            X2 = X.copy()
            X2[[l1, l2]] = X2[[l2, l1]]
            out.append(('big-logical-logical', S, X2, Z, 'logical X%d and X%d swapped' % (l1, l2)))
        # unstructured single-qubit corruptions
        for _ in range(2):
            S2, X2, Z2 = S.copy(), X.copy(), Z.copy()
            o = rng.choice('SSSXZ')
            M = {'S': S2, 'X': X2, 'Z': Z2}[o]
            row, q, p = rng.randrange(len(M)), rng.randrange(n), rng.randint(1, 3)
            if p & 1:
                M[row, q] ^= 1
            if p & 2:
                M[row, n + q] ^= 1
            out.append(('big-1q', S2, X2, Z2, '%s row %d times %s on qubit %d' % (o, row, 'IXZY'[p], q)))
        return out
