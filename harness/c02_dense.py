"""C02, syndromes with MANY defects in STRUCTURED arrangements on larger lattices (the property is 'for every syndrome').

The main sweep (c02.py) takes the syndromes of errors on lattices up to 6x7 / 8x6: no more than a few dozen defects,
never arranged in separated groups.  Here the matching-family decoders (PlanarMWPM, ToricMWPM, PlanarCMWPM, both
symmetry-MWPM decoders at finite bias) are handed syndromes DIRECTLY, on lattices of about 9x14 .. 16x16, built from
the geometry of the code's own plaquettes (index of every stabilizer read through syndrome_to_plaquette_indices; class
= the stabilizer's letter type):
  clusters   2-4 well separated compact groups with an odd number (9..15) of defects each, in one class or in both
  dense      every stabilizer violated independently with probability 0.3 / 0.5 / 0.7
  far-pair   one or two pairs of defects as far apart as the lattice allows
  lines      all plaquettes of a class in one row / column (many equal distances)
  all-ones   every stabilizer violated (moderate sizes only: the matcher is cubic)
A syndrome is only used when it is VALID: a Gauss-Jordan elimination over GF(2) of the syndrome map of the
implementation's stabilizer matrix gives (a) the linear constraints a syndrome has to satisfy (e.g. an even number of
defects per lattice on a torus) - violated constraints are repaired by one extra isolated defect - and (b) a witness
error with exactly this syndrome, re-checked by the independent letter-level computation (and written to the replay).
Decided as in the main sweep: did not raise, not None, 1-d integer, then the verified checker `recovery_ok` (engine
`dec`) and the independent letter-level syndrome on what came back.  ONE decoder object decodes all syndromes of a job.

For PlanarMWPMDecoder / ToricMWPMDecoder the graph handed to graphtools.mwpm and the matching returned are recorded in
the worker and compared with the model: edge list and weights = Decoders/MwpmGraph.v (engine c14g; complete on the
defects: a missing edge is a mismatch), node set and the recovery for the RECORDED matching = Decoders/PlanarMwpm.v /
ToricMwpm.v (engine mwpm), and the hypothesis of c02_planar_mwpm / c02_toric_mwpm (the recorded matching is a perfect
matching of the node set) is evaluated on the recording."""
import os
import signal

import numpy as np

from harness import decoder_zoo as zoo
from harness.common import bitstr, rowsstr, coq_bits, coq_list, BUILD

CHECK = 'c02_dense'


# ---------------------------------------------------------------------------------------------
# GF(2): constraints on syndromes and witness errors
# ---------------------------------------------------------------------------------------------
class SyndromeMap:
    """e -> syndrome is linear over GF(2): A = [S_z-part | S_x-part] acting on e = (x | z).  Gauss-Jordan on [A | I]
    (rows as Python ints) gives T with T A in reduced echelon form: kernel rows of T are the constraints, pivot rows
    solve A e = s."""

    def __init__(self, stabs):
        S = np.asarray(stabs) % 2
        m, n2 = S.shape
        n = n2 // 2
        A = np.hstack([S[:, n:], S[:, :n]])
        rows = []
        for i in range(m):
            a = int(''.join(map(str, A[i][::-1].tolist())), 2) if n2 else 0     # bit q of a = A[i, q]
            rows.append(a | (1 << (n2 + i)))
        r = 0
        piv = []
        for col in range(n2):
            bit = 1 << col
            p = next((j for j in range(r, m) if rows[j] & bit), None)
            if p is None:
                continue
            rows[r], rows[p] = rows[p], rows[r]
            pr = rows[r]
            for j in range(m):
                if j != r and rows[j] & bit:
                    rows[j] ^= pr
            piv.append(col)
            r += 1
            if r == m:
                break
        self.m, self.n2, self.rank = m, n2, r
        self.piv = piv
        self.T = [row >> n2 for row in rows]             # bit i of T[j] = coefficient of syndrome bit i
        self.constraints = [np.array([(t >> i) & 1 for i in range(m)], dtype=int) for t in self.T[r:]]

    @staticmethod
    def _int(s):
        x = 0
        for i in np.flatnonzero(s):
            x |= 1 << int(i)
        return x

    def violated(self, s):
        x = self._int(s)
        return [k for k, t in enumerate(self.T[self.rank:]) if bin(t & x).count('1') & 1]

    def witness(self, s):
        """an error with syndrome s (None when s is not a syndrome of any error)"""
        x = self._int(s)
        if any(bin(t & x).count('1') & 1 for t in self.T[self.rank:]):
            return None
        e = np.zeros(self.n2, dtype=int)
        for j, col in enumerate(self.piv):
            if bin(self.T[j] & x).count('1') & 1:
                e[col] = 1
        return e


# ---------------------------------------------------------------------------------------------
# geometry of the code's plaquettes (through the public API of the code)
# ---------------------------------------------------------------------------------------------
class Geometry:
    def __init__(self, family, code):
        S = code.stabilizers
        m, n2 = S.shape
        n = n2 // 2
        self.m = m
        self.cls = ['X' if S[i, :n].any() else 'Z' for i in range(m)]
        self.pos = []
        for i in range(m):
            u = np.zeros(m, dtype=int)
            u[i] = 1
            (idx,) = code.syndrome_to_plaquette_indices(u)
            self.pos.append(tuple(int(v) for v in idx[-2:]))
        self.periodic = family in ('toric', 'rotatedtoric')
        self.period = tuple(max(p[k] for p in self.pos) + 1 for k in (0, 1))
        self.members = {c: [i for i in range(m) if self.cls[i] == c] for c in 'XZ'}

    def dist(self, i, j):
        d = 0
        for k in (0, 1):
            t = abs(self.pos[i][k] - self.pos[j][k])
            if self.periodic:
                t = min(t, self.period[k] - t)
            d += t
        return d

    def far_from(self, cands, chosen, rng):
        """the candidate maximising the least distance to `chosen` (ties: random)"""
        if not chosen:
            return rng.choice(cands)
        best, arg = -1, []
        for i in cands:
            d = min(self.dist(i, j) for j in chosen)
            if d > best:
                best, arg = d, [i]
            elif d == best:
                arg.append(i)
        return rng.choice(arg)

    def ball(self, centre, k, rng):
        """the k plaquettes of the centre's class nearest to it (ties: random)"""
        mem = self.members[self.cls[centre]]
        order = sorted(mem, key=lambda i: (self.dist(centre, i), rng.random()))
        return order[:k]


def make_syndromes(rng, geo, smap, count, allones):
    """[(kind, syndrome array)] - all valid"""
    m = geo.m
    out = []

    def repair(s, kind):
        for _ in range(8):
            bad = smap.violated(s)
            if not bad:
                return s
            c = smap.constraints[bad[0]]
            cands = [int(i) for i in np.flatnonzero(c) if not s[i]]
            if not cands:
                cands = [int(i) for i in np.flatnonzero(c)]
            defects = [int(i) for i in np.flatnonzero(s)]
            i = geo.far_from(cands, [j for j in defects if geo.cls[j] == geo.cls[cands[0]]][:60], rng)
            s[i] ^= 1
        return None

    def add(kind, s):
        s = repair(s, kind)
        if s is not None and s.any():
            out.append((kind, s))

    classes = [c for c in 'XZ' if len(geo.members[c]) >= 2]
    # clusters
    for t in range(count['clusters']):
        s = np.zeros(m, dtype=int)
        both = t % 3 == 2 and len(classes) == 2
        desc = []
        for c in (classes if both else [classes[t % len(classes)]]):
            g = rng.choice([2, 2, 3, 4]) if not both else rng.choice([2, 3])
            centres = []
            for _ in range(g):
                centres.append(geo.far_from(geo.members[c], centres, rng))
            for ce in centres:
                k = rng.choice([9, 11, 11, 13, 15])
                k = min(k, max(1, len(geo.members[c]) // g - 1))
                for i in geo.ball(ce, k, rng):
                    s[i] = 1
                desc.append(k)
        add('clusters/%s/%s' % ('both' if both else 'one-class', '+'.join(map(str, desc))), s)
    # dense random
    for t in range(count['dense']):
        q = min((0.5, 0.3, 0.7)[t % 3], 200.0 / m)     # at most about 200 defects: the matchers are cubic
        add('dense/%.2f' % q, np.array([1 if rng.random() < q else 0 for _ in range(m)], dtype=int))
    # far-apart pairs
    for t in range(count['far']):
        s = np.zeros(m, dtype=int)
        for c in (classes if t % 2 else [rng.choice(classes)]):
            a = rng.choice(geo.members[c])
            b = geo.far_from([i for i in geo.members[c] if i != a], [a], rng)
            s[a] = s[b] = 1
        add('far-pair', s)
    # lines
    for t in range(count['lines']):
        s = np.zeros(m, dtype=int)
        c = rng.choice(classes)
        k = rng.choice((0, 1))
        v = geo.pos[rng.choice(geo.members[c])][k]
        for i in geo.members[c]:
            if geo.pos[i][k] == v:
                s[i] = 1
        add('line', s)
    if allones:
        add('all-ones', np.ones(m, dtype=int))
    return out


# ---------------------------------------------------------------------------------------------
# worker: one decoder object, a sequence of syndromes, graphs and matchings recorded
# ---------------------------------------------------------------------------------------------
def _fmt(i):
    return ':'.join(str(int(x)) for x in i)


def run_syndrome_job(job):
    """job = dict(id, code, decoder, syndromes=[bit strings], contexts=[(em_spec, p)], record=bool)"""
    import qecsim.graphtools as gt
    from qecsim.model import DecodeResult
    from harness import c14_extra as cx
    code = zoo._code(job['code'])
    try:
        decoder = zoo.make_decoder(job['decoder'])
    except Exception as e:  # noqa
        return {'id': job['id'], 'ctor_error': '%s: %s' % (type(e).__name__, e), 'results': []}
    calls = []
    orig = gt.mwpm

    def rec(graph):
        g = dict(graph)
        mates = orig(graph)
        calls.append((g, list(mates)))
        return mates
    res = []
    if job.get('record'):
        gt.mwpm = rec
    try:
        for ss, (ems, p) in zip(job['syndromes'], job['contexts']):
            s = np.array([int(c) for c in ss], dtype=int)
            out = {'syndrome': ss}
            del calls[:]
            try:
                em = zoo.make_error_model(ems)
                signal.alarm(zoo.DECODE_TIMEOUT)
                try:
                    r = decoder.decode(code, s.copy(), error_model=em, error_probability=p)
                finally:
                    signal.alarm(0)
                if r is None:
                    out['outcome'] = 'None'
                else:
                    if isinstance(r, DecodeResult):
                        r = r.recovery
                    a = np.asarray(r)
                    out['outcome'] = 'ok'
                    out['shape'] = list(a.shape)
                    out['dtype'] = str(a.dtype)
                    out['recovery'] = zoo.digits(a) if a.ndim == 1 and a.dtype != object else None
            except zoo._Timeout:
                out['outcome'] = 'ERR Timeout after %ds' % zoo.DECODE_TIMEOUT
            except MemoryError:
                out['outcome'] = 'ERR MemoryError'
            except Exception as ex:  # noqa
                out['outcome'] = 'ERR %s: %s' % (type(ex).__name__, str(ex)[:160])
            if job.get('record'):
                out['graphs'] = [cx.canon_graph(g) for g, _ in calls]
                out['nodes'] = [sorted(set(_fmt(x) for k in g for x in k)) for g, _ in calls]
                out['mates'] = [['%s>%s' % (_fmt(a), _fmt(b)) for a, b in mm] for _, mm in calls]
            res.append(out)
    finally:
        gt.mwpm = orig
    return {'id': job['id'], 'results': res}


# ---------------------------------------------------------------------------------------------
def ensure_pm_theorems(ctx):
    """Decoders/ToricMwpmPm.v (the toric decoder's graph contains a perfect matching iff the lattice has an even number
    of defects; toric_mwpm_graph_total) compiled against the current development - recompiled under the build lock when
    stale - and free of Admitted / Axiom: registered as an obligation."""
    import fcntl
    import re
    import subprocess
    from harness.common import COQ
    src = os.path.join(COQ, 'theories', 'Decoders', 'ToricMwpmPm.v')
    vo = src[:-2] + '.vo'
    deps = [os.path.join(COQ, 'theories', d) for d in ('Decoders/MwpmGraph.vo', 'Decoders/ToricMwpm.vo', 'Decoders/MwpmRel.vo')]
    log = ''
    lock = open(os.path.join(BUILD, '.make.lock'), 'w')
    fcntl.flock(lock, fcntl.LOCK_EX)
    try:
        newest = max([os.path.getmtime(src)] + [os.path.getmtime(d) for d in deps if os.path.exists(d)])
        if not os.path.exists(vo) or os.path.getmtime(vo) < newest:
            pr = subprocess.run(['timeout', '600', 'coqc', '-Q', 'theories', 'QV', 'theories/Decoders/ToricMwpmPm.v'], cwd=COQ,
                                capture_output=True, text=True)
            log = pr.stdout + pr.stderr
        ok = os.path.exists(vo) and os.path.getmtime(vo) >= newest
    finally:
        fcntl.flock(lock, fcntl.LOCK_UN)
        lock.close()
    text = re.sub(r'\(\*.*?\*\)', '', open(src).read(), flags=re.S)
    bad = re.search(r'\b(Admitted|admit|Axiom|Parameter|Conjecture)\b', text)
    need = all(('Theorem %s ' % t) in text for t in ('toric_graph_has_perfect_matching', 'toric_graph_perfect_matching_iff',
                                                     'toric_mwpm_graph_total'))
    ctx.obligation('Decoders/ToricMwpmPm.v compiled: the toric decoder\'s complete graph has a perfect matching iff the number of '
                   'defects on the lattice is even, for every syndrome and size (toric_graph_perfect_matching_iff, '
                   'toric_mwpm_graph_total)', bool(ok and not bad and need), log)


def _sizes(ctx, rng):
    quick = ctx.quick
    ev = lambda lo, hi: 2 * rng.randint(lo // 2, hi // 2)
    big = {
        'toric': [(14, 14), (16, 16), (rng.randint(11, 14), rng.randint(13, 16))],
        'planar': [(12, 12), (16, 16), (rng.randint(8, 11), rng.randint(12, 16))],
        'rotatedplanar': [(11, 11), (14, 15), (rng.randint(9, 12), rng.randint(11, 14))],
        'rotatedtoric': [(12, 12), (16, 16), (ev(8, 12), ev(12, 16))],
    }
    if not quick:
        big['toric'] += [(15, 15), (16, 12), (18, 18)]
        big['planar'] += [(14, 14), (15, 9), (18, 18)]
        big['rotatedplanar'] += [(15, 15), (13, 10), (16, 16)]
        big['rotatedtoric'] += [(14, 14), (16, 10), (18, 18)]
    mid = {'toric': [(6, 6), (7, 8)], 'planar': [(6, 6), (5, 8)], 'rotatedplanar': [(7, 7), (6, 9)], 'rotatedtoric': [(6, 6), (6, 8)]}
    if not quick:
        mid = {'toric': mid['toric'] + [(9, 9)], 'planar': mid['planar'] + [(8, 8)],
               'rotatedplanar': mid['rotatedplanar'] + [(9, 8)], 'rotatedtoric': mid['rotatedtoric'] + [(8, 8)]}
    return big, mid


def _decoders(rng, family, which):
    if family == 'toric':
        return [('ToricMWPMDecoder', ())]
    if family == 'planar':
        out = [('PlanarMWPMDecoder', ())]
        if which < 2:
            out.append(('PlanarCMWPMDecoder', ()) if which == 0 else ('PlanarCMWPMDecoder', zoo.cmwpm_params(rng)))
        return out
    if family == 'rotatedplanar':
        return [('RotatedPlanarSMWPMDecoder', (eta,)) for eta in ((None, 10) if which == 0 else (rng.choice([0.1, 1, 300]),))]
    return [('RotatedToricSMWPMDecoder', (rng.choice([False, True]), eta)) for eta in ((None, 10) if which == 0 else (rng.choice([0.1, 1, 300]),))]


CONTEXTS = [(('DepolarizingErrorModel', ()), 0.1), (('DepolarizingErrorModel', ()), 0.3),
            (('BiasedDepolarizingErrorModel', (10, 'Y')), 0.05), (('BiasedDepolarizingErrorModel', (0.5, 'Z')), 0.2),
            (('BitFlipErrorModel', ()), 0.1)]


def run(ctx):
    rng = ctx.rng
    ensure_pm_theorems(ctx)
    big, mid = _sizes(ctx, rng)
    count = {'clusters': ctx.pick(6, 12), 'dense': ctx.pick(2, 3), 'far': ctx.pick(2, 4), 'lines': ctx.pick(1, 3)}
    count_mid = {'clusters': 1, 'dense': ctx.pick(1, 3), 'far': 1, 'lines': 1}
    jobs, meta, codes, mat_lines = [], {}, {}, []
    for family in ('toric', 'planar', 'rotatedplanar', 'rotatedtoric'):
        for which, (sz, is_mid) in enumerate([(s, False) for s in big[family]] + [(s, True) for s in mid[family]]):
            cs = (family, tuple(sz))
            if cs in codes:
                continue
            code = zoo.make_code(cs)
            S = code.stabilizers
            n = code.n_k_d[0]
            cname = 'D' + zoo.code_name(cs)
            scodes = zoo.stab_letter_codes(S)
            geo = Geometry(family, code)
            smap = SyndromeMap(S)
            codes[cs] = (code, n, cname, scodes)
            mat_lines.append('mat %s %s' % (cname, rowsstr(S)))
            syns = make_syndromes(rng, geo, smap, count_mid if is_mid else count, allones=is_mid)
            items = []
            for kind, s in syns:
                e = smap.witness(s)
                if e is None or not np.array_equal(zoo.letter_syndrome(scodes, e), s):
                    raise RuntimeError('c02_dense: generated syndrome has no witness error (harness defect) %s %s' % (cs, kind))
                items.append((kind, bitstr(s), zoo.bsf_to_letters(e)))
            for ds in _decoders(rng, family, which if not is_mid else 0):
                finite_only = 'SMWPM' in ds[0]
                plain = ds[0] in ('PlanarMWPMDecoder', 'ToricMWPMDecoder')
                # the converging / symmetry decoders take tens of seconds beyond about 120 defects
                mine = items if plain else [x for x in items if x[1].count('1') <= 120]
                for part in zoo.chunks(mine, 5 if plain else 2):
                    jid = len(jobs)
                    ctxs = [CONTEXTS[rng.randrange(2 if finite_only else len(CONTEXTS))] for _ in part]
                    jobs.append({'id': jid, 'code': cs, 'decoder': ds, 'syndromes': [x[1] for x in part], 'contexts': ctxs,
                                 'record': ds[0] in ('PlanarMWPMDecoder', 'ToricMWPMDecoder')})
                    meta[jid] = (family, cs, ds, part)
    import time
    t0 = time.time()
    # the expensive jobs first (the matchers are cubic in the number of defects)
    jobs.sort(key=lambda j: -sum(s.count('1') ** 2 for s in j['syndromes']) * (1 if j['record'] else 4))
    results = zoo.run_pool(run_syndrome_job, jobs)
    t1 = time.time()

    # ---- requests to the model engines -------------------------------------------------------
    req, look = [], {}
    greq, glook = [], {}
    mreq, mlook = [], {}
    have_c14g = os.path.exists(os.path.join(BUILD, 'qmodel_c14g'))
    ctx.obligation('model engine c14g (Decoders/MwpmGraph.v) available for the many-defect graph correspondence', have_c14g)
    stabs_seen = set()
    for job, res in zip(jobs, results):
        family, cs, ds, part = meta[job['id']]
        code, n, cname, _ = codes[cs]
        f, (R, C) = cs[0][0], cs[1]
        for k, r in enumerate(res['results']):
            if r.get('recovery') is not None:
                look[(job['id'], k)] = len(req)
                req.append('rok %s %d %s %s' % (cname, n, r['recovery'] or '-', r['syndrome']))
            if job['record'] and r.get('graphs') is not None:
                if cs not in stabs_seen:
                    stabs_seen.add(cs)
                    mlook[('stabs', cs)] = len(mreq)
                    mreq.append('%sstabs %d %d' % (f, R, C))
                if have_c14g:
                    glook[(job['id'], k)] = len(greq)
                    greq.append('%sgraph %d %d %s' % (f, R, C, r['syndrome']))
                mlook[(job['id'], k, 'nodes')] = len(mreq)
                mreq.append('%snodes %d %d %s' % (f, R, C, r['syndrome']))
                if r['outcome'] == 'ok' and len(r['mates']) == 2:
                    mlook[(job['id'], k, 'rec')] = len(mreq)
                    mreq.append('%srec %d %d %s' % (f, R, C, ';'.join(x for mm in r['mates'] for x in mm) or '-'))
    out = zoo.model_parallel(ctx, 'dec', req, prefix=mat_lines)
    gout = zoo.model_parallel(ctx, 'c14g', greq) if greq else []
    mout = zoo.model_parallel(ctx, 'mwpm', mreq) if mreq else []
    from harness import c14_extra as cx
    t2 = time.time()

    for key, i in mlook.items():
        if key[0] == 'stabs':
            cs = key[1]
            ctx.cmp('%s_code stabilizers (large size)' % cs[0], list(cs[1]), rowsstr(codes[cs][0].stabilizers), mout[i])
            ctx.count(('dense-model-code', cs), True, 'dense/model-code-matrix')

    gkern = []
    ngraph = 0
    for job, res in zip(jobs, results):
        family, cs, ds, part = meta[job['id']]
        code, n, cname, scodes = codes[cs]
        dn = zoo.dec_name(ds)
        if res.get('ctor_error'):
            ctx.violation('constructor', 'decoder constructor raised on parameters of its documented domain: ' + res['ctor_error'],
                          {'decoder': list(ds)})
            continue
        for k, r in enumerate(res['results']):
            kind, ss, eletters = part[k]
            ems, p = job['contexts'][k]
            ndef = ss.count('1')
            rep = {'check': CHECK, 'code': [cs[0], list(cs[1])], 'decoder': [ds[0], list(ds[1])], 'error': eletters,
                   'error_model': [ems[0], list(ems[1])], 'error_probability': p, 'syndrome': ss, 'syndrome_kind': kind,
                   'defects': ndef, 'outcome': r['outcome'], 'app_context': False,
                   'note': 'the syndrome was handed to decode directly; `error` is a witness with exactly this syndrome'}
            ctx.count(('dense', cname, dn, ss), True, 'dense/%s/%s' % (ds[0], kind.split('/')[0]),
                      {'code': cname[1:], 'decoder': dn, 'syndrome_kind': kind, 'defects': ndef,
                       'context': '%s p=%r' % (ems[0], p)} if kind.startswith('clusters') and len(ctx.samples) < 3 else None)
            ctx.hist['dense/defects>=%d' % (10 * (ndef // 10))] += 1
            if r['outcome'].startswith('ERR'):
                ctx.violation('raised', '%s on %s raised on a %s syndrome (%d defects): %s' % (dn, cname[1:], kind, ndef, r['outcome']), rep)
                continue
            if r['outcome'] == 'None':
                ctx.violation('none', '%s on %s returned None on a %s syndrome' % (dn, cname[1:], kind), rep)
                continue
            if r.get('recovery') is None:
                ctx.violation('shape', '%s on %s returned an array of shape %s dtype %s (want 1-d integer)'
                              % (dn, cname[1:], r.get('shape'), r.get('dtype')), rep)
                continue
            rec = r['recovery']
            v = out[look[(job['id'], k)]]
            ok_len = len(rec) == 2 * n
            ok_bin = set(rec) <= {'0', '1'}
            ok_syn = ok_len and ok_bin and bitstr(zoo.letter_syndrome(scodes, np.array([int(c) for c in rec]))) == ss
            indep = '1' if ok_syn else '0'
            ctx.cmp('recovery_ok vs independent letter-level', '%s %s %s' % (cname, rec, ss), indep, v)
            rep['recovery'] = rec
            if v != '1' or indep != '1':
                what = ('wrong length %d (want %d)' % (len(rec), 2 * n) if not ok_len else 'non-binary entries' if not ok_bin else
                        'recovery does not reproduce the syndrome')
                ctx.violation('syndrome', '%s on %s, %s syndrome with %d defects: %s (verified checker recovery_ok = %s)'
                              % (dn, cname[1:], kind, ndef, what, v), rep)
            if r.get('dtype', '').startswith(('float', 'bool', 'complex', 'object')):
                ctx.violation('shape', '%s on %s returned dtype %s' % (dn, cname[1:], r['dtype']), rep)
            # ---- recorded graph / matching against the models -------------------------------
            if not job['record'] or r.get('graphs') is None:
                continue
            crep = {x: rep[x] for x in ('code', 'decoder', 'syndrome', 'syndrome_kind', 'defects')}
            if len(r['graphs']) != 2:
                ctx.cmp('matcher called once per lattice', crep, len(r['graphs']), 2)
                continue
            if (job['id'], k) in glook:
                ngraph += 1
                impl_g = '|'.join(r['graphs'])
                model_g = '|'.join(cx.canon_model_graph(x) for x in gout[glook[(job['id'], k)]].split('|'))
                same = ctx.cmp('%s MWPM matching graph on a many-defect syndrome (edges and weights, both lattices)' % cs[0],
                               crep, impl_g if len(impl_g) < 4000 else _graph_digest(impl_g, model_g),
                               model_g if len(model_g) < 4000 else _graph_digest(model_g, impl_g))
                if same and len(gkern) < 2 and 20 <= impl_g.count('>') <= 400:
                    gkern.append((cs, ss, r['graphs']))
            model_nodes = [sorted(part_.split(';')) if part_ != '-' else [] for part_ in mout[mlook[(job['id'], k, 'nodes')]].split('|')]
            for li in (0, 1):
                ctx.cmp('%s MWPM node set on a many-defect syndrome (lattice %d)' % (cs[0], li), crep,
                        sorted(r['nodes'][li]), sorted(model_nodes[li]))
                ends = sorted(x for mm in r['mates'][li] for x in mm.split('>'))
                if ends != sorted(r['nodes'][li]):
                    missing = sorted(set(r['nodes'][li]) - set(ends))
                    ctx.cmp('recorded matching is a perfect matching of the node set (hypothesis of c02_%s_mwpm)' % cs[0],
                            dict(crep, lattice=li), 'unmatched nodes: %s' % ' '.join(missing[:12]), 'perfect')
            if (job['id'], k, 'rec') in mlook:
                ctx.cmp('%s MWPM recovery for the recorded matching (many-defect syndrome)' % cs[0], crep, rec,
                        mout[mlook[(job['id'], k, 'rec')]])
    ctx.extra['dense_decodes'] = sum(len(j['syndromes']) for j in jobs)
    ctx.extra['dense_graphs_compared'] = ngraph
    t3 = time.time()
    _kernel(ctx, gkern)
    ctx.extra['dense_seconds'] = {'decode': round(t1 - t0, 1), 'engines': round(t2 - t1, 1), 'evaluate': round(t3 - t2, 1),
                                  'kernel': round(time.time() - t3, 1)}


def _graph_digest(a, b):
    """long graphs: the entries of a that are not in b (first 40) and the sizes"""
    sa, sb = a.replace('|', ';').split(';'), set(b.replace('|', ';').split(';'))
    extra = [x for x in sa if x not in sb]
    return '%d edges; not in the other graph: %s' % (len(sa), ' '.join(extra[:40]) or '-')


def _kernel(ctx, gkern):
    if not gkern:
        return
    gi = []
    for cs, syn, graphs in gkern:
        sb = coq_bits([c == '1' for c in syn])
        for li, g in enumerate(graphs):
            ents = [] if g == '-' else g.split(';')
            if cs[0] == 'planar':
                fmt = lambda a: '(%s, %s)' % tuple('(%s)' % x for x in a.split(':'))
                mg = '%s %d %d %s' % ('primal_graph' if li == 0 else 'dual_graph', cs[1][0], cs[1][1], sb)
                fn = 'same2'
            else:
                fmt = lambda a: '(%s, %s, %s)' % tuple('(%s)' % x for x in a.split(':'))
                mg = 'toric_graph %d %d %d %s' % (cs[1][0], cs[1][1], li, sb)
                fn = 'same3'
            il = coq_list(['(%s, %s, (%s))' % (fmt(en.split('=')[0].split('>')[0]), fmt(en.split('=')[0].split('>')[1]),
                                               en.split('=')[1]) for en in ents])
            gi.append('%s (%s) %s' % (fn, mg, il))
    text = ('From Coq Require Import List Bool ZArith NArith.\nFrom QV Require Import Core.Bits Core.Pauli Core.Symp Core.Code '
            'Lattice.Planar Lattice.Toric Decoders.PlanarMwpm Decoders.ToricMwpm Decoders.MwpmGraph.\nImport ListNotations.\n'
            'Open Scope Z_scope.\n'
            'Definition same {A} (eqb : A -> A -> bool) (g : list (A * A * option Z)) (impl : list (A * A * Z)) : bool :=\n'
            '  Nat.eqb (length g) (length impl) && forallb (fun e => let \'(a, b, w) := e in existsb (fun m => match m with\n'
            '    | (x, y, Some u) => ((eqb x a && eqb y b) || (eqb x b && eqb y a)) && (u =? w) | _ => false end) g) impl.\n'
            'Definition same2 := same zeqb2.\nDefinition same3 := same zeqb3.\n'
            'Definition checks : list bool :=\n [' + ';\n  '.join(gi) + '].\n'
            'Example corr : forallb (fun b => b) checks = true.\nProof. vm_compute. reflexivity. Qed.\n')
    ctx.kernel_cases('dense_graph', text)
    ctx.extra['dense_graph_kernel_cases'] = len(gi)


def replay_one(r):
    """decode the recorded syndrome again, directly, and re-apply the verified checker: 1 if the failure reproduces"""
    from harness.common import Ctx
    cs = (r['code'][0], tuple(r['code'][1]))
    ds = (r['decoder'][0], tuple(r['decoder'][1]))
    ems = (r['error_model'][0], tuple(tuple(x) if isinstance(x, list) else x for x in r['error_model'][1]))
    zoo._init_worker()
    res = run_syndrome_job({'id': 0, 'code': cs, 'decoder': ds, 'syndromes': [r['syndrome']],
                            'contexts': [(ems, r['error_probability'])], 'record': False})
    if res.get('ctor_error'):
        print('constructor:', res['ctor_error'])
        print('REPRODUCED')
        return 1
    res = res['results'][0]
    print('outcome now:', {k: (v if k != 'recovery' or v is None else v[:80] + '...') for k, v in res.items() if k != 'syndrome'})
    code = zoo.make_code(cs)
    bad = 1
    if res.get('recovery') is not None:
        ctx = Ctx('C02', 'quick', 0)
        o = ctx.model('dec', ['mat c ' + rowsstr(code.stabilizers),
                              'rok c %d %s %s' % (code.n_k_d[0], res['recovery'] or '-', r['syndrome'])])
        print('recovery_ok =', o[1])
        bad = 0 if o[1] == '1' else 1
    print('REPRODUCED' if bad else 'not reproduced')
    return bad
