"""C19 — the CLI computes what the API computes and never drops results.
Specification-string grammar vs the Cli/Ctor model, constructor results vs API constructors, run / run-ftp /
merge JSON vs the API, output-path situations vs the Cli/WriteData model (real subprocesses in a scratch
directory), and the malformed-argument stream."""
import hashlib
import json
import os
import shutil
import subprocess
import sys
import tempfile
from concurrent.futures import ThreadPoolExecutor

from harness.common import REPO, exc_class
from harness import c19_extra
from harness import c19_spec


def codes(s):
    return ','.join(str(ord(c)) for c in s) if s else '-'


def uncodes(t):
    return '' if t == '-' else ''.join(chr(int(x)) for x in t.split(','))


def cli_env():
    env = dict(os.environ)
    env['PYTHONPATH'] = os.path.join(REPO, 'src')
    env['PYTHONWARNINGS'] = 'ignore'
    env.pop('QECSIM_CFG', None)
    return env


def run_cli(args, cwd, timeout=300):
    p = subprocess.run([sys.executable, '-W', 'ignore', '-m', 'qecsim'] + args, cwd=cwd, env=cli_env(),
                       capture_output=True, text=True, timeout=timeout)
    return p.returncode, p.stdout, p.stderr


def strip_wall(rows):
    return [{k: v for k, v in r.items() if k != 'wall_time'} for r in rows]


def run(ctx):
    import logging
    logging.getLogger('qecsim').setLevel(logging.ERROR)
    import warnings
    warnings.simplefilter('ignore')
    import click
    import pkg_resources
    import qecsim.cli as qc
    from qecsim import app
    rng = ctx.rng
    ctx.rule = ('every registered model name x argument spellings (none, (), positional, trailing comma, whitespace, '
                'nested tuples, strings, code-like, unbalanced); run/run-ftp/merge through click and through real '
                'subprocesses with option combinations; output situations stdout/new/existing/missing-dir; malformed '
                'stream; histories of CLI merges (depth 1-3, several groupings, outputs fed back through -o / stdout / '
                'recovered-data log) over fresh outputs, data files of every record format app.merge documents and '
                'malformed files, decided by app.merge, the merge-command model and the flat model merge. nontrivial = argument-carrying spec or non-stdout output or merge history of depth >= 2')
    ctx.props_obligations()
    tmp = tempfile.mkdtemp(prefix='qv_c19_')
    cwd = os.getcwd()
    try:
        os.chdir(tmp)   # anything a (mutated) CLI evaluates or writes lands in the scratch directory
        _run(ctx, tmp, rng, click, pkg_resources, qc, app)
    finally:
        os.chdir(cwd)
        shutil.rmtree(tmp, ignore_errors=True)


def _run(ctx, tmp, rng, click, pkg_resources, qc, app):
    # ------------------------------------------------------------------ registry
    groups = {}
    for cmd in ('run', 'run_ftp'):
        for mt in ('code', 'error_model', 'decoder'):
            key = 'qecsim.cli.%s.%ss' % (cmd, mt)
            groups[key] = {ep.name: ep.load() for ep in pkg_resources.iter_entry_points(key)}
    # package metadata (setup.cfg) must agree with what is installed
    import configparser
    cp = configparser.ConfigParser()
    cp.read(os.path.join(REPO, 'setup.cfg'))
    for key, reg in groups.items():
        want = {}
        for line in cp.get('options.entry_points', key, fallback='').strip().split('\n'):
            if '=' in line:
                n, t = [x.strip() for x in line.split('=')]
                want[n] = t
        got = {n: '%s:%s' % (c.__module__.rsplit('.', 1)[0] if c.__module__.split('.')[-1].startswith('_') else c.__module__,
                             c.__name__) for n, c in reg.items()}
        ctx.count(('registry', key), True, 'registry')
        if set(want) != set(got) or any(want[n].split(':')[1] != got[n].split(':')[1] for n in want):
            ctx.violation('registry', 'registered names differ from setup.cfg', {'key': key, 'setup.cfg': want, 'loaded': got})
    allreg = {}
    for reg in groups.values():
        allreg.update(reg)

    # ------------------------------------------------------------------ A. grammar vs model
    texts = []

    class FakeAst:
        def literal_eval(self, text):
            texts.append(text)
            import ast
            return ast.literal_eval(text)
    rec = []
    fake_constructors = {}
    for nm in list(allreg) + ['abc', 'a.b_c9', 'X']:
        fake_constructors[nm] = (lambda nm: (lambda *a: rec.append((nm, a)) or ('INST', nm, a)))(nm)
    pt = qc._ConstructorParamType(fake_constructors)
    names = list(fake_constructors) + ['nosuch', 'toric.', '.', '9', 'a b', 'a-b', '', 'tor(ic', 'é']
    argtexts = ['', ' ', '3,3', '3, 3', ' 3 , 3 ', '3,3,', '3,3 ,', '3,3, ', ',', ',,', '(1,2),0.5', "'a'", '"x y"', "'a,b',",
                '[1,2]', '{1:2}', 'None', 'True', '-1', '1e3', '0x10', "'(',", "')'", '__import__("os")', '1+1', 'open("x","w")',
                'lambda:0', 'chi=3', '3 3', '3,\n3', '\n3', '3\n', '3\t,\t4', '(', ')', '((', '1)(2', "' '", ' , ', '\x1c3']
    specs = []
    for nm in names:
        specs.append(nm)
        for a in rng.sample(argtexts, ctx.pick(12, len(argtexts))):
            for form in ('%s(%s)', '%s( %s )', '%s(%s', '%s%s)', ' %s(%s)', '%s(%s) ', '%s (%s)'):
                if form != '%s(%s)' and rng.random() < 0.8:
                    continue
                specs.append(form % (nm, a))
    for _ in range(ctx.pick(300, 3000)):
        alphabet = 'ab.Z_9(), \t\n\'"3-x['
        specs.append(''.join(rng.choice(alphabet) for _ in range(rng.randint(0, 9))))
    specs = [s for s in dict.fromkeys(specs)]
    saved_ast = qc.ast
    qc.ast = FakeAst()
    req, exp = [], []
    try:
        for s in specs:
            del texts[:]
            del rec[:]
            try:
                r = pt.convert(s, None, None)
                cls = 'built'
            except click.BadParameter as e:
                m = str(e.message)
                cls = ('format' if 'format as name(<args>)' in m else 'name' if '(choose from' in m else
                       'args' if 'failed to parse arguments' in m else 'construct' if 'failed to construct' in m else 'other')
            except Exception as e:  # noqa
                cls = 'EXC ' + exc_class(e)
            ascii_ok = all(ord(c) < 128 for c in s)
            if not ascii_ok:
                ctx.count(s, False, 'spec-nonascii')
                if cls.startswith('EXC'):
                    ctx.violation('convert-exception', 'convert raised a non-usage exception', {'spec': s, 'got': cls})
                continue
            # canonical implementation view: matched? name? raw args text handed to literal_eval?
            if cls == 'format':
                impl = 'nomatch'
            else:
                impl_args = texts[0][:-1] if texts else None
                impl = 'match evaltext=%s' % ('_' if impl_args is None else codes(impl_args))
            req.append('parse ' + codes(s))
            exp.append((s, cls, impl))
            ctx.count(s, '(' in s and cls in ('built', 'args', 'construct'), 'spec-' + cls,
                      {'spec': s, 'class': cls} if len(ctx.samples) < 4 and '(' in s else None)
            if cls.startswith('EXC') or cls == 'other':
                ctx.violation('convert-exception', 'convert raised something other than a usage error', {'spec': s, 'got': cls})
            if cls == 'built' and texts and texts[0][-1:] != ',':
                ctx.violation('literal-eval-text', 'argument text evaluated without the forced tuple comma', {'spec': s})
    finally:
        qc.ast = saved_ast
    out = ctx.model('c19', req)
    for (s, cls, impl), m in zip(exp, out):
        if m == 'nomatch':
            mm = 'nomatch'
            mname = None
        else:
            nm_t, a_t = m.split(' ')
            mname = uncodes(nm_t[5:])
            a = a_t[5:]
            mm = 'match evaltext=%s' % ('_' if a in ('_', '-') else a)
        if cls in ('name',):
            # unknown name: no literal evaluation happens; compare only matched-ness and the name
            ctx.cmp('convert(match)', s, 'match', mm.split(' ')[0])
            if mname is not None and mname in fake_constructors:
                ctx.cmp('convert(name lookup)', s, 'unknown', 'known:' + mname)
        else:
            ctx.cmp('convert(grammar)', s, impl, mm)
            if mname is not None and mname not in fake_constructors and cls != 'format':
                ctx.cmp('convert(name lookup)', s, cls, 'name')

    # ------------------------------------------------------------------ B. constructors == API constructors
    from qecsim.models.generic import CenterSliceErrorModel  # noqa
    fpath = os.path.join(tmp, 'errors.jsonl')
    from qecsim import paulitools as pt_
    import numpy as np
    with open(fpath, 'w') as f:
        f.write(json.dumps({'label': 'F', 'probability': 0.25,
                            'probability_distribution': [0.75, 0.25, 0, 0]}) + '\n')
        for _ in range(40):
            f.write(json.dumps(list(pt_.pack(np.array([rng.randint(0, 1) for _ in range(10)])))) + '\n')
    table = [
        ('color666', '3', (3,)), ('color666', ' 5 ,', (5,)), ('five_qubit', None, ()), ('five_qubit', '', ()),
        ('planar', '3,3', (3, 3)), ('planar', '2, 4', (2, 4)), ('rotated_planar', '3,3', (3, 3)),
        ('rotated_planar', '4 , 5 ,', (4, 5)), ('rotated_toric', '2,2', (2, 2)), ('rotated_toric', '4,6', (4, 6)),
        ('steane', None, ()), ('toric', '3,3', (3, 3)), ('toric', '2,5', (2, 5)),
        ('generic.biased_depolarizing', '10', (10,)), ('generic.biased_depolarizing', "0.5, 'X'", (0.5, 'X')),
        ('generic.biased_depolarizing', '100,"Z"', (100, 'Z')), ('generic.biased_y_x', '10', (10,)),
        ('generic.bit_flip', None, ()), ('generic.bit_phase_flip', '', ()), ('generic.phase_flip', ' ', ()),
        ('generic.center_slice', '(0.2, 0.8, 0), 0.5', ((0.2, 0.8, 0), 0.5)),
        ('generic.center_slice', '(1,0,0),-1', ((1, 0, 0), -1)), ('generic.depolarizing', None, ()),
        ('generic.file', repr(fpath), (fpath,)), ('generic.file', '%r, 3' % fpath, (fpath, 3)),
        ('color666.mps', None, ()), ('color666.mps', '8', (8,)), ('color666.mps', 'None, 1e-8', (None, 1e-8)),
        ('generic.naive', None, ()), ('generic.naive', '5', (5,)), ('planar.cmwpm', None, ()),
        ('planar.cmwpm', "2, 3, 'r', 1", (2, 3, 'r', 1)), ('planar.mps', None, ()), ('planar.mps', '6', (6,)),
        ('planar.mps', "6, 'a', 0.5, 1e-9", (6, 'a', 0.5, 1e-9)), ('planar.mwpm', None, ()), ('planar.rmps', "4,'r'", (4, 'r')),
        ('planar.y', None, ()), ('rotated_planar.mps', "None, 'a'", (None, 'a')), ('rotated_planar.rmps', '8', (8,)),
        ('rotated_planar.smwpm', None, ()), ('rotated_planar.smwpm', '10', (10,)), ('rotated_toric.smwpm', None, ()),
        ('rotated_toric.smwpm', 'True, 0.5', (True, 0.5)), ('toric.mwpm', None, ()),
    ]
    real = qc._ConstructorParamType(allreg)
    seen_names = set()
    for name, args, pyargs in table:
        for spec in ([name] if args is None else ['%s(%s)' % (name, args), '%s( %s )' % (name, args)]):
            try:
                inst = real.convert(spec, None, None)
                got = (type(inst).__name__, repr(inst))
            except Exception as e:  # noqa
                got = ('ERR', exc_class(e) + ':' + str(getattr(e, 'message', e))[:80])
            api = allreg[name](*pyargs)
            want = (type(api).__name__, repr(api))
            seen_names.add(name)
            ctx.count(('ctor', spec), args is not None, 'constructor', {'spec': spec, 'repr': got[1]} if len(ctx.samples) < 6 else None)
            if got != want or (got[0] != 'ERR' and hasattr(inst, 'label') and inst.label != api.label):
                ctx.violation('constructor-differs', 'CLI builds a different model than the API constructor',
                              {'spec': spec, 'cli': got, 'api': want})
    missing = set(allreg) - seen_names
    if missing:
        ctx.violation('registry-coverage', 'registered names without a constructor case in the check', {'names': sorted(missing)})
    # constructor failures are usage errors
    for spec in ['planar(1,1)', 'planar(3)', "planar('a','b')", 'rotated_toric(3,3)', 'color666(4)', 'generic.center_slice(1,2)',
                 'generic.biased_depolarizing(-1)', 'toric(3,3,3)', 'generic.file("/nonexistent/x")', 'planar.mps("x")' if False else 'color666(2)']:
        try:
            real.convert(spec, None, None)
            got = 'built'
        except click.BadParameter:
            got = 'usage'
        except Exception as e:  # noqa
            got = 'EXC ' + exc_class(e)
        ctx.count(('ctor-bad', spec), True, 'constructor-rejects')
        if got != 'usage':
            ctx.violation('constructor-error-class', 'invalid constructor arguments do not end in a usage error',
                          {'spec': spec, 'got': got})

    # ------------------------------------------------------------------ C. run / run-ftp / merge == API
    from click.testing import CliRunner
    runner = CliRunner()
    # malformed-specification stream decided by grammar model + literal grammar + API constructor (c19_spec)
    spec_procs = c19_spec.spec_stream(ctx, rng, qc, click, runner, groups, allreg, table)
    # integer option values at the edge of exact representation, CLI == API for the denoted integer (c19_spec)
    edge_procs = c19_spec.option_edges(ctx, rng, qc, app, runner, lambda t: real.convert(t, None, None))
    cases = []
    run_specs = [('five_qubit', 'generic.depolarizing', 'generic.naive'), ('steane', 'generic.phase_flip', 'generic.naive'),
                 ('planar(3,3)', 'generic.bit_flip', 'planar.mwpm'), ('toric(3,3)', 'generic.bit_flip', 'toric.mwpm'),
                 ('planar(3,3)', "generic.biased_depolarizing(10,'Z')", 'planar.mps(4)'),
                 ('rotated_planar(3,3)', 'generic.bit_phase_flip', 'rotated_planar.smwpm'),
                 ('color666(3)', 'generic.bit_flip', 'color666.mps(4)'), ('planar(2,3)', 'generic.biased_y_x(3)', 'planar.rmps(4)'),
                 ('rotated_toric(2,2)', 'generic.center_slice((0.2,0.8,0),0.5)', 'rotated_toric.smwpm'),
                 ('five_qubit', 'generic.file(%r)' % fpath, 'generic.naive')]
    for (c, e, d) in run_specs:
        for _ in range(ctx.pick(2, 6)):
            opts = {}
            if rng.random() < 0.7:
                opts['-r'] = rng.randint(1, 6)
            if rng.random() < 0.4:
                opts['-f'] = rng.randint(1, 3)
                opts.setdefault('-r', rng.randint(1, 6))   # a failure limit alone need not terminate
            opts['-s'] = rng.randint(0, 50)
            ps = [0.25] if 'generic.file' in e else [rng.choice([0.0, 0.05, 0.1, 0.3] + ([] if 'smwpm' in d else [1.0]))
                                                    for _ in range(rng.randint(1, 3))]
            cases.append(('run', c, None, e, d, ps, opts))
    for (c, e, d) in [('rotated_planar(3,3)', 'generic.bit_phase_flip', 'rotated_planar.smwpm'),
                      ('rotated_toric(2,4)', 'generic.depolarizing', 'rotated_toric.smwpm'),
                      ('rotated_planar(3,4)', "generic.biased_depolarizing(5,'Y')", 'rotated_planar.smwpm(5)')]:
        for _ in range(ctx.pick(2, 6)):
            opts = {'-r': rng.randint(1, 4), '-s': rng.randint(0, 50)}
            if rng.random() < 0.5:
                opts['-m'] = rng.choice([0.0, 0.05, 0.2, 1.0])
            if rng.random() < 0.3:
                opts['-f'] = rng.randint(1, 2)
            cases.append(('run-ftp', c, rng.randint(1, 4), e, d, [rng.choice([0.0, 0.05, 0.2]) for _ in range(rng.randint(1, 2))], opts))

    def build(name_spec):
        return real.convert(name_spec, None, None)
    outputs = []
    for (cmd, c, T, e, d, ps, opts) in cases:
        args = [cmd]
        for k, v in opts.items():
            args.append('%s%s' % (k, v))
        args += [c] + ([str(T)] if T is not None else []) + [e, d] + [repr(p) for p in ps]
        res = runner.invoke(qc.cli, args)
        kw = {'max_runs': opts.get('-r'), 'max_failures': opts.get('-f'), 'random_seed': opts.get('-s')}
        api_rows = []
        for p in ps:
            if cmd == 'run':
                api_rows.append(app.run(build(c), build(e), build(d), p, **kw))
            else:
                api_rows.append(app.run_ftp(build(c), T, build(e), build(d), p, opts.get('-m'), **kw))
        want = strip_wall(json.loads(json.dumps(api_rows)))
        try:
            lines = [l for l in res.output.split('\n') if l.startswith('[')]
            got = strip_wall(json.loads(lines[-1]))
        except Exception:
            got = 'exit=%s output=%s' % (res.exit_code, res.output[-300:])
        ctx.count(('cli', ' '.join(args)), True, 'cli-' + cmd, {'args': args} if len(ctx.samples) < 8 else None)
        if res.exit_code != 0 or got != want:
            ctx.violation('cli-vs-api', 'CLI %s output differs field-for-field from the API result' % cmd,
                          {'args': args, 'exit': res.exit_code, 'cli': got, 'api': want})
        else:
            outputs.append(json.loads(lines[-1]))
    # merge through the CLI == app.merge; CLI outputs merge back losslessly
    files = []
    for i, rows in enumerate(outputs):
        fp = os.path.join(tmp, 'out%d.json' % i)
        json.dump(rows, open(fp, 'w'))
        files.append(fp)
    for _ in range(ctx.pick(6, 30)):
        sel = rng.sample(files, rng.randint(1, min(5, len(files)))) if files else []
        if not sel:
            break
        res = runner.invoke(qc.cli, ['merge'] + sel)
        want = json.loads(json.dumps(app.merge(*[json.load(open(f)) for f in sel])))
        try:
            got = json.loads([l for l in res.output.split('\n') if l.startswith('[')][-1])
        except Exception:
            got = 'exit=%s output=%s' % (res.exit_code, res.output[-300:])
        ctx.count(('merge', tuple(sel)), True, 'cli-merge')
        if res.exit_code != 0 or got != want:
            ctx.violation('cli-merge-vs-api', 'CLI merge differs from app.merge', {'files': sel, 'cli': got, 'api': want})
        n_in = sum(r['n_run'] for f in sel for r in json.load(open(f)))
        if isinstance(got, list) and sum(r['n_run'] for r in got) != n_in:
            ctx.violation('cli-merge-lossy', 'merged CLI outputs do not conserve n_run', {'files': sel})
    # histories of merges: merge outputs fed back into merge, legacy-format files, malformed files (c19_extra)
    c19_extra.merge_histories(ctx, tmp, rng, qc, app, runner, files, run_cli)

    # ------------------------------------------------------------------ D/E. real subprocesses
    jobs = []
    base = ['run', '-r2', '-s7', 'five_qubit', 'generic.depolarizing', 'generic.naive', '0.1']
    jobs.append(('stdout', base, None))
    jobs.append(('newfile', base[:1] + ['-onew.json'] + base[1:], 'new.json'))
    jobs.append(('existing', base[:1] + ['-oexisting.json'] + base[1:], 'existing.json'))
    jobs.append(('missingdir', base[:1] + ['-onodir/x.json'] + base[1:], 'nodir/x.json'))
    jobs.append(('existing-ftp', ['run-ftp', '-r1', '-s3', '-oexisting2.json', 'rotated_planar(3,3)', '2', 'generic.bit_phase_flip',
                                  'rotated_planar.smwpm', '0.1'], 'existing2.json'))
    jobs.append(('merge-existing', ['merge', '-oexisting3.json', 'in1.json'], 'existing3.json'))
    jobs.append(('merge-new', ['merge', '-omerged.json', 'in1.json', 'in1.json'], 'merged.json'))
    sentinel = os.path.join(tmp, 'SENTINEL')
    evil = ['planar(__import__("os").system("touch %s"))' % sentinel, 'planar(open(%r,"w"))' % sentinel,
            'planar(3,3) or open(%r,"w")' % sentinel, 'planar((lambda: open(%r,"w"))())' % sentinel,
            'planar(exec("open(%r,\'w\')"))' % sentinel]
    bad = [(['run', '-r0'] + base[3:], 'r0'), (['run', '-s-1'] + base[3:], 's-1'), (['run', '-f0'] + base[3:], 'f0'),
           (['run', 'five_qubit', 'generic.depolarizing', 'generic.naive', '1.5'], 'p>1'),
           (['run', 'five_qubit', 'generic.depolarizing', 'generic.naive', '--', '-0.1'], 'p<0'),
           (['run', 'five_qubit', 'generic.depolarizing', 'generic.naive', 'nan'], 'p=nan'),
           (['run', 'five_qubit', 'generic.depolarizing', 'generic.naive', 'abc'], 'p=abc'),
           (['run', 'five_qubit', 'generic.depolarizing', 'generic.naive'], 'no-p'),
           (['run', 'nosuch', 'generic.depolarizing', 'generic.naive', '0.1'], 'unknown-code'),
           (['run', 'planar(3,3', 'generic.depolarizing', 'planar.mwpm', '0.1'], 'unbalanced'),
           (['run', 'planar(1,1)', 'generic.depolarizing', 'planar.mwpm', '0.1'], 'too-small'),
           (['run', 'planar(3)', 'generic.depolarizing', 'planar.mwpm', '0.1'], 'arity'),
           (['run-ftp', 'rotated_planar(3,3)', '0', 'generic.bit_flip', 'rotated_planar.smwpm', '0.1'], 'T=0'),
           (['run-ftp', '-m1.5', 'rotated_planar(3,3)', '2', 'generic.bit_flip', 'rotated_planar.smwpm', '0.1'], 'm>1'),
           (['run-ftp', 'planar(3,3)', '2', 'generic.bit_flip', 'rotated_planar.smwpm', '0.1'], 'ftp-unregistered-code'),
           (['merge', 'nonexistent.json'], 'merge-missing-file')]
    for ev in evil:
        bad.append((['run', ev, 'generic.depolarizing', 'planar.mwpm', '0.1'], 'code-like'))
    bad += spec_procs
    json.dump(outputs[0] if outputs else [], open(os.path.join(tmp, 'in1.json'), 'w'))
    for nm in ('existing.json', 'existing2.json', 'existing3.json'):
        open(os.path.join(tmp, nm), 'w').write('PRECIOUS ' + nm)

    def sha(p):
        return hashlib.sha1(open(p, 'rb').read()).hexdigest() if os.path.exists(p) else None
    before = {f: sha(os.path.join(tmp, f)) for _, _, f in jobs if f}
    with ThreadPoolExecutor(max_workers=16) as ex:
        jres = list(ex.map(lambda j: run_cli(j[1], tmp), jobs))
        bres = list(ex.map(lambda b: run_cli(b[0], tmp), bad))
        eres = list(ex.map(lambda b: run_cli(b[0], tmp), edge_procs))
    mreq, mexp = [], []
    for (kind, args, fname), (rc, so, se) in zip(jobs, jres):
        ctx.count(('proc', kind), fname is not None, 'output-' + kind, {'kind': kind, 'args': args, 'exit': rc})
        existed = before.get(fname) is not None if fname else False
        dir_ok = fname is None or os.path.isdir(os.path.dirname(os.path.join(tmp, fname)))
        after = sha(os.path.join(tmp, fname)) if fname else None
        state = 'none' if after is None else ('old' if after == before.get(fname) else 'new')
        has_json_out = any(l.startswith('[') for l in so.split('\n'))
        has_recovered = 'recovered data' in se and '[{' in se
        impl = 'file=%s stdout=%d errlog=%d exit=%d' % (state, 1 if has_json_out else 0, 1 if has_recovered else 0,
                                                      0 if rc == 0 else 1)
        mreq.append('write %d %d %s' % (1 if existed else 0, 1 if dir_ok else 0, '-' if fname is None else 'f'))
        mexp.append((kind, args, impl, rc, se))
        rep = {'kind': kind, 'args': args, 'exit': rc, 'stderr': se[-400:], 'file_state': state}
        if 'Traceback' in se:
            ctx.violation('traceback', 'CLI printed a traceback', rep)
        if existed and state != 'old':
            ctx.violation('existing-overwritten', 'existing output file was modified', rep)
        if (existed or not dir_ok) and (rc == 0 or not has_recovered):
            ctx.violation('result-dropped', 'output could not be created but results not on the error log / exit status zero', rep)
        if fname and not existed and dir_ok:
            try:
                rows = json.load(open(os.path.join(tmp, fname)))
                assert isinstance(rows, list) and rc == 0
            except Exception:
                ctx.violation('new-file', 'new output file does not hold the JSON results', rep)
    mout = ctx.model('c19', mreq)
    for (kind, args, impl, rc, se), m in zip(mexp, mout):
        ctx.cmp('write_data(' + kind + ')', ' '.join(args), impl, m)
    for (args, kind), (rc, so, se) in zip(bad, bres):
        ctx.count(('bad', kind, args[1] if len(args) > 1 else ''), True, 'malformed-' + kind)
        rep = {'kind': kind, 'args': args, 'exit': rc, 'stderr': se[-400:], 'stdout': so[-200:]}
        if rc != 2 or 'Usage:' not in se or 'Traceback' in se:
            ctx.violation('usage-error', 'malformed arguments do not end in a usage error (exit 2, Usage:, no traceback)', rep)
        if any(l.startswith('[{') for l in so.split('\n')):
            ctx.violation('simulated-invalid', 'a simulation ran with invalid parameters', rep)
    for (args, want), (rc, so, se) in zip(edge_procs, eres):
        ctx.count(('proc-edge', tuple(args)), True, 'cli-proc-option-edge')
        try:
            got = strip_wall(json.loads([l for l in so.split('\n') if l.startswith('[')][-1]))
        except Exception:  # noqa
            got = 'exit=%s stderr=%s' % (rc, se[-300:])
        if rc != 0 or got != want:
            ctx.violation('cli-vs-api', 'CLI process output differs field-for-field from the API result for the same '
                          'option values', {'args': args, 'exit': rc, 'cli': got, 'api': want})
    if os.path.exists(sentinel):
        ctx.violation('code-evaluated', 'argument text was evaluated as code (sentinel file created)', {'specs': evil})


def replay(path):
    print(json.dumps(json.load(open(path)), indent=1, default=str))
    return 0
