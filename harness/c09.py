"""C09 — Pauli primitives agree with the Pauli group.
Correspondence of every public paulitools function with the extracted Core model, plus the
property's right-hand sides evaluated directly on the implementation."""
import itertools
import json

import numpy as np

from harness.common import bitstr, rowsstr, exc_class, coq_bits, coq_list
from harness import c09_extra

LET = 'IXYZ'


def anti_truth(s, t):
    """independent ground truth: parity of positions with two distinct non-identity letters"""
    return sum(1 for a, b in zip(s, t) if a != 'I' and b != 'I' and a != b) % 2


def rand_pauli(rng, n, kind):
    if kind == 0:
        return ''.join(rng.choice(LET) for _ in range(n))
    if kind == 1:  # sparse
        return ''.join(rng.choice('IIIIIIXYZ') for _ in range(n))
    return ''.join(rng.choice('XYZ') for _ in range(n))


def nontrivial(s):
    return 'Y' in s and len(set(s)) >= 2


def run(ctx):
    from qecsim import paulitools as pt
    rng = ctx.rng
    ctx.rule = ('exhaustive over all Pauli strings/pairs for n<=%d, random to n=%d; ipauli whole sequences for all '
                '(n,lo,hi) n<=%d; pack/unpack every length 0..130 and random longer; malformed stream counted '
                'separately. Usage patterns: ipauli/ibsf for all (n,lo,hi) n<=%d consumed streamed / collected before '
                'use / two live iterators interleaved / abandoned and restarted / yielded arrays overwritten by the '
                'consumer; %d random call histories over every public function (call, overwrite result in place, '
                'call again with equal fresh arguments, overwrite arguments in place, call again with the same '
                'objects, look again at results kept across later calls), every answer compared with the model. '
                'nontrivial = distinct input containing Y and at least two distinct letters'
                % (ctx.pick(3, 4), ctx.pick(120, 300), ctx.pick(5, 6), ctx.pick(5, 6), ctx.pick(8000, 80000)))
    ctx.props_obligations()

    req, exp = [], []  # model requests and implementation answers (canonical)

    def add(fn, line, impl, inp):
        req.append(line)
        exp.append((fn, inp, impl))

    def impl_call(f, *a):
        try:
            return f(*a)
        except Exception as e:  # noqa
            return 'ERR ' + exc_class(e)

    # ---- 1. singles: conversion, weights -------------------------------------------------
    nmax = ctx.pick(3, 4)
    strings = []
    for n in range(0, nmax + 1):
        strings += [''.join(p) for p in itertools.product(LET, repeat=n)]
    rand_n = ctx.pick(120, 300)
    for _ in range(ctx.pick(400, 4000)):
        strings.append(rand_pauli(rng, rng.randint(5, rand_n), rng.randrange(3)))
    for s in strings:
        if s == '':
            continue  # np.hsplit of an empty array is outside the documented domain
        b = pt.pauli_to_bsf(s)
        bs = bitstr(b)
        add('pauli_to_bsf', 'to_bsf ' + s, bs, s)
        back = pt.bsf_to_pauli(b)
        add('bsf_to_pauli', 'of_bsf ' + bs, back, bs)
        add('pauli_wt', 'pauli_wt ' + s, str(int(pt.pauli_wt(s))), s)
        w = pt.bsf_wt(b)
        add('bsf_wt', 'bsf_wt ' + bs, str(int(w)), bs)
        ctx.count(s, nontrivial(s), 'single', {'pauli': s, 'bsf': bs} if len(s) == 5 else None)
        # direct property evaluation on the implementation
        if back != s:
            ctx.violation('roundtrip', 'bsf_to_pauli(pauli_to_bsf(s)) != s', {'pauli': s, 'got': back})
        if not (b.ndim == 1 and len(b) == 2 * len(s) and set(np.unique(b)) <= {0, 1}):
            ctx.violation('bsf-shape', 'pauli_to_bsf result is not a binary vector of length 2n', {'pauli': s})
        for i, ch in enumerate(s):
            if (int(b[i]), int(b[len(s) + i])) != {'I': (0, 0), 'X': (1, 0), 'Z': (0, 1), 'Y': (1, 1)}[ch]:
                ctx.violation('bsf-columns', 'X/Z columns wrong', {'pauli': s, 'bsf': bs})
                break
        truew = sum(1 for ch in s if ch != 'I')
        if int(w) != truew or int(pt.pauli_wt(s)) != truew:
            ctx.violation('weight', 'weight != number of non-identity factors', {'pauli': s, 'bsf_wt': int(w)})
    # bsf -> pauli -> bsf on arbitrary binary vectors of even length
    for _ in range(ctx.pick(300, 3000)):
        n = rng.randint(1, 40)
        b = np.array([rng.randint(0, 1) for _ in range(2 * n)])
        s = pt.bsf_to_pauli(b)
        add('bsf_to_pauli', 'of_bsf ' + bitstr(b), s, bitstr(b))
        if not np.array_equal(pt.pauli_to_bsf(s), b):
            ctx.violation('roundtrip-bsf', 'pauli_to_bsf(bsf_to_pauli(b)) != b', {'bsf': bitstr(b)})
        ctx.count(bitstr(b), nontrivial(s), 'single-bsf')

    # ---- 2. pairs: bsp vs commutation, symmetry, bilinearity ----------------------------
    pair_n = ctx.pick(3, 4)
    pairs = []
    for n in range(1, pair_n + 1):
        ss = [''.join(p) for p in itertools.product(LET, repeat=n)]
        if n == 4 and ctx.quick:
            continue
        pairs += [(a, b) for a in ss for b in ss]
    for _ in range(ctx.pick(1500, 20000)):
        n = rng.randint(5, rand_n)
        k = rng.randrange(3)
        pairs.append((rand_pauli(rng, n, k), rand_pauli(rng, n, rng.randrange(3))))
    cache = {}

    def tb(s):
        if s not in cache:
            cache[s] = pt.pauli_to_bsf(s)
        return cache[s]
    for (s, t) in pairs:
        a, b = tb(s), tb(t)
        v = pt.bsp(a, b)
        add('bsp', 'bsp %s %s' % (bitstr(a), bitstr(b)), str(int(v)), (s, t))
        ctx.count((s, t), nontrivial(s) and nontrivial(t) and s != t, 'pair',
                  {'a': s, 'b': t, 'bsp': int(v)} if len(s) == 6 else None)
        if int(v) != anti_truth(s, t):
            ctx.violation('bsp-commutation', 'bsp != anticommutation parity', {'a': s, 'b': t, 'bsp': int(v)})
        if int(pt.bsp(b, a)) != int(v):
            ctx.violation('bsp-symmetry', 'bsp(a,b) != bsp(b,a)', {'a': s, 'b': t})
    for _ in range(ctx.pick(500, 5000)):
        n = rng.randint(1, 30)
        a, b, c = (np.array([rng.randint(0, 1) for _ in range(2 * n)]) for _ in range(3))
        if int(pt.bsp(a ^ b, c)) != (int(pt.bsp(a, c)) ^ int(pt.bsp(b, c))) or \
                int(pt.bsp(c, a ^ b)) != (int(pt.bsp(c, a)) ^ int(pt.bsp(c, b))):
            ctx.violation('bsp-bilinear', 'bsp not bilinear', {'a': bitstr(a), 'b': bitstr(b), 'c': bitstr(c)})
        ctx.count(None, False, 'triple')

    # ---- 3. matrix shapes ----------------------------------------------------------------
    for _ in range(ctx.pick(600, 6000)):
        n = rng.randint(1, 12)
        ra, rb = rng.randint(1, 4), rng.randint(1, 4)
        A = np.array([[rng.randint(0, 1) for _ in range(2 * n)] for _ in range(ra)])
        B = np.array([[rng.randint(0, 1) for _ in range(2 * n)] for _ in range(rb)])
        mm = pt.bsp(A, B.T)
        add('bsp(mat,mat)', 'bsp_mm %s %s %d' % (rowsstr(A), rowsstr(B.T), rb), rowsstr(mm), None)
        vm = pt.bsp(A[0], B.T)
        add('bsp(vec,mat)', 'bsp_vm %s %s %d' % (bitstr(A[0]), rowsstr(B.T), rb), bitstr(vm), None)
        mv = pt.bsp(A, B[0])
        add('bsp(mat,vec)', 'bsp_mv %s %s' % (rowsstr(A), bitstr(B[0])), bitstr(mv), None)
        for i in range(ra):
            for j in range(rb):
                e = int(pt.bsp(A[i], B[j]))
                if int(mm[i][j]) != e or (i == 0 and int(vm[j]) != e) or (j == 0 and int(mv[i]) != e):
                    ctx.violation('bsp-shapes', 'matrix forms disagree with vector form',
                                  {'A': rowsstr(A), 'B': rowsstr(B), 'i': i, 'j': j})
        ss = pt.bsf_to_pauli(A)
        add('bsf_to_pauli(2d)', 'of_bsf_list ' + rowsstr(A), ','.join(ss), None)
        add('pauli_to_bsf(list)', 'to_bsf_list ' + ','.join(ss), rowsstr(pt.pauli_to_bsf(ss)), None)
        add('pauli_wt(list)', 'pauli_wt_list ' + ','.join(ss), str(int(pt.pauli_wt(ss))), None)
        add('bsf_wt(2d)', 'bsf_wt_rows ' + rowsstr(A), str(int(pt.bsf_wt(A))), None)
        if not np.array_equal(pt.pauli_to_bsf(ss), A):
            ctx.violation('roundtrip-list', 'list round trip fails', {'A': rowsstr(A)})
        if int(pt.bsf_wt(A)) != sum(sum(1 for ch in s if ch != 'I') for s in ss):
            ctx.violation('weight-2d', '2d weight is not the sum of the row weights', {'A': rowsstr(A)})
        ctx.count(rowsstr(A) + '|' + rowsstr(B), any(nontrivial(s) for s in ss) and ra > 1 and rb > 1, 'matrix',
                  {'A': rowsstr(A), 'B': rowsstr(B)} if n == 3 else None)

    # ---- 4. ipauli / ibsf ----------------------------------------------------------------
    imax = ctx.pick(5, 6)
    for n in range(0, imax + 1):
        for lo in range(0, n + 1):
            for hi in range(lo, n + 1):
                if n == 0:
                    continue
                seq = list(pt.ipauli(n, lo, hi))
                add('ipauli', 'ipauli %d %d %d' % (n, lo, hi), ','.join(seq) if seq else '-', (n, lo, hi))
                ctx.count(('ipauli', n, lo, hi), n >= 2 and hi >= 1, 'ipauli',
                          {'ipauli': [n, lo, hi], 'first': seq[:4], 'len': len(seq)} if (n, lo, hi) == (3, 1, 2) else None)
                ws = [sum(1 for ch in s if ch != 'I') for s in seq]
                truth = set(''.join(p) for p in itertools.product(LET, repeat=n)
                            if lo <= sum(1 for ch in p if ch != 'I') <= hi)
                if len(seq) != len(set(seq)):
                    ctx.violation('ipauli-dup', 'ipauli yields a duplicate', {'n': n, 'lo': lo, 'hi': hi})
                if set(seq) != truth:
                    ctx.violation('ipauli-complete', 'ipauli does not yield exactly the Paulis in the weight range',
                                  {'n': n, 'lo': lo, 'hi': hi, 'missing': sorted(truth - set(seq))[:5],
                                   'extra': sorted(set(seq) - truth)[:5]})
                if ws != sorted(ws):
                    ctx.violation('ipauli-order', 'ipauli weights decrease', {'n': n, 'lo': lo, 'hi': hi})
                if n <= 4:
                    bseq = [bitstr(b) for b in pt.ibsf(n, lo, hi)]
                    add('ibsf', 'ibsf %d %d %d' % (n, lo, hi), ','.join(bseq) if bseq else '-', (n, lo, hi))
                    if bseq != [bitstr(pt.pauli_to_bsf(s)) for s in seq]:
                        ctx.violation('ibsf', 'ibsf is not pauli_to_bsf of ipauli', {'n': n, 'lo': lo, 'hi': hi})
    # default arguments and prefixes on larger n
    for n in range(1, ctx.pick(9, 13)):
        it = pt.ipauli(n)
        pre = list(itertools.islice(it, 300))
        full = ctx.model('c09', ['ipauli %d 0 %d' % (n, min(n, 2))])[0].split(',')
        ctx.cmp('ipauli(default,prefix)', n, pre[:min(len(pre), len(full))], full[:min(len(pre), len(full))])
        ctx.count(('ipauli-prefix', n), True, 'ipauli-prefix')
        import math
        for w in range(0, (n if n <= 8 else 3) + 1):
            cnt = sum(1 for _ in pt.ipauli(n, w, w))
            if cnt != math.comb(n, w) * 3 ** w:
                ctx.violation('ipauli-count', 'wrong number of weight-w Paulis', {'n': n, 'w': w, 'count': cnt})

    # ---- 5. pack / unpack ------------------------------------------------------------------
    lens = list(range(0, 131)) + [rng.randint(131, ctx.pick(1500, 5000)) for _ in range(ctx.pick(40, 300))]
    kcases = []
    for L in lens:
        for rep in range(2 if L <= 130 else 1):
            v = np.array([rng.randint(0, 1) for _ in range(L)], dtype=int)
            if L and rep == 1:
                v[:] = 0
                v[rng.randrange(L)] = 1
            h, ln = pt.pack(v)
            add('pack', 'pack ' + bitstr(v), '%s %d' % (h if h else '-', ln), bitstr(v))
            u = pt.unpack((h, ln))
            add('unpack', 'unpack %s %d' % (h if h else '-', ln), bitstr(u), (h, ln))
            ctx.count(('pack', bitstr(v)), L % 8 != 0 and v.any(), 'pack',
                      {'bits': bitstr(v), 'packed': [h, ln]} if L == 11 else None)
            if not (np.array_equal(u, v) and len(u) == L):
                ctx.violation('pack-roundtrip', 'unpack(pack(v)) != v', {'bits': bitstr(v), 'packed': [h, ln]})
            if ln != L or len(h) != 2 * ((L + 7) // 8):
                ctx.violation('pack-shape', 'packed length fields wrong', {'bits': bitstr(v), 'packed': [h, ln]})
            if L <= 130 and rep == 0:
                kcases.append((v.tolist(), h, ln))
    # injectivity on same-length near misses
    for _ in range(ctx.pick(200, 2000)):
        L = rng.randint(1, 100)
        v = np.array([rng.randint(0, 1) for _ in range(L)], dtype=int)
        w = v.copy()
        w[rng.randrange(L)] ^= 1
        if pt.pack(v) == pt.pack(w):
            ctx.violation('pack-injective', 'two different arrays pack alike', {'v': bitstr(v), 'w': bitstr(w)})
        ctx.count(None, False, 'pack-inj')

    # ---- 6. malformed stream ---------------------------------------------------------------
    for bad in ([0, 2], [1, -1, 0, 0], [3, 0]):
        r = impl_call(pt.bsf_to_pauli, np.array(bad))
        ctx.count(None, False, 'malformed')
        if r != 'ERR AssertionError':
            ctx.violation('malformed-bsf', 'non-binary bsf accepted by bsf_to_pauli', {'bsf': bad, 'got': str(r)})
        r = impl_call(pt.pack, np.array(bad))
        if r != 'ERR AssertionError':
            ctx.violation('malformed-pack', 'non-binary array accepted by pack', {'arr': bad, 'got': str(r)})
    r = impl_call(lambda: list(pt.ipauli(3, 2, 1)))
    if r != 'ERR AssertionError':
        ctx.violation('malformed-ipauli', 'ipauli accepts min_weight > max_weight', {'got': str(r)})
    r = impl_call(lambda: list(pt.ipauli(3, 0, 4)))
    if r != 'ERR AssertionError':
        ctx.violation('malformed-ipauli', 'ipauli accepts max_weight > n', {'got': str(r)})

    # ---- 7. usage patterns: iterator consumption and call histories (own model batches) -----
    c09_extra.run(ctx, pt)

    # ---- correspondence with the extracted model ------------------------------------------
    out = ctx.model('c09', req)
    for (fn, inp, impl), m, line in zip(exp, out, req):
        ctx.cmp(fn, line[:400], impl, m)

    # ---- in-kernel shard: a sample re-evaluated by vm_compute -------------------------------
    samp = [s for s in strings if 0 < len(s) <= 60][:: max(1, len(strings) // 150)][:150]
    items = []
    for s in samp:
        b = pt.pauli_to_bsf(s)
        ps = coq_list(['p' + ch for ch in s])
        items.append('(beqv (to_bsf %s) %s && (pauli_wt %s =? %d) && (bsf_wt %s =? %d))'
                     % (ps, coq_bits(b.tolist()), ps, int(pt.pauli_wt(s)), coq_bits(b.tolist()), int(pt.bsf_wt(b))))
    for (s, t) in pairs[:: max(1, len(pairs) // 150)][:150]:
        if len(s) > 60:
            continue
        items.append('(Bool.eqb (bsp %s %s) %s)' % (coq_bits(tb(s).tolist()), coq_bits(tb(t).tolist()),
                                                    'true' if int(pt.bsp(tb(s), tb(t))) else 'false'))
    hexmap = {c: '(%s,%s,%s,%s)' % tuple('true' if (int(c, 16) >> k) & 1 else 'false' for k in (3, 2, 1, 0))
              for c in '0123456789abcdef'}
    for (v, h, ln) in kcases[::3]:
        hs = coq_list([hexmap[c] for c in h])
        items.append('(match unpack (%s, %d) with Some u => beqv u %s | None => false end)' % (hs, ln, coq_bits(v)))
    text = ('From Coq Require Import List Bool Arith NArith.\nFrom QV Require Import Core.Bits Core.Pauli Core.Symp '
            'Core.Enum Core.Pack.\nImport ListNotations.\nOpen Scope bool_scope.\n'
            'Definition checks : list bool :=\n [' + ';\n  '.join(items) + '].\n'
            'Example corr : forallb (fun b => b) checks = true.\nProof. vm_compute. reflexivity. Qed.\n')
    ctx.kernel_cases('sample', text)
    ctx.extra['kernel_cases'] = len(items)


def replay(path):
    d = json.load(open(path))
    print(json.dumps(d, indent=1))
    return 0
