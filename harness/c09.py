"""C09 — Pauli primitives agree with the Pauli group.
Correspondence of every public paulitools function with the extracted Core model, plus the
property's right-hand sides evaluated directly on the implementation."""
import itertools
import json

import numpy as np

from harness.common import bitstr, rowsstr, exc_class, coq_bits, coq_list
from harness import c09_extra, c09_shapes, c09_dtypes
from harness.c09_shapes import guard, array_problem, int_problem, describe, any_fill, fill

LET = 'IXYZ'


def anti_truth(s, t):
    """independent ground truth: parity of positions with two distinct non-identity letters"""
    return sum(1 for a, b in zip(s, t) if a != 'I' and b != 'I' and a != b) % 2


def rand_pauli(rng, n, kind):
    if kind == 0:
        return ''.join(rng.choice(LET) for _ in range(n))
    if kind == 1:  # sparse
        return ''.join(rng.choice('IIIIIIXYZ') for _ in range(n))
    return ''.join(rng.choice('XYZ') for _ in range(n))


def nontrivial(s):
    return 'Y' in s and len(set(s)) >= 2


def run(ctx):
    from qecsim import paulitools as pt
    rng = ctx.rng
    ctx.rule = ('exhaustive over all Pauli strings/pairs for n<=%d, random to n=%d; ipauli whole sequences for all '
                '(n,lo,hi) n<=%d; pack/unpack every length 0..130 and random longer; malformed stream counted '
                'separately. Usage patterns: ipauli/ibsf for all (n,lo,hi) n<=%d consumed streamed / collected before '
                'use / two live iterators interleaved / abandoned and restarted / yielded arrays overwritten by the '
                'consumer; %d random call histories over every public function (call, overwrite result in place, '
                'call again with equal fresh arguments, overwrite arguments in place, call again with the same '
                'objects, look again at results kept across later calls), every answer compared with the model. '
                'Degenerate operands on either side of every bsp / weight / conversion sweep: all-identity vectors and '
                'stackings, stackings of 0, 1, 2, 3 operators, zero qubits, transposed-view / copied / Fortran-ordered '
                'right operands, int64/int32/uint8/int8 entries; exhaustive stackings of 1..2 operators for n<=2; shape '
                'and integer-ness of every answer compared with the shape-carrying model protocol as well as the values; '
                'each case evaluated on its own (an exception or a wrong shape is a finding for that case). '
                'Storage types int8..uint64 x the total a function may accumulate (number of Y / X / Z / non-identity '
                'factors of a vector and of a whole stacking, number of anticommuting positions of a pair, set bits of a '
                'packed array) driven to exactly limit-1, limit, limit+1 for the limits 128, 256 (every type, every '
                'shape: pure, scattered, one row, many short rows, few long rows), beyond them, and 32768, 65536 (%s), '
                'for bsf_wt, bsf_to_pauli, pauli_to_bsf, pauli_wt, pack/unpack and all four forms of bsp. '
                'nontrivial = distinct input containing Y and at least two distinct letters'
                % (ctx.pick(3, 4), ctx.pick(120, 300), ctx.pick(5, 6), ctx.pick(5, 6), ctx.pick(8000, 80000),
                   ctx.pick('16-bit types, one vector and one stacking each', 'all shapes, 8- and 16-bit types')))
    ctx.props_obligations()

    req, exp = [], []  # model requests and implementation answers (canonical)

    def add(fn, line, impl, inp):
        req.append(line)
        exp.append((fn, inp, impl))

    def impl_call(f, *a):
        try:
            return f(*a)
        except Exception as e:  # noqa
            return 'ERR ' + exc_class(e)

    # ---- 1. singles: conversion, weights -------------------------------------------------
    nmax = ctx.pick(3, 4)
    strings = []
    for n in range(0, nmax + 1):
        strings += [''.join(p) for p in itertools.product(LET, repeat=n)]
    rand_n = ctx.pick(120, 300)
    for _ in range(ctx.pick(400, 4000)):
        strings.append(rand_pauli(rng, rng.randint(5, rand_n), rng.randrange(3)))
    def single(s):
        b = pt.pauli_to_bsf(s)
        prob = array_problem(b, (2 * len(s),))
        if prob:
            ctx.violation('bsf-shape', 'pauli_to_bsf result is not a binary vector of length 2n: ' + prob, {'pauli': s})
            return
        bs = bitstr(b)
        add('pauli_to_bsf', 'to_bsf ' + s, bs, s)
        back = pt.bsf_to_pauli(b)
        add('bsf_to_pauli', 'of_bsf ' + bs, back, bs)
        pw = pt.pauli_wt(s)
        w = pt.bsf_wt(b)
        if int_problem(pw) or int_problem(w):
            ctx.violation('weight', 'a weight is not an integer: pauli_wt %s, bsf_wt %s' % (describe(pw), describe(w)),
                          {'pauli': s})
            return
        add('pauli_wt', 'pauli_wt ' + s, str(int(pw)), s)
        add('bsf_wt', 'bsf_wt ' + bs, str(int(w)), bs)
        ctx.count(s, nontrivial(s), 'single', {'pauli': s, 'bsf': bs} if len(s) == 5 else None)
        # direct property evaluation on the implementation
        if back != s:
            ctx.violation('roundtrip', 'bsf_to_pauli(pauli_to_bsf(s)) != s', {'pauli': s, 'got': back})
        if not (b.ndim == 1 and len(b) == 2 * len(s) and set(np.unique(b)) <= {0, 1}):
            ctx.violation('bsf-shape', 'pauli_to_bsf result is not a binary vector of length 2n', {'pauli': s})
        for i, ch in enumerate(s):
            if (int(b[i]), int(b[len(s) + i])) != {'I': (0, 0), 'X': (1, 0), 'Z': (0, 1), 'Y': (1, 1)}[ch]:
                ctx.violation('bsf-columns', 'X/Z columns wrong', {'pauli': s, 'bsf': bs})
                break
        truew = sum(1 for ch in s if ch != 'I')
        if int(w) != truew or int(pt.pauli_wt(s)) != truew:
            ctx.violation('weight', 'weight != number of non-identity factors', {'pauli': s, 'bsf_wt': int(w)})
    for s in strings:
        if s == '':
            continue  # zero qubits: c09_shapes (shape-carrying protocol)
        guard(ctx, {'fn': 'pauli_to_bsf/bsf_to_pauli/pauli_wt/bsf_wt', 'pauli': s}, lambda: single(s))
    # bsf -> pauli -> bsf on arbitrary binary vectors of even length
    for _ in range(ctx.pick(300, 3000)):
        n = rng.randint(1, 40)
        b = np.array(fill(rng, 1, 2 * n, any_fill(rng))[0])

        def single_bsf(b=b):
            s = pt.bsf_to_pauli(b)
            if not isinstance(s, str):
                ctx.violation('roundtrip-bsf', 'bsf_to_pauli of a vector is not a string: ' + describe(s),
                              {'bsf': bitstr(b)})
                return
            add('bsf_to_pauli', 'of_bsf ' + bitstr(b), s, bitstr(b))
            if not np.array_equal(pt.pauli_to_bsf(s), b):
                ctx.violation('roundtrip-bsf', 'pauli_to_bsf(bsf_to_pauli(b)) != b', {'bsf': bitstr(b)})
            ctx.count(bitstr(b), nontrivial(s), 'single-bsf')
        guard(ctx, {'fn': 'bsf_to_pauli', 'bsf': bitstr(b)}, single_bsf)

    # ---- 2. pairs: bsp vs commutation, symmetry, bilinearity ----------------------------
    pair_n = ctx.pick(3, 4)
    pairs = []
    for n in range(1, pair_n + 1):
        ss = [''.join(p) for p in itertools.product(LET, repeat=n)]
        if n == 4 and ctx.quick:
            continue
        pairs += [(a, b) for a in ss for b in ss]
    for _ in range(ctx.pick(1500, 20000)):
        n = rng.randint(5, rand_n)
        k = rng.randrange(3)
        pairs.append((rand_pauli(rng, n, k), rand_pauli(rng, n, rng.randrange(3))))
    cache = {}

    def tb(s):
        if s not in cache:
            cache[s] = pt.pauli_to_bsf(s)
        return cache[s]
    # an operator against the identity, itself, and its letter-wise neighbours, at every size of the random range
    for _ in range(ctx.pick(150, 1500)):
        n = rng.randint(1, rand_n)
        s = rand_pauli(rng, n, rng.randrange(3))
        pairs += [(s, 'I' * n), ('I' * n, s), (s, s), ('I' * n, 'I' * n)]

    def pair(s, t):
        a, b = tb(s), tb(t)
        v = pt.bsp(a, b)
        prob = array_problem(v, ())
        if prob:
            ctx.violation('bsp-shapes', 'bsp of two vectors: ' + prob, {'a': s, 'b': t})
            return
        add('bsp', 'bsp %s %s' % (bitstr(a), bitstr(b)), str(int(v)), (s, t))
        ctx.count((s, t), nontrivial(s) and nontrivial(t) and s != t, 'pair',
                  {'a': s, 'b': t, 'bsp': int(v)} if len(s) == 6 else None)
        if int(v) != anti_truth(s, t):
            ctx.violation('bsp-commutation', 'bsp != anticommutation parity', {'a': s, 'b': t, 'bsp': int(v)})
        w = pt.bsp(b, a)
        if array_problem(w, ()) or int(w) != int(v):
            ctx.violation('bsp-symmetry', 'bsp(a,b) != bsp(b,a)', {'a': s, 'b': t, 'bsp(b,a)': describe(w)})
    for (s, t) in pairs:
        guard(ctx, {'fn': 'bsp', 'a': s, 'b': t}, lambda: pair(s, t))
    for _ in range(ctx.pick(500, 5000)):
        n = rng.randint(1, 30)
        a, b, c = (np.array(fill(rng, 1, 2 * n, any_fill(rng))[0]) for _ in range(3))
        if rng.random() < 0.1:
            b = a.copy()  # a ^ a is the identity

        def triple(a=a, b=b, c=c):
            vals = [pt.bsp(a ^ b, c), pt.bsp(a, c), pt.bsp(b, c), pt.bsp(c, a ^ b), pt.bsp(c, a), pt.bsp(c, b)]
            probs = [p for p in (array_problem(v, ()) for v in vals) if p]
            if probs:
                ctx.violation('bsp-shapes', 'bsp of two vectors: ' + probs[0],
                              {'a': bitstr(a), 'b': bitstr(b), 'c': bitstr(c)})
                return
            vals = [int(v) for v in vals]
            if vals[0] != (vals[1] ^ vals[2]) or vals[3] != (vals[4] ^ vals[5]):
                ctx.violation('bsp-bilinear', 'bsp not bilinear', {'a': bitstr(a), 'b': bitstr(b), 'c': bitstr(c)})
        guard(ctx, {'fn': 'bsp', 'a': bitstr(a), 'b': bitstr(b), 'c': bitstr(c)}, triple)
        ctx.count(None, False, 'triple')

    # ---- 3. matrix shapes ----------------------------------------------------------------
    for _ in range(ctx.pick(600, 6000)):
        n = rng.randint(1, 12)
        ra, rb = rng.randint(1, 4), rng.randint(1, 4)
        A = np.array(fill(rng, ra, 2 * n, any_fill(rng))).reshape(ra, 2 * n)
        B = np.array(fill(rng, rb, 2 * n, any_fill(rng))).reshape(rb, 2 * n)

        def matrix(n=n, ra=ra, rb=rb, A=A, B=B):
            rp = {'A': rowsstr(A), 'B': rowsstr(B), 'call': 'bsp(A, B.T), bsp(A[0], B.T), bsp(A, B[0])'}
            mm = pt.bsp(A, B.T)
            vm = pt.bsp(A[0], B.T)
            mv = pt.bsp(A, B[0])
            for what, r, shape in (('bsp(A, B.T)', mm, (ra, rb)), ('bsp(A[0], B.T)', vm, (rb,)),
                                   ('bsp(A, B[0])', mv, (ra,))):
                prob = array_problem(r, shape)
                if prob:
                    ctx.violation('bsp-shapes', '%s with A %d x %d, B %d x %d: %s' % (what, ra, 2 * n, rb, 2 * n, prob),
                                  dict(rp, expected_shape=list(shape), got=describe(r)))
                    return
            add('bsp(mat,mat)', 'bsp_mm %s %s %d' % (rowsstr(A), rowsstr(B.T), rb), rowsstr(mm), None)
            add('bsp(vec,mat)', 'bsp_vm %s %s %d' % (bitstr(A[0]), rowsstr(B.T), rb), bitstr(vm), None)
            add('bsp(mat,vec)', 'bsp_mv %s %s' % (rowsstr(A), bitstr(B[0])), bitstr(mv), None)
            for i in range(ra):
                for j in range(rb):
                    e = int(pt.bsp(A[i], B[j]))
                    if int(mm[i][j]) != e or (i == 0 and int(vm[j]) != e) or (j == 0 and int(mv[i]) != e):
                        ctx.violation('bsp-shapes', 'matrix forms disagree with vector form', dict(rp, i=i, j=j))
            ss = pt.bsf_to_pauli(A)
            if not (isinstance(ss, list) and len(ss) == ra and all(isinstance(x, str) and len(x) == n for x in ss)):
                ctx.violation('roundtrip-list', 'bsf_to_pauli of a %d x %d array is not a list of %d strings: %s'
                              % (ra, 2 * n, ra, describe(ss)), {'A': rowsstr(A)})
                return
            add('bsf_to_pauli(2d)', 'of_bsf_list ' + rowsstr(A), ','.join(ss), None)
            back = pt.pauli_to_bsf(ss)
            prob = array_problem(back, (ra, 2 * n))
            if prob:
                ctx.violation('bsf-shape', 'pauli_to_bsf of a list of %d strings: %s' % (ra, prob), {'paulis': ss})
                return
            add('pauli_to_bsf(list)', 'to_bsf_list ' + ','.join(ss), rowsstr(back), None)
            pw, bw = pt.pauli_wt(ss), pt.bsf_wt(A)
            if int_problem(pw) or int_problem(bw):
                ctx.violation('weight-2d', 'a weight is not an integer: pauli_wt %s, bsf_wt %s'
                              % (describe(pw), describe(bw)), {'A': rowsstr(A)})
                return
            add('pauli_wt(list)', 'pauli_wt_list ' + ','.join(ss), str(int(pw)), None)
            add('bsf_wt(2d)', 'bsf_wt_rows ' + rowsstr(A), str(int(bw)), None)
            if not np.array_equal(back, A):
                ctx.violation('roundtrip-list', 'list round trip fails', {'A': rowsstr(A)})
            if int(bw) != sum(sum(1 for ch in s if ch != 'I') for s in ss):
                ctx.violation('weight-2d', '2d weight is not the sum of the row weights', {'A': rowsstr(A)})
            ctx.count(rowsstr(A) + '|' + rowsstr(B), any(nontrivial(s) for s in ss) and ra > 1 and rb > 1, 'matrix',
                      {'A': rowsstr(A), 'B': rowsstr(B)} if n == 3 else None)
        guard(ctx, {'fn': 'bsp (stacked forms), conversions and weights of a stacking', 'A': rowsstr(A),
                    'B': rowsstr(B)}, matrix)

    # ---- 4. ipauli / ibsf ----------------------------------------------------------------
    imax = ctx.pick(5, 6)

    def ipauli_case(n, lo, hi):
        seq = list(pt.ipauli(n, lo, hi))
        if not all(isinstance(x, str) for x in seq):
            ctx.violation('ipauli-complete', 'ipauli yields something that is not a string',
                          {'n': n, 'lo': lo, 'hi': hi, 'got': [describe(x) for x in seq if not isinstance(x, str)][:3]})
            return
        add('ipauli', 'ipauli %d %d %d' % (n, lo, hi), ','.join(seq) if seq else '-', (n, lo, hi))
        ctx.count(('ipauli', n, lo, hi), n >= 2 and hi >= 1, 'ipauli',
                  {'ipauli': [n, lo, hi], 'first': seq[:4], 'len': len(seq)} if (n, lo, hi) == (3, 1, 2) else None)
        ws = [sum(1 for ch in s if ch != 'I') for s in seq]
        truth = set(''.join(p) for p in itertools.product(LET, repeat=n)
                    if lo <= sum(1 for ch in p if ch != 'I') <= hi)
        if len(seq) != len(set(seq)):
            ctx.violation('ipauli-dup', 'ipauli yields a duplicate', {'n': n, 'lo': lo, 'hi': hi})
        if set(seq) != truth:
            ctx.violation('ipauli-complete', 'ipauli does not yield exactly the Paulis in the weight range',
                          {'n': n, 'lo': lo, 'hi': hi, 'missing': sorted(truth - set(seq))[:5],
                           'extra': sorted(set(seq) - truth)[:5]})
        if ws != sorted(ws):
            ctx.violation('ipauli-order', 'ipauli weights decrease', {'n': n, 'lo': lo, 'hi': hi})
        if n <= 4:
            bs = list(pt.ibsf(n, lo, hi))
            probs = [p for p in (array_problem(b, (2 * n,)) for b in bs) if p]
            if probs:
                ctx.violation('ibsf', 'ibsf yields something that is not a binary vector of length 2n: ' + probs[0],
                              {'n': n, 'lo': lo, 'hi': hi})
                return
            bseq = [bitstr(b) for b in bs]
            add('ibsf', 'ibsf %d %d %d' % (n, lo, hi), ','.join(bseq) if bseq else '-', (n, lo, hi))
            if bseq != [bitstr(pt.pauli_to_bsf(s)) for s in seq]:
                ctx.violation('ibsf', 'ibsf is not pauli_to_bsf of ipauli', {'n': n, 'lo': lo, 'hi': hi})
    for n in range(1, imax + 1):  # zero qubits: c09_shapes (shape-carrying protocol)
        for lo in range(0, n + 1):
            for hi in range(lo, n + 1):
                guard(ctx, {'fn': 'ipauli/ibsf', 'n': n, 'min_weight': lo, 'max_weight': hi},
                      lambda: ipauli_case(n, lo, hi))
    # default arguments and prefixes on larger n
    import math

    def prefix_case(n):
        it = pt.ipauli(n)
        pre = list(itertools.islice(it, 300))
        full = ctx.model('c09', ['ipauli %d 0 %d' % (n, min(n, 2))])[0].split(',')
        if not ctx.cmp('ipauli(default,prefix)', n, pre[:min(len(pre), len(full))], full[:min(len(pre), len(full))]):
            ctx.violation('ipauli-order', 'ipauli(n) with default weights does not start as the model\'s enumeration',
                          {'n': n, 'got_first': [repr(x)[:40] for x in pre[:6]], 'model_first': full[:6]})
        ctx.count(('ipauli-prefix', n), True, 'ipauli-prefix')
        for w in range(0, (n if n <= 8 else 3) + 1):
            cnt = sum(1 for _ in pt.ipauli(n, w, w))
            if cnt != math.comb(n, w) * 3 ** w:
                ctx.violation('ipauli-count', 'wrong number of weight-w Paulis', {'n': n, 'w': w, 'count': cnt})
    for n in range(1, ctx.pick(9, 13)):
        guard(ctx, {'fn': 'ipauli', 'n': n, 'call': 'ipauli(n) and ipauli(n, w, w)'}, lambda: prefix_case(n))

    # ---- 5. pack / unpack ------------------------------------------------------------------
    lens = list(range(0, 131)) + [rng.randint(131, ctx.pick(1500, 5000)) for _ in range(ctx.pick(40, 300))]
    kcases = []

    def pack_case(L, v, keep):
        h, ln = pt.pack(v)
        if not (isinstance(h, str) and int_problem(ln) is None):
            ctx.violation('pack-shape', 'pack does not return (hex string, length): %s, %s' % (describe(h), describe(ln)),
                          {'bits': bitstr(v)})
            return
        add('pack', 'pack ' + bitstr(v), '%s %d' % (h if h else '-', ln), bitstr(v))
        u = pt.unpack((h, ln))
        prob = array_problem(u, (L,))
        if prob:
            ctx.violation('pack-roundtrip', 'unpack(pack(v)) is not a binary vector of the length of v: ' + prob,
                          {'bits': bitstr(v), 'packed': [h, ln]})
            return
        add('unpack', 'unpack %s %d' % (h if h else '-', ln), bitstr(u), (h, ln))
        ctx.count(('pack', bitstr(v)), L % 8 != 0 and v.any(), 'pack',
                  {'bits': bitstr(v), 'packed': [h, ln]} if L == 11 else None)
        if not (np.array_equal(u, v) and len(u) == L):
            ctx.violation('pack-roundtrip', 'unpack(pack(v)) != v', {'bits': bitstr(v), 'packed': [h, ln]})
        if ln != L or len(h) != 2 * ((L + 7) // 8):
            ctx.violation('pack-shape', 'packed length fields wrong', {'bits': bitstr(v), 'packed': [h, ln]})
        if keep:
            kcases.append((v.tolist(), h, ln))
    for L in lens:
        for rep in range(3 if L <= 130 else 1):
            v = np.array([rng.randint(0, 1) for _ in range(L)], dtype=int)
            if L and rep == 1:
                v[:] = 0
                v[rng.randrange(L)] = 1
            if rep == 2:
                v[:] = rng.randint(0, 1)  # all zeros / all ones of every length
            guard(ctx, {'fn': 'pack/unpack', 'bits': bitstr(v)}, lambda: pack_case(L, v, L <= 130 and rep == 0))
    # injectivity on same-length near misses
    for _ in range(ctx.pick(200, 2000)):
        L = rng.randint(1, 100)
        v = np.array([rng.randint(0, 1) for _ in range(L)], dtype=int)
        w = v.copy()
        w[rng.randrange(L)] ^= 1

        def inj(v=v, w=w):
            if pt.pack(v) == pt.pack(w):
                ctx.violation('pack-injective', 'two different arrays pack alike', {'v': bitstr(v), 'w': bitstr(w)})
        guard(ctx, {'fn': 'pack', 'v': bitstr(v), 'w': bitstr(w)}, inj)
        ctx.count(None, False, 'pack-inj')

    # ---- 6. malformed stream ---------------------------------------------------------------
    for bad in ([0, 2], [1, -1, 0, 0], [3, 0]):
        r = impl_call(pt.bsf_to_pauli, np.array(bad))
        ctx.count(None, False, 'malformed')
        if r != 'ERR AssertionError':
            ctx.violation('malformed-bsf', 'non-binary bsf accepted by bsf_to_pauli', {'bsf': bad, 'got': str(r)})
        r = impl_call(pt.pack, np.array(bad))
        if r != 'ERR AssertionError':
            ctx.violation('malformed-pack', 'non-binary array accepted by pack', {'arr': bad, 'got': str(r)})
    r = impl_call(lambda: list(pt.ipauli(3, 2, 1)))
    if r != 'ERR AssertionError':
        ctx.violation('malformed-ipauli', 'ipauli accepts min_weight > max_weight', {'got': str(r)})
    r = impl_call(lambda: list(pt.ipauli(3, 0, 4)))
    if r != 'ERR AssertionError':
        ctx.violation('malformed-ipauli', 'ipauli accepts max_weight > n', {'got': str(r)})

    # ---- 7. usage patterns: iterator consumption and call histories (own model batches) -----
    c09_extra.run(ctx, pt)

    # ---- 8. degenerate operands and result shapes (shape-carrying model protocol) -------------
    c09_shapes.run(ctx, pt)

    # ---- 9. storage types x totals crossing the limits of those types, every array-taking function -----------
    c09_dtypes.run(ctx, pt)

    # ---- correspondence with the extracted model ------------------------------------------
    out = ctx.model('c09', req)
    for (fn, inp, impl), m, line in zip(exp, out, req):
        if not ctx.cmp(fn, line[:400], impl, m):
            # the model's answer is the expected value: this request is a concrete failing input
            ctx.violation('model-' + fn.split('(')[0], 'the answer is not the model\'s answer',
                          {'fn': fn, 'request': line[:600], 'got': str(impl)[:400], 'expected_by_model': m[:400]})

    # ---- in-kernel shard: a sample re-evaluated by vm_compute -------------------------------
    samp = [s for s in strings if 0 < len(s) <= 60][:: max(1, len(strings) // 150)][:150]
    items = []
    def k_single(s):
        b = pt.pauli_to_bsf(s)
        ps = coq_list(['p' + ch for ch in s])
        items.append('(beqv (to_bsf %s) %s && (pauli_wt %s =? %d) && (bsf_wt %s =? %d))'
                     % (ps, coq_bits(b.tolist()), ps, int(pt.pauli_wt(s)), coq_bits(b.tolist()), int(pt.bsf_wt(b))))

    def k_pair(s, t):
        items.append('(Bool.eqb (bsp %s %s) %s)' % (coq_bits(tb(s).tolist()), coq_bits(tb(t).tolist()),
                                                    'true' if int(pt.bsp(tb(s), tb(t))) else 'false'))

    def k_stack(A, K):
        # a stacked product, its shape included: m rows, every row of length k, entries as the implementation's
        r = pt.bsp(A, K.T)
        if array_problem(r, (A.shape[0], K.shape[0])):
            ctx.violation('bsp-shapes', 'bsp(A, B.T): ' + array_problem(r, (A.shape[0], K.shape[0])),
                          {'A': rowsstr(A), 'B': rowsstr(K), 'got': describe(r)})
            return
        call = '(bsp_mm %s %s %d)' % (coq_list([coq_bits(x.tolist()) for x in A]),
                                      coq_list([coq_bits(x.tolist()) for x in K.T]), K.shape[0])
        items.append('((length %s =? %d) && forallb (fun r => length r =? %d) %s && beqv (concat %s) %s)'
                     % (call, A.shape[0], K.shape[0], call, call, coq_bits(r.reshape(-1).tolist())))
    for s in samp:
        guard(ctx, {'fn': 'pauli_to_bsf/pauli_wt/bsf_wt', 'pauli': s}, lambda: k_single(s))
    for (s, t) in pairs[:: max(1, len(pairs) // 150)][:150]:
        if len(s) > 60:
            continue
        guard(ctx, {'fn': 'bsp', 'a': s, 'b': t}, lambda: k_pair(s, t))
    for _ in range(40):
        n, ra, rb = rng.randint(1, 4), rng.randint(1, 3), rng.randint(1, 3)
        A = np.array(fill(rng, ra, 2 * n, rng.choice(c09_shapes.FILLS))).reshape(ra, 2 * n)
        K = np.array(fill(rng, rb, 2 * n, rng.choice(c09_shapes.FILLS))).reshape(rb, 2 * n)
        guard(ctx, {'fn': 'bsp', 'A': rowsstr(A), 'B': rowsstr(K), 'call': 'bsp(A, B.T)'}, lambda: k_stack(A, K))
    hexmap = {c: '(%s,%s,%s,%s)' % tuple('true' if (int(c, 16) >> k) & 1 else 'false' for k in (3, 2, 1, 0))
              for c in '0123456789abcdef'}
    for (v, h, ln) in kcases[::3]:
        hs = coq_list([hexmap[c] for c in h])
        items.append('(match unpack (%s, %d) with Some u => beqv u %s | None => false end)' % (hs, ln, coq_bits(v)))
    text = ('From Coq Require Import List Bool Arith NArith.\nFrom QV Require Import Core.Bits Core.Pauli Core.Symp '
            'Core.Enum Core.Pack.\nImport ListNotations.\nOpen Scope bool_scope.\n'
            'Definition checks : list bool :=\n [' + ';\n  '.join(items) + '].\n'
            'Example corr : forallb (fun b => b) checks = true.\nProof. vm_compute. reflexivity. Qed.\n')
    ctx.kernel_cases('sample', text)
    ctx.extra['kernel_cases'] = len(items)


def replay(path):
    d = json.load(open(path))
    print(json.dumps(d, indent=1))
    return 0
