"""C01 — a run's verdict is exactly what the generated error and decoding imply.
Drives the real app.run_once / run_once_ftp with recording proxies and compares the decoder's
view and the returned data with the extracted App/RunOnce model; the property is also evaluated
directly (letter-level commutation) on what the implementation did."""
import itertools
import json
import math
from fractions import Fraction

import numpy as np

from harness.common import bitstr, rowsstr, exc_class, coq_bits, coq_list
from harness.proxies import UserCode, ScriptedErrorModel, ScriptedRng, ScriptedDecoder
from harness.c20 import random_valid, anti


def fr(x):
    f = Fraction(x)
    return '%d/%d' % (f.numerator, f.denominator)


def ints(a):
    if a is None:
        return '_'
    a = [int(v) for v in a]
    return ','.join(map(str, a)) if a else '-'


MSG = {'Time steps must be integer >= 1.': 'steps', 'Error probability must be in [0, 1].': 'prob',
       'Measurement error probability must be None or in [0, 1].': 'mprob'}


def run(ctx):
    from qecsim import app
    from qecsim.error import QecsimError
    from qecsim.model import DecodeResult
    from qecsim.models.basic import FiveQubitCode, SteaneCode
    from qecsim.models.planar import PlanarCode
    from qecsim.models.toric import ToricCode
    from qecsim.models.rotatedplanar import RotatedPlanarCode
    import logging
    logging.getLogger('qecsim').setLevel(logging.ERROR)
    rng = ctx.rng
    ctx.rule = ('real run_once/run_once_ftp with scripted error model, rng and decoder; library codes and random '
                'binary matrices as user-defined codes; T in 1..%d; every decoder answer shape (bare, None, 16 '
                'DecodeResult patterns); invalid-parameter stream separately. nontrivial = some non-zero step error '
                'and (a flip or a non-default answer shape). Histories: one table decoder / error model / rng kept '
                'through 3..7 runs (run_once / run_once_ftp sequences and app.run / run_ftp loops), errors = base errors '
                'times stabilizer and logical products so that syndromes repeat while verdicts change, the decoder hands '
                'back the very same DecodeResult / arrays on a repeated syndrome; all owned objects audited after every '
                'run; results re-read at the end of the history. Presentations: user codes with one stabilizer and / or one '
                'logical pair under every 1d/2d presentation of those operators (documented return type), ideal / ftp, '
                'run_once(_ftp) and app.run(_ftp), size-honouring scripted rng and the real numpy Generator; syndrome '
                'shape = stabilizer presentation without its qubit axis, values and verdict from the model on the '
                'normalised 2-d code' % ctx.pick(5, 12))
    ctx.props_obligations()
    lib = [FiveQubitCode(), SteaneCode(), PlanarCode(2, 2), PlanarCode(3, 2), ToricCode(2, 3), RotatedPlanarCode(3, 3)]
    if not ctx.quick:
        lib += [PlanarCode(4, 5), ToricCode(4, 4), RotatedPlanarCode(5, 4)]
    req, exp = [], []
    kern = []
    Tmax = ctx.pick(5, 12)
    nmax = ctx.pick(10, 30)

    def rand_code():
        r = rng.random()
        if r < 0.4:
            c = rng.choice(lib)
            return c
        n = rng.randint(1, nmax)
        if r < 0.7 and n >= 2:
            k = rng.randint(1, min(3, n - 1))
            S, X, Z = random_valid(rng, n, k)
            return UserCode(S, X, Z)
        ns, k = rng.randint(1, n + 1), rng.randint(1, 3)
        rb = lambda r_: np.array([[rng.randint(0, 1) for _ in range(2 * n)] for _ in range(r_)])  # noqa
        return UserCode(rb(ns), rb(k), rb(k))

    def rand_err(n, kind):
        if kind == 0:
            return np.zeros(2 * n, dtype=int)
        if kind == 1:
            e = np.zeros(2 * n, dtype=int)
            for _ in range(rng.randint(1, 2)):
                q = rng.randrange(n)
                p = rng.randint(1, 3)
                e[q] ^= p & 1
                e[n + q] ^= (p >> 1) & 1
            return e
        return np.array([rng.randint(0, 1) for _ in range(2 * n)])

    for it in range(ctx.pick(1500, 15000)):
        code = rand_code()
        S, X, Z = code.stabilizers, code.logical_xs, code.logical_zs
        n, m = S.shape[1] // 2, S.shape[0]
        ftp = rng.random() < 0.65
        T = rng.randint(1, Tmax) if ftp else 1
        errs = [rand_err(n, rng.choice([0, 1, 1, 2])) for _ in range(T)]
        qsel = rng.choice(['none', 'zero', 'pos', 'one']) if ftp else 'ideal'
        flips = []
        for t in range(T):
            k = rng.choice([0, 0, 1, 2])
            f = np.zeros(m, dtype=int)
            if k == 1:
                f[rng.randrange(m)] = 1
            elif k == 2:
                f = np.array([rng.randint(0, 1) for _ in range(m)])
            flips.append(f)
        p = rng.choice([0.0, 0.25, 0.5, 1.0, 0.125])
        q = {'none': None, 'zero': 0.0, 'pos': rng.choice([0.25, 0.5, 0.75]), 'one': 1.0, 'ideal': None}[qsel]
        # decoder answer
        shape = rng.randrange(6)
        pat = (False, False, True, False)
        if shape == 0:
            rec = rand_err(n, rng.choice([0, 1, 2]))
            ans, aenc = rec, 'B:' + bitstr(rec)
        elif shape == 1:  # the true error as recovery (returns to code space, success for valid codes)
            rec = np.bitwise_xor.reduce(errs)
            ans, aenc = rec, 'B:' + bitstr(rec)
        elif shape == 2 and rng.random() < 0.3:
            ans, aenc = None, 'B:_'
        else:
            pat = tuple(rng.random() < 0.5 for _ in range(4))
            su = rng.random() < 0.5
            lc = [rng.randint(-2, 5) for _ in range(rng.randint(0, 4))]
            rec = rand_err(n, rng.choice([0, 1, 2]))
            cv = [rng.randint(-3, 9) for _ in range(rng.randint(0, 3))]
            aenc = 'D:%s:%s:%s:%s' % (('1' if su else '0') if pat[0] else '_', ints(lc) if pat[1] else '_',
                                      bitstr(rec) if pat[2] else '_', ints(cv) if pat[3] else '_')

            def ans(pat=pat, su=su, lc=lc, rec=rec, cv=cv):
                return DecodeResult(success=su if pat[0] else None,
                                    logical_commutations=np.array(lc, dtype=int) if pat[1] else None,
                                    recovery=rec.copy() if pat[2] else None,
                                    custom_values=np.array(cv, dtype=int) if pat[3] else None)
        em = ScriptedErrorModel(errs)
        srng = ScriptedRng(flips)
        dec = ScriptedDecoder([ans])
        try:
            if ftp:
                data = app.run_once_ftp(code, T, em, dec, p, q, srng)
            else:
                data = app.run_once(code, em, dec, p, srng)
            res = 'ok'
        except QecsimError:
            data, res = None, 'ERR QecsimError'
        except Exception as e:  # noqa
            data, res = None, 'ERR ' + exc_class(e)
        q_eff = (0.0 if T == 1 else p) if (ftp and q is None) else (q if ftp else 0.0)
        q_truthy = bool(q_eff)
        used = flips if q_truthy else [np.zeros(m, dtype=int)] * T
        # --- what the decoder saw
        seen = dec.calls[0] if dec.calls else None
        syn_seen = None
        if seen is not None:
            syn_seen = seen['syndrome'] if ftp else seen['syndrome'][None, :] if seen['syndrome'].ndim == 1 else None
        impl = '%s %s' % (rowsstr(syn_seen) if syn_seen is not None else 'NOSYN',
                          res if data is None else '%s %s %s %d' % (
                              '1' if data['success'] else '0', ints(data['logical_commutations']),
                              ints(data['custom_values']), int(data['error_weight'])))
        line = 'run_once %s %s %s %s %s %s %s' % (rowsstr(S), rowsstr(X), rowsstr(Z), rowsstr(errs), rowsstr(flips),
                                                 '1' if q_truthy else '0', aenc)
        req.append(line)
        exp.append(('run_once_ftp' if ftp else 'run_once', impl))
        nontriv = any(e.any() for e in errs) and (any(f.any() for f in used) or shape >= 2)
        ctx.count(line, nontriv, ('ftp' if ftp else 'ideal') + '/' + qsel + '/' + aenc[0],
                  {'mode': 'ftp' if ftp else 'ideal', 'T': T, 'n': n, 'q': q, 'answer': aenc[:60], 'result': impl[:80]}
                  if it % 300 == 7 else None)
        # --- direct evaluation of the property on the implementation (letter-level commutation)
        rep = {'code': repr(code), 'S': rowsstr(S), 'X': rowsstr(X), 'Z': rowsstr(Z), 'mode': 'ftp' if ftp else 'ideal',
               'T': T, 'errors': rowsstr(errs), 'flips': rowsstr(flips), 'p': p, 'q': q, 'answer': aenc, 'impl': impl}
        if seen is None:
            ctx.violation('decoder-not-called', 'decoder was not called', rep)
            continue
        want_rows = []
        for t in range(T):
            st = np.array([anti(errs[t], s) for s in S])
            want_rows.append(used[(t - 1) % T] ^ st ^ used[t])
        if syn_seen is None or not np.array_equal(np.array(want_rows), syn_seen):
            ctx.violation('syndrome', 'decoder syndrome is not the (flip-composed) syndrome of the errors', rep)
        if len(em.calls) != T or any(c[1] != p or c[2] is not srng for c in em.calls):
            ctx.violation('generate-calls', 'error model not called once per step with (code, p, rng)', rep)
        if q_truthy and (len(srng.calls) != T or any(c[2] is None or abs(c[2][1] - q_eff) > 0 or abs(c[2][0] - (1 - q_eff)) > 1e-15
                                                    or c[0] != (0, 1) for c in srng.calls)):
            ctx.violation('flip-calls', 'measurement flips not drawn once per step with p=(1-q,q)', rep)
        if not q_truthy and srng.calls:
            ctx.violation('flip-calls', 'measurement flips drawn although q is zero', rep)
        kw = seen['kwargs']
        tot = np.bitwise_xor.reduce(np.array(errs), axis=0)
        if not (np.array_equal(kw.get('error'), tot) and kw.get('error_probability') == p
                and kw.get('measurement_error_probability') == q_eff and kw.get('error_model') is em
                and len(kw.get('step_errors', [])) == T and len(kw.get('step_measurement_errors', [])) == T
                and all(np.array_equal(a, b) for a, b in zip(kw['step_errors'], errs))
                and all(np.array_equal(a, b) for a, b in zip(kw['step_measurement_errors'], used))):
            ctx.violation('context', 'decoder context does not carry the run\'s error/probabilities/steps', rep)
        if ftp and seen['time_steps'] != T:
            ctx.violation('context', 'decode_ftp got wrong time_steps', rep)
        # verdict
        try:
            a = ans() if callable(ans) else ans
        except QecsimError:
            a = None
        if a is None:
            want = 'ERR QecsimError'
        else:
            dr = a if isinstance(a, DecodeResult) else DecodeResult(recovery=a)
            su, lc, cv = dr.success, dr.logical_commutations, dr.custom_values
            if dr.recovery is not None:
                rec_ = dr.recovery ^ tot
                cs = all(anti(rec_, s) == 0 for s in S)
                rl = [anti(rec_, l) for l in list(X) + list(Z)]
                if su is None:
                    su = cs and not any(rl)
                if lc is None:
                    lc = rl
            wt = sum(sum(1 for i in range(n) if e[i] or e[n + i]) for e in errs)
            want = '%s %s %s %d' % ('1' if su else '0', ints(lc), ints(cv), wt)
        got = impl.split(' ', 1)[1]
        if got != want:
            ctx.violation('verdict', 'returned data is not what error and decoding imply', dict(rep, want=want))
        if data is not None and type(data['success']) is not bool:
            ctx.violation('success-type', 'success is not a bool', rep)
        if len(kern) < 60 and n <= 8 and it % 7 == 0:
            kern.append((S, X, Z, errs, flips, q_truthy, aenc, impl))

    # ---- invalid parameters are rejected before anything is simulated --------------------
    code = FiveQubitCode()
    bads = [-0.1, 1.1, float('nan'), float('inf'), float('-inf'), -2.0 ** -60, 1 + 2 ** -52]
    goods = [0.0, -0.0, 1.0, 0.5, True]
    for mode in ('once', 'once_ftp', 'run', 'run_ftp'):
        for p_ in bads + goods:
            for T in ([1] if mode in ('once', 'run') else [-1, 0, 1, 3]):
                for q_ in ([None] if mode in ('once', 'run') else [None] + bads[:4] + [0.0, 1.0, 0.3]):
                    em = ScriptedErrorModel([np.zeros(10, dtype=int)])
                    dec = ScriptedDecoder([np.zeros(10, dtype=int)])
                    srng = ScriptedRng([np.zeros(4, dtype=int)])
                    try:
                        if mode == 'once':
                            app.run_once(code, em, dec, p_, srng)
                        elif mode == 'once_ftp':
                            app.run_once_ftp(code, T, em, dec, p_, q_, srng)
                        elif mode == 'run':
                            app.run(code, em, dec, p_, max_runs=1, random_seed=1)
                        else:
                            app.run_ftp(code, T, em, dec, p_, q_, max_runs=1, random_seed=1)
                        r = 'ok'
                    except ValueError as e:
                        r = MSG.get(str(e), 'ValueError:' + str(e))
                    except Exception as e:  # noqa
                        r = 'ERR ' + exc_class(e)

                    def enc(x):
                        return 'nan' if (isinstance(x, float) and math.isnan(x)) else \
                            ('2/1' if x == float('inf') else ('-1/1' if x == float('-inf') else fr(x)))
                    pe = enc(p_)
                    qe = '_' if q_ is None else enc(q_)
                    fn = {'once': 'validate_once', 'run': 'validate_once', 'once_ftp': 'validate_once_ftp',
                          'run_ftp': 'validate_run_ftp'}[mode]
                    req.append('%s %s' % (fn, pe) if mode in ('once', 'run') else '%s %d %s %s' % (fn, T, pe, qe))
                    exp.append((mode + ' validation', r))
                    ctx.count((mode, str(p_), T, str(q_)), True, 'param-validation')
                    valid = (0 <= p_ <= 1) and T >= 1 and (q_ is None or 0 <= q_ <= 1)
                    if valid != (r == 'ok'):
                        ctx.violation('param-validation', 'parameter validity and acceptance disagree',
                                      {'mode': mode, 'p': str(p_), 'T': T, 'q': str(q_), 'result': r})
                    if r != 'ok' and (em.calls or dec.calls or srng.calls):
                        ctx.violation('reject-before-simulate', 'something was simulated before rejection',
                                      {'mode': mode, 'p': str(p_), 'T': T, 'q': str(q_)})
    # measurement probability default as seen by the decoder
    for T in (1, 2, 4):
        for p_ in (0.0, 0.25, 1.0):
            for q_ in (None, 0.0, 0.5):
                dec = ScriptedDecoder([np.zeros(10, dtype=int)])
                app.run_once_ftp(code, T, ScriptedErrorModel([np.zeros(10, dtype=int)]), dec, p_, q_,
                                 ScriptedRng([np.zeros(4, dtype=int)]))
                got = dec.calls[0]['kwargs']['measurement_error_probability']
                req.append('q_default %d %s %s' % (T, fr(p_), '_' if q_ is None else fr(q_)))
                exp.append(('q default', fr(got)))
                ctx.count(('qdef', T, p_, q_), True, 'q-default')
                if got != ((0.0 if T == 1 else p_) if q_ is None else q_):
                    ctx.violation('q-default', 'documented measurement probability default not applied',
                                  {'T': T, 'p': p_, 'q': q_, 'got': got})

    # ---- operation histories with collaborator-owned objects (table decoders, repeated syndromes) ----
    from harness.c01_extra import run_histories
    run_histories(ctx, lib, kern)

    # ---- user codes whose single stabilizer / logical operator is presented as a vector (1d/2d combinations) ----
    from harness.c01_pres import run_presentations
    run_presentations(ctx, kern)

    out = ctx.model('c01', req)
    for (fn, impl), m, line in zip(exp, out, req):
        if fn == 'q default':
            a, b = impl.split('/'), m.split('/')
            ctx.cmp(fn, line, Fraction(int(a[0]), int(a[1])), Fraction(int(b[0]), int(b[1])))
        else:
            ctx.cmp(fn, line[:800], impl, m)

    # ---- in-kernel shard -----------------------------------------------------------------
    def mat(M):
        return coq_list([coq_bits(np.array(r).tolist()) for r in M])

    def zs(s):
        return 'None' if s == '_' else 'Some ' + coq_list(['(%s)%%Z' % v for v in (s.split(',') if s != '-' else [])])

    def ob(s):
        return 'None' if s == '_' else 'Some ' + coq_bits([c == '1' for c in (s if s != '-' else '')])
    items = []
    for (S, X, Z, errs, flips, qt, aenc, impl) in kern:
        parts = aenc.split(':')
        if parts[0] == 'B':
            a = 'Bare (%s)' % ob(parts[1])
        else:
            su = {'_': 'None', '1': 'Some true', '0': 'Some false'}[parts[1]]
            a = 'DR (%s) (%s) (%s) (%s)' % (su, zs(parts[2]), ob(parts[3]), zs(parts[4]))
        toks = impl.split(' ')
        syn = mat([[c == '1' for c in r] for r in toks[0].split(',')])
        if toks[1] == 'ERR':
            d = 'None'
        else:
            d = 'Some (mkData %s (%s) (%s) %s)' % ('true' if toks[1] == '1' else 'false', zs(toks[2]), zs(toks[3]), toks[4])
        items.append('(res_eqb (run_once_model (mkCode %s %s %s) %s %s %s (%s)) (%s, %s))'
                     % (mat(S), mat(X), mat(Z), mat(errs), mat(flips), 'true' if qt else 'false', a, syn, d))
    text = ('From Coq Require Import List Bool Arith NArith ZArith.\nFrom QV Require Import Core.Bits Core.Pauli '
            'Core.Symp Core.Code App.RunOnce.\nImport ListNotations.\n'
            'Definition olz_eqb (a b : option (list Z)) := match a, b with None, None => true | Some x, Some y => '
            'if list_eq_dec Z.eq_dec x y then true else false | _, _ => false end.\n'
            'Definition data_eqb (a b : data) := Bool.eqb (d_success a) (d_success b) && olz_eqb (d_lc a) (d_lc b) && '
            'olz_eqb (d_cv a) (d_cv b) && Nat.eqb (d_weight a) (d_weight b).\n'
            'Definition res_eqb (a b : list bsf * option data) := beqm (fst a) (fst b) && match snd a, snd b with '
            'None, None => true | Some x, Some y => data_eqb x y | _, _ => false end.\n'
            'Definition checks : list bool :=\n [' + ';\n  '.join(items) + '].\n'
            'Example corr : forallb (fun b => b) checks = true.\nProof. vm_compute. reflexivity. Qed.\n')
    ctx.kernel_cases('sample', text)
    ctx.extra['kernel_cases'] = len(items)


def replay(path):
    print(json.dumps(json.load(open(path)), indent=1))
    return 0
