"""Executes C06 probe operations (decode / run) and prints their canonical results, one JSON line each.
Used in-process by harness/c06.py (shared objects, history order) and as a fresh interpreter
(`python -m harness.c06_worker < ops.json`, other PYTHONHASHSEED, fresh objects, other order)."""
import json
import random
import sys

import numpy as np


def namespace():
    ns = {}
    import qecsim.models.basic as b
    import qecsim.models.color as c
    import qecsim.models.generic as g
    import qecsim.models.planar as p
    import qecsim.models.rotatedplanar as rp
    import qecsim.models.rotatedtoric as rt
    import qecsim.models.toric as t
    for m in (b, c, g, p, rp, rt, t):
        for k in dir(m):
            if not k.startswith('_'):
                ns[k] = getattr(m, k)
    return ns


def bits(s):
    return np.array([int(ch) for ch in s], dtype=int)


def bitstr(a):
    return ''.join(str(int(x)) for x in a)


def execute(op, get):
    """get(expr) -> object (fresh or shared, the caller decides)"""
    from qecsim import app
    from qecsim import paulitools as pt
    random.seed(20260930)      # the Y decoder's documented coin toss: same toss everywhere
    code, dec, em = get(op['code']), get(op['dec']), get(op['em'])
    if op['op'] == 'decode':
        error = bits(op['error'])
        syndrome = pt.bsp(error, code.stabilizers.T)
        kw = {'error_model': em, 'error_probability': op['p']}
        if op.get('ctx_error') is not None:
            kw['error'] = bits(op['ctx_error'])
        snap = (syndrome.tobytes(), code.stabilizers.tobytes(), code.logicals.tobytes(),
                None if 'error' not in kw else kw['error'].tobytes())
        try:
            r = dec.decode(code, syndrome, **kw)
            if hasattr(r, 'recovery'):
                r = r.recovery
            res = bitstr(r)
        except Exception as e:  # noqa
            res = 'ERR ' + type(e).__name__
        after = (syndrome.tobytes(), code.stabilizers.tobytes(), code.logicals.tobytes(),
                 None if 'error' not in kw else kw['error'].tobytes())
        return {'result': res, 'mutated': [n for n, a, b in zip(('syndrome', 'stabilizers', 'logicals', 'ctx_error'), snap, after) if a != b]}
    if op['op'] == 'run':
        kw = {'max_runs': op.get('max_runs'), 'max_failures': op.get('max_failures'), 'random_seed': op['seed']}
        snap = (code.stabilizers.tobytes(), code.logicals.tobytes())
        try:
            if op.get('T'):
                d = app.run_ftp(code, op['T'], em, dec, op['p'], op.get('q'), **kw)
            else:
                d = app.run(code, em, dec, op['p'], **kw)
            d = {k: v for k, v in d.items() if k != 'wall_time'}
            res = json.dumps(d, sort_keys=True, default=repr)
        except Exception as e:  # noqa
            res = 'ERR ' + type(e).__name__
        after = (code.stabilizers.tobytes(), code.logicals.tobytes())
        return {'result': res, 'mutated': [n for n, a, b in zip(('stabilizers', 'logicals'), snap, after) if a != b]}
    raise ValueError(op['op'])


def main():
    import logging
    logging.getLogger('qecsim').setLevel(logging.ERROR)
    ops = json.load(sys.stdin)
    ns = namespace()
    for op in ops:
        r = execute(op, lambda expr: eval(expr, dict(ns)))   # fresh objects for every operation
        sys.stdout.write(json.dumps(r) + '\n')
    sys.stdout.flush()


if __name__ == '__main__':
    main()
