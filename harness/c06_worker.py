"""Executes C06 probe operations (decode / run) and prints their canonical results, one JSON line each.
Used in-process by harness/c06.py (shared objects, history order) and as a fresh interpreter
(`python -m harness.c06_worker < ops.json`, other PYTHONHASHSEED, fresh objects, other order)."""
import json
import os
import random
import sys

import numpy as np

# ---- process-global generators (`random`, `numpy.random`) --------------------------------------------------
# Only these components are random by documented design; for them the global `random` state is pinned so that the
# documented coin toss is the same everywhere.  For every other component the global generators are put in a
# DIFFERENT state before each operation (different per process / fork / call), so that a hidden use of them
# shows up as a differing result; whether an operation consumed them is reported as well.
GSALT = int(os.environ.get('C06_GSALT', '0'))
_GCOUNT = [0]


def documented_random(dec, em):
    """PlanarYDecoder (coin toss between exactly tied cosets), decoders constructed with stp (skip-truncate masks),
    FileErrorModel (cursor)."""
    return (type(dec).__name__ == 'PlanarYDecoder' or bool(getattr(dec, '_stp', None))
            or type(em).__name__ == 'FileErrorModel')


def set_salt(salt):
    global GSALT
    GSALT = int(salt)
    _GCOUNT[0] = 0


def ambient(op, dec, em):
    """-> fingerprint of the global generators after setting them (None when pinned for a documented component)"""
    if documented_random(dec, em):
        random.seed(20260930)
        return None
    g = op.get('gseed')
    if g is None:
        _GCOUNT[0] += 1
        g = (GSALT * 1000003 + _GCOUNT[0] * 7919 + 17) % (2 ** 32)
    random.seed(g)
    np.random.seed(g)
    return rng_fingerprint()


def rng_fingerprint():
    s = np.random.get_state()
    return (random.getstate(), s[1].tobytes(), s[2])


def consumed(fp):
    """which global generators were advanced since fingerprint fp"""
    if fp is None:
        return []
    now = rng_fingerprint()
    return ([] if now[0] == fp[0] else ['random']) + ([] if now[1:] == fp[1:] else ['numpy.random'])


def namespace():
    ns = {}
    import qecsim.models.basic as b
    import qecsim.models.color as c
    import qecsim.models.generic as g
    import qecsim.models.planar as p
    import qecsim.models.rotatedplanar as rp
    import qecsim.models.rotatedtoric as rt
    import qecsim.models.toric as t
    for m in (b, c, g, p, rp, rt, t):
        for k in dir(m):
            if not k.startswith('_'):
                ns[k] = getattr(m, k)
    return ns


def bits(s):
    return np.array([int(ch) for ch in s], dtype=int)


def bitstr(a):
    return ''.join(str(int(x)) for x in a)


def execute(op, get):
    """get(expr) -> object (fresh or shared, the caller decides)"""
    from qecsim import app
    from qecsim import paulitools as pt
    code, dec, em = get(op['code']), get(op['dec']), get(op['em'])
    fp = ambient(op, dec, em)
    r = _execute(op, code, dec, em)
    used = consumed(fp)
    if used:
        r['grng'] = used
    return r


def _execute(op, code, dec, em):
    from qecsim import app
    from qecsim import paulitools as pt
    if op['op'] == 'decode':
        error = bits(op['error'])
        syndrome = pt.bsp(error, code.stabilizers.T)
        kw = {'error_model': em, 'error_probability': op['p']}
        if op.get('ctx_error') is not None:
            kw['error'] = bits(op['ctx_error'])
        snap = (syndrome.tobytes(), code.stabilizers.tobytes(), code.logicals.tobytes(),
                None if 'error' not in kw else kw['error'].tobytes())
        try:
            r = dec.decode(code, syndrome, **kw)
            if hasattr(r, 'recovery'):
                r = r.recovery
            res = bitstr(r)
        except Exception as e:  # noqa
            res = 'ERR ' + type(e).__name__
        after = (syndrome.tobytes(), code.stabilizers.tobytes(), code.logicals.tobytes(),
                 None if 'error' not in kw else kw['error'].tobytes())
        return {'result': res, 'mutated': [n for n, a, b in zip(('syndrome', 'stabilizers', 'logicals', 'ctx_error'), snap, after) if a != b]}
    if op['op'] == 'run':
        kw = {'max_runs': op.get('max_runs'), 'max_failures': op.get('max_failures'), 'random_seed': op['seed']}
        snap = (code.stabilizers.tobytes(), code.logicals.tobytes())
        try:
            if op.get('T'):
                d = app.run_ftp(code, op['T'], em, dec, op['p'], op.get('q'), **kw)
            else:
                d = app.run(code, em, dec, op['p'], **kw)
            d = {k: v for k, v in d.items() if k != 'wall_time'}
            res = json.dumps(d, sort_keys=True, default=repr)
        except Exception as e:  # noqa
            res = 'ERR ' + type(e).__name__
        after = (code.stabilizers.tobytes(), code.logicals.tobytes())
        return {'result': res, 'mutated': [n for n, a, b in zip(('stabilizers', 'logicals'), snap, after) if a != b]}
    raise ValueError(op['op'])


def main():
    import logging
    logging.getLogger('qecsim').setLevel(logging.ERROR)
    ops = json.load(sys.stdin)
    ns = namespace()
    for op in ops:
        r = execute(op, lambda expr: eval(expr, dict(ns)))   # fresh objects for every operation
        sys.stdout.write(json.dumps(r) + '\n')
    sys.stdout.flush()


if __name__ == '__main__':
    main()
