"""Executes C06 probe operations (decode / run) and prints their canonical results, one JSON line each.
Used in-process by harness/c06.py (shared objects, history order) and as a fresh interpreter
(`python -m harness.c06_worker < ops.json`, other PYTHONHASHSEED, fresh objects, other order)."""
import json
import os
import random
import sys

import numpy as np

# ---- process-global generators (`random`, `numpy.random`) --------------------------------------------------
# Only these components are random by documented design; for them the global `random` state is pinned so that the
# documented coin toss is the same everywhere.  For every other component the global generators are put in a
# DIFFERENT state before each operation (different per process / fork / call), so that a hidden use of them
# shows up as a differing result; whether an operation consumed them is reported as well.
GSALT = int(os.environ.get('C06_GSALT', '0'))
_GCOUNT = [0]


def documented_random(dec, em):
    """PlanarYDecoder (coin toss between exactly tied cosets), decoders constructed with stp (skip-truncate masks),
    FileErrorModel (cursor)."""
    return (type(dec).__name__ == 'PlanarYDecoder' or bool(getattr(dec, '_stp', None))
            or type(em).__name__ == 'FileErrorModel')


def set_salt(salt):
    global GSALT
    GSALT = int(salt)
    _GCOUNT[0] = 0


def ambient(op, dec, em):
    """-> fingerprint of the global generators after setting them (None when pinned for a documented component)"""
    if documented_random(dec, em):
        random.seed(20260930)
        return None
    g = op.get('gseed')
    if g is None:
        _GCOUNT[0] += 1
        g = (GSALT * 1000003 + _GCOUNT[0] * 7919 + 17) % (2 ** 32)
    random.seed(g)
    np.random.seed(g)
    return rng_fingerprint()


def rng_fingerprint():
    s = np.random.get_state()
    return (random.getstate(), s[1].tobytes(), s[2])


def consumed(fp):
    """which global generators were advanced since fingerprint fp"""
    if fp is None:
        return []
    now = rng_fingerprint()
    return ([] if now[0] == fp[0] else ['random']) + ([] if now[1:] == fp[1:] else ['numpy.random'])


def namespace():
    ns = {}
    import qecsim.models.basic as b
    import qecsim.models.color as c
    import qecsim.models.generic as g
    import qecsim.models.planar as p
    import qecsim.models.rotatedplanar as rp
    import qecsim.models.rotatedtoric as rt
    import qecsim.models.toric as t
    for m in (b, c, g, p, rp, rt, t):
        for k in dir(m):
            if not k.startswith('_'):
                ns[k] = getattr(m, k)
    return ns


def bits(s):
    return np.array([int(ch) for ch in s], dtype=int)


def bitstr(a):
    return ''.join(str(int(x)) for x in a)


def execute(op, get):
    """get(expr) -> object (fresh or shared, the caller decides)"""
    from qecsim import app
    from qecsim import paulitools as pt
    code, dec, em = get(op['code']), get(op['dec']), get(op['em'])
    fp = ambient(op, dec, em)
    r = _execute(op, code, dec, em)
    used = consumed(fp)
    if used:
        r['grng'] = used
    return r


def _execute(op, code, dec, em):
    from qecsim import app
    from qecsim import paulitools as pt
    if op['op'] == 'decode':
        error = bits(op['error'])
        syndrome = pt.bsp(error, code.stabilizers.T)
        kw = {'error_model': em, 'error_probability': op['p']}
        if op.get('ctx_error') is not None:
            kw['error'] = bits(op['ctx_error'])
        snap = (syndrome.tobytes(), code.stabilizers.tobytes(), code.logicals.tobytes(),
                None if 'error' not in kw else kw['error'].tobytes())
        try:
            r = dec.decode(code, syndrome, **kw)
            if hasattr(r, 'recovery'):
                r = r.recovery
            res = bitstr(r)
        except Exception as e:  # noqa
            res = 'ERR ' + type(e).__name__
        after = (syndrome.tobytes(), code.stabilizers.tobytes(), code.logicals.tobytes(),
                 None if 'error' not in kw else kw['error'].tobytes())
        return {'result': res, 'mutated': [n for n, a, b in zip(('syndrome', 'stabilizers', 'logicals', 'ctx_error'), snap, after) if a != b]}
    if op['op'] == 'decode_ftp':
        return _decode_ftp(op, code, dec, em)
    if op['op'] == 'run':
        kw = {'max_runs': op.get('max_runs'), 'max_failures': op.get('max_failures'), 'random_seed': op['seed']}
        snap = (code.stabilizers.tobytes(), code.logicals.tobytes())
        try:
            if op.get('T'):
                d = app.run_ftp(code, op['T'], em, dec, op['p'], op.get('q'), **kw)
            else:
                d = app.run(code, em, dec, op['p'], **kw)
            d = {k: v for k, v in d.items() if k != 'wall_time'}
            res = json.dumps(d, sort_keys=True, default=repr)
        except Exception as e:  # noqa
            res = 'ERR ' + type(e).__name__
        after = (code.stabilizers.tobytes(), code.logicals.tobytes())
        return {'result': res, 'mutated': [n for n, a, b in zip(('stabilizers', 'logicals'), snap, after) if a != b]}
    raise ValueError(op['op'])


def _canon(r):
    """canonical string of what decode / decode_ftp returned (recovery array or DecodeResult)"""
    if hasattr(r, 'recovery'):
        f = lambda a: 'None' if a is None else (bitstr(a) if hasattr(a, '__len__') else repr(a))   # noqa
        return '%s|success=%s|lc=%s|cv=%s' % (f(r.recovery), r.success, f(r.logical_commutations), f(r.custom_values))
    return bitstr(r)


def ftp_arrays(op, code):
    """The caller's side of a DIRECT decode_ftp call, built as qecsim.app does: step errors -> step syndromes, measurement
    errors at t-1 and t applied to the syndrome at t.  layout: how the caller holds the 2-d syndrome array.
    -> (syndrome, kwargs context arrays, {name: array} of every array the caller can still see afterwards)"""
    from qecsim import paulitools as pt
    T = op['T']
    step_errors = [bits(s) for s in op['step_errors']]
    step_meas = [bits(s) for s in op['step_meas']]
    assert len(step_errors) == T and len(step_meas) == T
    step_syn = [pt.bsp(e, code.stabilizers.T) for e in step_errors]
    rows = [step_meas[t - 1] ^ step_syn[t] ^ step_meas[t] for t in range(T)]
    owned = {}
    layout = op.get('layout', 'own')
    if layout == 'view':                 # one sample out of a batch the caller keeps: a view into a bigger array
        batch = np.zeros((3, T, len(rows[0])), dtype=int)
        batch[0], batch[2] = 1, np.array(rows)[::-1]
        batch[1] = np.array(rows)
        syndrome = batch[1]
        owned['syndrome-batch'] = batch
    elif layout == 'fortran':            # column-major / transposed storage
        syndrome = np.asfortranarray(np.array(rows))
    else:
        syndrome = np.array(rows)
    owned['syndrome'] = syndrome
    kw = {}
    if op.get('ctx') in ('full', 'meas'):
        kw['step_measurement_errors'] = step_meas
        for t, a in enumerate(step_meas):
            owned['step_measurement_errors[%d]' % t] = a
    if op.get('ctx') == 'full':
        kw['error'] = np.bitwise_xor.reduce(step_errors)
        kw['step_errors'] = step_errors
        owned['error'] = kw['error']
        for t, a in enumerate(step_errors):
            owned['step_errors[%d]' % t] = a
    owned['stabilizers'], owned['logicals'] = code.stabilizers, code.logicals
    if layout == 'readonly':             # e.g. a memory-mapped / shared sample the caller must not see changed
        syndrome.flags.writeable = False
    return syndrome, kw, owned


def _decode_ftp(op, code, dec, em):
    """Direct DecoderFTP.decode_ftp call as a user makes it: every array the caller holds is snapshotted before and
    compared bit for bit afterwards; the SAME array objects are then decoded again (the recovery must be the same)."""
    from qecsim import paulitools as pt
    syndrome, ctx_kw, owned = ftp_arrays(op, code)
    kw = dict(ctx_kw, error_model=em, error_probability=op['p'])
    if op.get('q') is not None:
        kw['measurement_error_probability'] = op['q']
    snap = {k: (a.shape, a.tobytes()) for k, a in owned.items()}
    snap_str = {k: bitstr(np.asarray(a).ravel()) for k, a in owned.items() if k not in ('stabilizers', 'logicals')}
    total = np.bitwise_xor.reduce(np.array(syndrome))        # (a copy, taken before the call)

    def call():
        try:
            r = dec.decode_ftp(code, op['T'], syndrome, **kw)
            res = _canon(r)
            rec = r.recovery if hasattr(r, 'recovery') else r
            if rec is not None and not np.array_equal(pt.bsp(np.array(rec), code.stabilizers.T), total):
                res += ' !syndrome'
            return res
        except Exception as e:  # noqa
            return 'ERR ' + type(e).__name__ + ' ' + str(e)[:80]
    res = call()
    changed = [k for k, a in owned.items() if (a.shape, a.tobytes()) != snap[k]]
    out = {'result': res, 'mutated': changed}
    if changed:
        out['mutated_detail'] = {k: [snap_str[k], bitstr(np.asarray(owned[k]).ravel())] for k in changed if k in snap_str}
    res2 = call()                                            # the caller decodes the very same arrays again
    if res2 != res:
        out['redecode'] = res2
    return out


def main():
    import logging
    logging.getLogger('qecsim').setLevel(logging.ERROR)
    ops = json.load(sys.stdin)
    ns = namespace()
    for op in ops:
        r = execute(op, lambda expr: eval(expr, dict(ns)))   # fresh objects for every operation
        sys.stdout.write(json.dumps(r) + '\n')
    sys.stdout.flush()


if __name__ == '__main__':
    main()
