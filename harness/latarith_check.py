"""Translator correspondence: every definition of Generated/LatticeArith.v is evaluated by vm_compute on a
grid of arguments and compared, inside the kernel, with what the Python original returns on the same
arguments.  Also re-runs the translator so the generated file always reflects /repo's current source."""
import itertools
import os
import subprocess

from harness.common import COQ, VERIF, PY, REPO


def regenerate(ctx):
    """Re-run the translator; returns (ok, message).  A changed output triggers a rebuild of dependants (make)."""
    env = dict(os.environ)
    env['PYTHONPATH'] = VERIF
    env['VERIF_REPO'] = REPO
    p = subprocess.run([PY, '-m', 'harness.pyarith_translate'], cwd=VERIF, env=env, capture_output=True, text=True)
    ok = p.returncode == 0
    ctx.obligation('translator: integer lattice kernels regenerated from the current source', ok, p.stdout + p.stderr)
    return ok, p.stdout.strip()


def z(v):
    return '(%d)' % int(v)


def term(v):
    if v is None:
        return 'None'
    if isinstance(v, bool):
        return 'true' if v else 'false'
    if isinstance(v, tuple):
        return '(' + ', '.join(term(x) for x in v) + ')'
    return z(v)


def some(v):
    return 'None' if v is None else 'Some ' + term(v)


def grid_cases(families):
    """yield (coq_lhs, coq_rhs) pairs"""
    from qecsim.models.planar import PlanarCode
    from qecsim.models.toric import ToricCode
    from qecsim.models.rotatedplanar import RotatedPlanarCode
    from qecsim.models.rotatedtoric import RotatedToricCode
    from qecsim.models.color import Color666Code
    out = []

    def opt(f):
        try:
            return tuple(int(x) for x in f())
        except IndexError:
            return None
    if 'planar' in families:
        for (r, c) in [(2, 2), (2, 5), (3, 3), (4, 3), (5, 6)]:
            code = PlanarCode(r, c)
            out.append(('planar_n_k_d %s %s' % (z(r), z(c)), term(tuple(code.n_k_d))))
            out.append(('planar_bounds %s %s' % (z(r), z(c)), term(tuple(code.bounds))))
            idxs = list(itertools.product(range(-3, 2 * r + 2), range(-3, 2 * c + 2)))
            for i in idxs:
                it = term(i)
                out.append(('planar_is_plaquette %s' % it, term(bool(code.is_plaquette(i)))))
                out.append(('planar_is_primal %s' % it, term(bool(code.is_primal(i)))))
                out.append(('planar_is_in_bounds %s %s %s' % (z(r), z(c), it), term(bool(code.is_in_bounds(i)))))
                out.append(('planar_virtual_plaquette_index %s %s %s' % (z(r), z(c), it),
                            some(opt(lambda: code.virtual_plaquette_index(i)))))
                if code.is_site(i) and code.is_in_bounds(i):
                    out.append(('planar_flatten %s %s %s' % (z(r), z(c), it), z(code.new_pauli()._flatten_site_index(i))))
            for a in idxs[::5]:
                for b in idxs[::7]:
                    out.append(('planar_translation %s %s %s %s' % (z(r), z(c), term(a), term(b)),
                                some(opt(lambda: code.translation(a, b)))))
    if 'toric' in families:
        for (r, c) in [(2, 2), (3, 4), (4, 4), (5, 2)]:
            code = ToricCode(r, c)
            out.append(('toric_n_k_d %s %s' % (z(r), z(c)), term(tuple(code.n_k_d))))
            idxs = list(itertools.product((0, 1, 2, -1), range(-2, r + 2), range(-2, c + 2)))
            for a in idxs[::3]:
                for b in idxs[::5]:
                    out.append(('toric_translation %s %s %s %s' % (z(r), z(c), term(a), term(b)),
                                some(opt(lambda: code.translation(a, b)))))
    if 'rotplanar' in families:
        for (r, c) in [(3, 3), (3, 4), (4, 5), (5, 5), (6, 4)]:
            code = RotatedPlanarCode(r, c)
            out.append(('rotplanar_n_k_d %s %s' % (z(r), z(c)), term(tuple(code.n_k_d))))
            out.append(('rotplanar_site_bounds %s %s' % (z(r), z(c)), term(tuple(code.site_bounds))))
            for i in itertools.product(range(-3, c + 2), range(-3, r + 2)):
                it = term(i)
                out.append(('rotplanar_is_x_plaquette %s' % it, term(bool(code.is_x_plaquette(i)))))
                out.append(('rotplanar_is_in_site_bounds %s %s %s' % (z(r), z(c), it), term(bool(code.is_in_site_bounds(i)))))
                out.append(('rotplanar_is_in_plaquette_bounds %s %s %s' % (z(r), z(c), it),
                            term(bool(code.is_in_plaquette_bounds(i)))))
                out.append(('rotplanar_is_virtual_plaquette %s %s %s' % (z(r), z(c), it),
                            term(bool(code.is_virtual_plaquette(i)))))
                if code.is_in_site_bounds(i):
                    out.append(('rotplanar_flatten %s %s %s' % (z(r), z(c), it), z(code.new_pauli()._flatten_site_index(i))))
    if 'rottoric' in families:
        for (r, c) in [(2, 2), (2, 4), (4, 4), (6, 4)]:
            code = RotatedToricCode(r, c)
            out.append(('rottoric_n_k_d %s %s' % (z(r), z(c)), term(tuple(code.n_k_d))))
            out.append(('rottoric_bounds %s %s' % (z(r), z(c)), term(tuple(code.bounds))))
            idxs = list(itertools.product(range(-3, c + 3), range(-3, r + 3)))
            for i in idxs:
                it = term(i)
                out.append(('rottoric_is_x_plaquette %s' % it, term(bool(code.is_x_plaquette(i)))))
                out.append(('rottoric_is_in_bounds %s %s %s' % (z(r), z(c), it), term(bool(code.is_in_bounds(i)))))
                out.append(('rottoric_mod_index %s %s %s' % (z(r), z(c), it),
                            term(tuple(int(x) for x in code.new_pauli()._mod_index(i)))))
                if code.is_in_bounds(i):
                    out.append(('rottoric_flatten %s %s %s' % (z(r), z(c), it), z(code.new_pauli()._flatten_site_index(i))))
            for a in idxs[::3]:
                for b in idxs[::4]:
                    out.append(('rottoric_translation %s %s %s %s' % (z(r), z(c), term(a), term(b)),
                                some(opt(lambda: code.translation(a, b)))))
    if 'color' in families:
        for s in (3, 5, 7, 9):
            code = Color666Code(s)
            out.append(('color_n_k_d %s' % z(s), term(tuple(code.n_k_d))))
            out.append(('color_bound %s' % z(s), z(code.bound)))
            for i in itertools.product(range(-2, code.bound + 3), repeat=2):
                it = term(i)
                out.append(('color_is_plaquette %s' % it, term(bool(code.is_plaquette(i)))))
                out.append(('color_is_in_bounds %s %s' % (z(s), it), term(bool(code.is_in_bounds(i)))))
                out.append(('color_virtual_plaquette_index %s %s' % (z(s), it),
                            some(opt(lambda: code.virtual_plaquette_index(i)))))
    return out


def check(ctx, families):
    cases = grid_cases(families)
    limit = ctx.pick(3000, 40000)
    if len(cases) > limit:
        cases = ctx.rng.sample(cases, limit)
    lines = ['From Coq Require Import ZArith List Bool.', 'From QV Require Import Generated.LatticeArith.', 'Open Scope Z_scope.',
             'Import ListNotations.']
    # group by result type via separate boolean equalities
    items = []
    for lhs, rhs in cases:
        if rhs in ('true', 'false'):
            items.append('Bool.eqb (%s) %s' % (lhs, rhs))
        elif rhs.startswith('Some') or rhs == 'None':
            # option (Z*Z)
            items.append('match %s, %s with Some (a, b), Some (c, d) => (a =? c) && (b =? d) | None, None => true | _, _ => false end'
                         % (lhs, rhs if rhs != 'None' else '(@None (Z * Z))'))
        elif rhs.count(',') == 2:
            items.append("(let '(a, b, c) := %s in let '(d, e, f) := %s in (a =? d) && (b =? e) && (c =? f))" % (lhs, rhs))
        elif rhs.count(',') == 1:
            items.append("(let '(a, b) := %s in let '(c, d) := %s in (a =? c) && (b =? d))" % (lhs, rhs))
        else:
            items.append('(%s =? %s)' % (lhs, rhs))
    text = '\n'.join(lines) + '\nDefinition checks : list bool :=\n [' + ';\n  '.join(items) + '].\n' \
        'Example translator_corr : forallb (fun b => b) checks = true.\nProof. vm_compute. reflexivity. Qed.\n'
    ok = ctx.kernel_cases('translator_' + '_'.join(sorted(families)), text)
    ctx.extra.setdefault('translator_grid_cases', 0)
    ctx.extra['translator_grid_cases'] += len(cases)
    ctx.count(('translator-grid',) + tuple(sorted(families)), True, 'translator-grid', n=len(cases))
    return ok
