"""Rotated planar family for C07 / C08 (called from harness/c07.py, c08.py), plus the helpers shared
with lat_rottoric.py and lat_color.py (independent GF(2) / commutation / distance code).

check_c07(ctx): model <-> implementation correspondence for every size, lattice-Pauli API agreement,
constructor stream, and the property evaluated directly on the implementation's matrices.
check_c08(ctx): advertised d against an exhaustive minimum-distance search on the implementation's matrices."""
import itertools

import numpy as np

from harness.common import bitstr, rowsstr, exc_class, hexbits

ENGINE = 'latrc'


# ----------------------------------------------------------------------------------------------
# independent linear algebra / Pauli helpers (no qecsim.paulitools in here)
# ----------------------------------------------------------------------------------------------
def row_int(r):
    v = 0
    for b in r:
        v = (v << 1) | int(b)
    return v


def gf2_rank(int_rows):
    """rank over GF(2) of rows given as Python ints (XOR basis keyed by leading bit)."""
    basis = {}
    for v in int_rows:
        while v:
            h = v.bit_length()
            if h in basis:
                v ^= basis[h]
            else:
                basis[h] = v
                break
    return len(basis)


def gf2_basis(int_rows):
    basis = {}
    for v in int_rows:
        while v:
            h = v.bit_length()
            if h in basis:
                v ^= basis[h]
            else:
                basis[h] = v
                break
    return basis


def in_span(basis, v):
    while v:
        h = v.bit_length()
        if h not in basis:
            return False
        v ^= basis[h]
    return True


def letter_codes(M):
    """rows of a bsf matrix -> array of letter codes 0=I 1=X 2=Z 3=Y"""
    M = np.asarray(M)
    n = M.shape[1] // 2
    return (M[:, :n] + 2 * M[:, n:]).astype(np.int8)


def anti_matrix(A, B):
    """letter level: parity of positions where both letters are non-identity and differ"""
    LA, LB = letter_codes(A), letter_codes(B)
    out = np.zeros((len(LA), len(LB)), dtype=np.int64)
    step = max(1, 4000000 // max(1, LB.size))
    for i in range(0, len(LA), step):
        a = LA[i:i + step, None, :]
        b = LB[None, :, :]
        out[i:i + step] = ((a != 0) & (b != 0) & (a != b)).sum(axis=2) % 2
    return out


def plain_int(x):
    return type(x) is int


def direct_code_checks(ctx, fam, size, code, dependent_rows=0):
    """The C07 statement evaluated on the implementation's own matrices with independent code.
    fam/size only label the replay record.  Returns True when everything holds."""
    ok = True
    rep = {'family': fam, 'size': list(size) if isinstance(size, tuple) else size}

    def bad(key, what, **kw):
        nonlocal ok
        ok = False
        d = dict(rep)
        d.update(kw)
        ctx.violation(fam + '-' + key, what, d)

    S, X, Z = np.asarray(code.stabilizers), np.asarray(code.logical_xs), np.asarray(code.logical_zs)
    nkd = code.n_k_d
    if not (isinstance(nkd, tuple) and len(nkd) == 3 and all(plain_int(v) for v in nkd)):
        bad('nkd-type', 'n_k_d is not a 3-tuple of plain Python ints', n_k_d=repr(nkd))
        return False
    n, k, d = nkd
    try:
        code.validate()
    except Exception as e:  # noqa
        bad('validate', 'code.validate() raises ' + exc_class(e), error=str(e))
    if S.ndim != 2 or X.ndim != 2 or Z.ndim != 2 or S.shape[1] != 2 * n or X.shape != (k, 2 * n) or Z.shape != (k, 2 * n):
        bad('shapes', 'n / k disagree with the matrix shapes', shapes=[list(S.shape), list(X.shape), list(Z.shape)],
            n_k_d=list(nkd))
        return False
    if S.shape[0] != n - k + dependent_rows:
        bad('shapes', 'number of stabilizer rows is not n-k (+%d dependent)' % dependent_rows,
            shapes=[list(S.shape)], n_k_d=list(nkd))
    for name, M in (('stabilizers', S), ('logical_xs', X), ('logical_zs', Z)):
        if not np.array_equal(M, M % 2) or not np.issubdtype(M.dtype, np.integer):
            bad('binary', name + ' is not a binary integer matrix')
    if np.array_equal(code.logicals, np.vstack([X, Z])) is False:
        bad('logicals', 'logicals is not logical_xs stacked on logical_zs')
    a = anti_matrix(S, S)
    if a.any():
        i, j = map(int, np.argwhere(a)[0])
        bad('stab-commute', 'two stabilizers anticommute', rows=[i, j])
    L = np.vstack([X, Z])
    a = anti_matrix(S, L)
    if a.any():
        i, j = map(int, np.argwhere(a)[0])
        bad('stab-logical-commute', 'a stabilizer anticommutes with a logical', rows=[i, j])
    a = anti_matrix(L, L)
    want = np.zeros((2 * k, 2 * k), dtype=np.int64)
    for i in range(k):
        want[i, k + i] = want[k + i, i] = 1
    if not np.array_equal(a, want):
        i, j = map(int, np.argwhere(a != want)[0])
        bad('logical-commute', 'logical X_i / Z_j commutation is not delta_ij', rows=[i, j])
    srows = [row_int(r) for r in S]
    rs = gf2_rank(srows)
    if rs != n - k:
        bad('rank-stab', 'GF(2) rank of the stabilizer matrix is %d, n-k = %d' % (rs, n - k))
    rl = gf2_rank(srows + [row_int(r) for r in L])
    if rl != n + k:
        bad('rank-logicals', 'stabilizers + logicals have GF(2) rank %d, n+k = %d' % (rl, n + k))
    return ok


def direct_flatten_checks(ctx, fam, size, code, sites):
    """flatten is a bijection from the in-bounds sites onto range(n); site access, to_bsf agree."""
    n = code.n_k_d[0]
    p = code.new_pauli()
    flats = []
    for idx in sites:
        try:
            f = p._flatten_site_index(idx)
        except Exception as e:  # noqa
            ctx.violation(fam + '-flatten', '_flatten_site_index raises on an in-bounds site',
                          {'family': fam, 'size': size, 'index': list(idx), 'error': exc_class(e)})
            return False
        if not plain_int(f) and not isinstance(f, (int, np.integer)):
            ctx.violation(fam + '-flatten', '_flatten_site_index is not an int',
                          {'family': fam, 'size': size, 'index': list(idx), 'value': repr(f)})
            return False
        flats.append(int(f))
    if sorted(flats) != list(range(n)):
        dup = [list(sites[i]) for i in range(len(flats)) if flats.count(flats[i]) > 1][:4]
        ctx.violation(fam + '-flatten', 'flatten is not a bijection from the in-bounds sites onto range(n)',
                      {'family': fam, 'size': size, 'n': n, 'n_sites': len(sites), 'colliding': dup,
                       'out_of_range': [f for f in flats if not 0 <= f < n][:4]})
        return False
    ok = True
    for idx, f in zip(sites, flats):
        for op, (xb, zb) in (('X', (1, 0)), ('Z', (0, 1)), ('Y', (1, 1))):
            q = code.new_pauli().site(op, idx)
            b = q.to_bsf()
            want = np.zeros(2 * n, dtype=int)
            want[f] = xb
            want[n + f] = zb
            if not np.array_equal(b, want) or q.operator(idx) != op:
                ctx.violation(fam + '-site-access', 'site / operator / to_bsf disagree on one site',
                              {'family': fam, 'size': size, 'index': list(idx), 'op': op, 'bsf': bitstr(b)})
                ok = False
                break
    return ok


def css_split(S):
    """-> (X-type supports, Z-type supports) as int masks over qubits, or None if a row mixes X and Z."""
    S = np.asarray(S)
    n = S.shape[1] // 2
    xs, zs = [], []
    for r in S:
        x, z = row_int(r[:n]), row_int(r[n:])
        if x and z:
            return None
        if x:
            xs.append(x)
        elif z:
            zs.append(z)
    return xs, zs


def light_normalizer_element(n, checks, span_rows, max_wt):
    """Exhaustive search: a support (int mask over n qubits, bit n-1-q = qubit q) of weight 1..max_wt whose overlap
    with every mask in `checks` is even and that is not in the GF(2) span of span_rows.  None if there is none.
    (Supports of weight w are enumerated as all (w-1)-subsets plus a table lookup of the last qubit.)"""
    m = len(checks)
    col = []
    for q in range(n):
        bit = 1 << (n - 1 - q)
        s = 0
        for i, c in enumerate(checks):
            if c & bit:
                s |= 1 << i
        col.append(s)
    basis = gf2_basis(span_rows)
    last = {}
    for q in range(n):
        last.setdefault(col[q], []).append(q)
    found = [None]

    def finish(mask, synd, lastq, w):
        # complete a (w-1)-subset with one more qubit > lastq cancelling the syndrome
        for q in last.get(synd, ()):
            if q > lastq:
                v = mask | (1 << (n - 1 - q))
                if not in_span(basis, v):
                    found[0] = v
                    return True
        return False

    def rec(start, left, mask, synd, lastq, w):
        if left == 0:
            return finish(mask, synd, lastq, w)
        for q in range(start, n - left):
            if rec(q + 1, left - 1, mask | (1 << (n - 1 - q)), synd ^ col[q], q, w):
                return True
        return False

    for w in range(1, max_wt + 1):
        if rec(0, w - 1, 0, 0, -1, w):
            return found[0], w
    return None


def mask_bits(n, v):
    return ''.join('1' if v >> (n - 1 - q) & 1 else '0' for q in range(n))


def direct_distance_check(ctx, fam, size, code):
    """C08 on the implementation: advertised d against an exhaustive CSS search.  Returns #supports classes searched."""
    S, X, Z = np.asarray(code.stabilizers), np.asarray(code.logical_xs), np.asarray(code.logical_zs)
    n, k, d = code.n_k_d
    rep = {'family': fam, 'size': list(size) if isinstance(size, tuple) else size, 'n_k_d': [n, k, d]}
    sp = css_split(S)
    if sp is None:
        ctx.violation(fam + '-css', 'a stabilizer generator mixes X and Z; CSS search not applicable', rep)
        return
    xs, zs = sp
    # supplied logicals: not lighter than d, in the normalizer, not in the stabilizer span
    full_basis = gf2_basis([row_int(r) for r in S])
    wts = []
    for name, M in (('logical_xs', X), ('logical_zs', Z)):
        for i, r in enumerate(M):
            w = int(np.count_nonzero(r[:n] + r[n:]))
            wts.append(w)
            if w < d:
                ctx.violation(fam + '-logical-lighter', 'a supplied logical is lighter than the advertised d',
                              dict(rep, which=name, row=i, weight=w))
            if anti_matrix(S, r[None, :]).any() or in_span(full_basis, row_int(r)):
                ctx.violation(fam + '-logical-trivial', 'a supplied logical is not a non-trivial normalizer element',
                              dict(rep, which=name, row=i))
    # lower bound: no non-trivial X-type (resp. Z-type) normalizer element of weight < d
    for typ, checks, span in (('X', zs, xs), ('Z', xs, zs)):
        r = light_normalizer_element(n, checks, span, d - 1)
        if r is not None:
            v, w = r
            ctx.violation(fam + '-distance-lower', 'a non-trivial %s-type logical of weight %d < advertised d=%d exists'
                          % (typ, w, d), dict(rep, type=typ, weight=w, support=mask_bits(n, v)))
    # upper bound: a non-trivial normalizer element of weight exactly d exists
    if d not in wts:
        hit = None
        for typ, checks, span in (('X', zs, xs), ('Z', xs, zs)):
            hit = hit or light_normalizer_element(n, checks, span, d)
        if hit is None:
            ctx.violation(fam + '-distance-upper', 'no non-trivial logical of weight d exists (true distance > d)', rep)


def guard(ctx, fam, size, fn):
    """Run one per-size block; an exception escaping from documented API calls is itself a failing input."""
    import traceback
    try:
        fn()
        return True
    except Exception as e:  # noqa
        tb = traceback.extract_tb(e.__traceback__)
        where = ['%s:%d %s' % (f.filename.split('/')[-1], f.lineno, f.name) for f in tb[-3:]]
        ctx.violation(fam + '-exception', 'documented API call raises ' + exc_class(e),
                      {'family': fam, 'size': size, 'error': str(e)[:200], 'where': where})
        return False


def ctor_args(ctx):
    """argument stream for the constructors: (python value, model token)"""
    vals = [(v, 'i%d' % v) for v in (-2, -1, 0, 1, 2, 3, 4, 5, 6, 7, 10 ** 30, 10 ** 30 + 1, 2 ** 64, -10 ** 30)]
    vals += [(True, 'bT'), (False, 'bF'), (3.0, 'f'), (4.5, 'f'), (float('nan'), 'f'), (float('inf'), 'f'),
             ('3', 's'), ('a', 's'), ('', 's'), (None, 'n')]
    return vals


def ctor_result(cls, *args):
    try:
        cls(*args)
        return 'Ok'
    except Exception as e:  # noqa
        return exc_class(e)


def int_like(v):
    return type(v) in (int, bool)


def coq_rows(M):
    return '[' + '; '.join('(bits_of_N %d %s%%N)' % hexbits([int(x) for x in r]) for r in M) + ']'


def kernel_code_items(coq_code_expr, code):
    """Coq boolean: the model's three matrices equal the implementation's (hex literals)."""
    return ('(beqm (stabs %s) %s && beqm (lxs %s) %s && beqm (lzs %s) %s)'
            % (coq_code_expr, coq_rows(code.stabilizers), coq_code_expr, coq_rows(code.logical_xs),
               coq_code_expr, coq_rows(code.logical_zs)))


KERNEL_HEADER = ('From Coq Require Import List Bool Arith ZArith NArith.\n'
                 'From QV Require Import Core.Bits Core.Pauli Core.Symp Core.Code Generated.LatticeArith '
                 'Lattice.RotPlanar Lattice.RotToric Lattice.Color.\nImport ListNotations.\nOpen Scope Z_scope.\n')


def kernel_shard(ctx, name, items):
    text = (KERNEL_HEADER + 'Definition checks : list bool :=\n [' + ';\n  '.join(items) + '].\n'
            'Example corr : forallb (fun b => b) checks = true.\nProof. vm_compute. reflexivity. Qed.\n')
    ctx.extra.setdefault('kernel_cases', {})[name] = len(items)
    return ctx.kernel_cases(name, text)


def idxs(lst):
    return ','.join('%d:%d' % (int(a), int(b)) for a, b in lst) if len(lst) else '-'


# ----------------------------------------------------------------------------------------------
# rotated planar
# ----------------------------------------------------------------------------------------------
FAM = 'rotplanar'


def _sizes(lo, hi):
    return [(r, c) for r in range(lo, hi + 1) for c in range(lo, hi + 1)]


def _sites(code):
    mx, my = code.site_bounds
    return [(x, y) for y in range(my + 1) for x in range(mx + 1)]


def check_c07(ctx):
    from qecsim.models.rotatedplanar import RotatedPlanarCode
    rng = ctx.rng
    hi = ctx.pick(11, 17)
    small = ctx.pick(6, 7)
    sizes = _sizes(3, hi)
    ctx.notes.append('rotplanar C07: every size 3..%d x 3..%d exact matrices; lattice-Pauli API on every site/plaquette '
                     'of every size <= %dx%d' % (hi, hi, small, small))
    # ---- 1. whole codes: correspondence + direct property ------------------------------------
    req = []
    for (r, c) in sizes:
        req += ['rp_code %d %d' % (r, c), 'rp_nkd %d %d' % (r, c), 'rp_pidx %d %d' % (r, c)]
    out = ctx.model(ENGINE, req)
    kern = []
    def whole(i, r, c):
        code = RotatedPlanarCode(r, c)
        inp = 'RotatedPlanarCode(%d,%d)' % (r, c)
        m = out[3 * i].split(' ')
        m += [''] * (3 - len(m))
        ctx.cmp('rotplanar.stabilizers', inp, rowsstr(code.stabilizers), m[0])
        ctx.cmp('rotplanar.logical_xs', inp, rowsstr(code.logical_xs), m[1])
        ctx.cmp('rotplanar.logical_zs', inp, rowsstr(code.logical_zs), m[2])
        ctx.cmp('rotplanar.n_k_d', inp, ','.join(repr(v) for v in code.n_k_d), out[3 * i + 1])
        ctx.cmp('rotplanar._plaquette_indices', inp, idxs(code._plaquette_indices), out[3 * i + 2])
        direct_code_checks(ctx, FAM, (r, c), code)
        sites = _sites(code)
        if r <= small + 2 and c <= small + 2:
            direct_flatten_checks(ctx, FAM, [r, c], code, sites)
        else:
            p = code.new_pauli()
            fl = sorted(int(p._flatten_site_index(s)) for s in sites)
            if fl != list(range(code.n_k_d[0])):
                ctx.violation(FAM + '-flatten', 'flatten is not a bijection from the in-bounds sites onto range(n)',
                              {'family': FAM, 'size': [r, c]})
        # syndrome bit i <-> plaquette i (direct) on the unit syndromes of a few rows
        pi = code._plaquette_indices
        for j in sorted(set([0, len(pi) - 1, rng.randrange(len(pi))])):
            s = np.zeros(len(pi), dtype=int)
            s[j] = 1
            if code.syndrome_to_plaquette_indices(s) != {tuple(pi[j])}:
                ctx.violation(FAM + '-syndrome-index', 'syndrome bit does not map back to its plaquette',
                              {'family': FAM, 'size': [r, c], 'bit': j})
        ctx.count((FAM, r, c), r != c or (r, c) == (3, 3), 'rotplanar-code',
                  {'code': inp, 'n_k_d': list(code.n_k_d)} if (r, c) == (3, 4) else None)
        if (r, c) in ((3, 3), (3, 4), (4, 3), (5, 4), (4, 6)):
            kern.append(kernel_code_items('(rotplanar_code %d %d)' % (r, c), code))

    for i, (r, c) in enumerate(sizes):
        guard(ctx, FAM, [r, c], lambda: whole(i, r, c))
    # ---- 2. lattice Pauli API on small sizes ---------------------------------------------------
    req, exp = [], []

    def api(r, c):
        code = RotatedPlanarCode(r, c)
        mx, my = code.site_bounds
        inp = 'RotatedPlanarCode(%d,%d)' % (r, c)
        n = code.n_k_d[0]
        for y in range(-2, my + 3):
            for x in range(-2, mx + 3):
                # site (every letter) — also outside the lattice, where it must have no effect
                for op in 'XYZ':
                    b = code.new_pauli().site(op, (x, y)).to_bsf()
                    req.append('rp_ops %d %d S%s:%d:%d' % (r, c, op, x, y))
                    exp.append(('rotplanar.site', inp + ' %s %s' % (op, (x, y)), bitstr(b)))
                    inb = 0 <= x <= mx and 0 <= y <= my
                    if not inb and b.any():
                        ctx.violation(FAM + '-site-outside', 'site() outside the lattice changes the operator',
                                      {'family': FAM, 'size': [r, c], 'index': [x, y], 'op': op})
                # plaquette: model, and the documented support directly
                pl = code.new_pauli().plaquette((x, y))
                b = pl.to_bsf()
                req.append('rp_ops %d %d P:%d:%d' % (r, c, x, y))
                exp.append(('rotplanar.plaquette', inp + ' %s' % ((x, y),), bitstr(b)))
                want = np.zeros(2 * n, dtype=int)
                if code.is_in_plaquette_bounds((x, y)):
                    off = n if (x - y) % 2 == 0 else 0
                    for (sx, sy) in ((x, y), (x, y + 1), (x + 1, y + 1), (x + 1, y)):
                        if 0 <= sx <= mx and 0 <= sy <= my:
                            want[off + sx + sy * c] ^= 1
                    if int(want.sum()) not in (2, 4):
                        ctx.violation(FAM + '-plaquette-bounds', 'in-bounds plaquette with %d sites' % int(want.sum()),
                                      {'family': FAM, 'size': [r, c], 'index': [x, y]})
                if not np.array_equal(b, want):
                    ctx.violation(FAM + '-plaquette-support', 'plaquette operator is not its documented support',
                                  {'family': FAM, 'size': [r, c], 'index': [x, y], 'bsf': bitstr(b)})
                ctx.count((FAM, 'pl', r, c, x, y), r != c, 'rotplanar-site-plaquette')
        # the documented set of plaquettes: bulk plaquettes plus alternating 2-site boundary plaquettes
        # (X-type on the left/right boundaries, Z-type on the bottom/top boundaries)
        pis = code._plaquette_indices
        doc = set()
        for y in range(-1, my + 1):
            for x in range(-1, mx + 1):
                bulk = 0 <= x < mx and 0 <= y < my
                is_x = (x - y) % 2 == 1
                lr = (x in (-1, mx)) and 0 <= y < my and is_x
                bt = (y in (-1, my)) and 0 <= x < mx and not is_x
                if bulk or lr or bt:
                    doc.add((x, y))
        if set(map(tuple, pis)) != doc or len(pis) != len(doc):
            ctx.violation(FAM + '-plaquette-set', 'plaquette indices differ from the documented boundary rule',
                          {'family': FAM, 'size': [r, c], 'extra': sorted(set(map(tuple, pis)) - doc)[:4],
                           'missing': sorted(doc - set(map(tuple, pis)))[:4]})
        # random scripts of operations; operator() at every site (and just outside) of the result
        for _ in range(ctx.pick(3, 8)):
            ops, p = [], code.new_pauli()
            for _ in range(rng.randint(1, 8)):
                kind = rng.randrange(4)
                if kind == 0:
                    op, x, y = rng.choice('XYZ'), rng.randint(-1, mx + 1), rng.randint(-1, my + 1)
                    p.site(op, (x, y))
                    ops.append('S%s:%d:%d' % (op, x, y))
                elif kind == 1:
                    x, y = rng.randint(-2, mx + 1), rng.randint(-2, my + 1)
                    p.plaquette((x, y))
                    ops.append('P:%d:%d' % (x, y))
                elif kind == 2:
                    p.logical_x()
                    ops.append('LX')
                else:
                    p.logical_z()
                    ops.append('LZ')
            b = p.to_bsf()
            bs = bitstr(b)
            req.append('rp_ops %d %d %s' % (r, c, ','.join(ops)))
            exp.append(('rotplanar.script', inp + ' ' + ','.join(ops), bs))
            if not np.array_equal(code.new_pauli(b.copy()).to_bsf(), b) or not (p.copy() == p):
                ctx.violation(FAM + '-bsf-roundtrip', 'new_pauli(bsf).to_bsf() / copy() do not round-trip',
                              {'family': FAM, 'size': [r, c], 'bsf': bs})
            for y in range(-1, my + 2):
                for x in range(-1, mx + 2):
                    try:
                        o = p.operator((x, y))
                    except Exception as e:  # noqa
                        o = 'ERR ' + exc_class(e)
                    req.append('rp_operator %d %d %s %d %d' % (r, c, bs, x, y))
                    exp.append(('rotplanar.operator', inp + ' %s %s' % (bs, (x, y)), o))
                    if 0 <= x <= mx and 0 <= y <= my:
                        f = x + y * c
                        if o != 'IXZY'[int(b[f]) + 2 * int(b[n + f])]:
                            ctx.violation(FAM + '-operator', 'operator(index) disagrees with to_bsf()',
                                          {'family': FAM, 'size': [r, c], 'bsf': bs, 'index': [x, y], 'got': o})
            ctx.count((FAM, 'script', r, c, tuple(ops)), True, 'rotplanar-script')
        # syndrome_to_plaquette_indices on random syndromes
        for _ in range(3):
            s = np.array([rng.randint(0, 1) for _ in pis])
            got = code.syndrome_to_plaquette_indices(s)
            req.append('rp_synd %d %d %s' % (r, c, bitstr(s)))
            exp.append(('rotplanar.syndrome_to_plaquette_indices', inp + ' ' + bitstr(s), idxs(sorted(got))))
            if got != {tuple(pis[j]) for j in range(len(pis)) if s[j]}:
                ctx.violation(FAM + '-syndrome-index', 'syndrome bits do not map back to their plaquettes',
                              {'family': FAM, 'size': [r, c], 'syndrome': bitstr(s)})

    for (r, c) in _sizes(3, small):
        if not guard(ctx, FAM, [r, c], lambda: api(r, c)):
            m = min(len(req), len(exp))
            del req[m:], exp[m:]
    out = ctx.model(ENGINE, req)
    for (fn, inp, impl), m, line in zip(exp, out, req):
        if fn.endswith('syndrome_to_plaquette_indices') and m not in ('-',) and not m.startswith('ERR'):
            m = idxs(sorted(tuple(int(t) for t in s.split(':')) for s in m.split(',')))
        ctx.cmp(fn, inp, impl, m)
    # ---- 3. constructor argument stream -----------------------------------------------------------
    args = ctor_args(ctx)
    req, exp = [], []
    for (a, ta), (b, tb) in itertools.product(args, repeat=2):
        res = ctor_result(RotatedPlanarCode, a, b)
        req.append('rp_ctor %s %s' % (ta, tb))
        exp.append((repr((a, b)), res))
        documented = int_like(a) and int_like(b) and a >= 3 and b >= 3
        if (res == 'Ok') != documented or res not in ('Ok', 'ValueError', 'TypeError'):
            ctx.violation(FAM + '-ctor', 'constructor accepts / rejects outside the documented range or with an '
                          'undocumented exception', {'family': FAM, 'args': repr((a, b)), 'result': res})
        ctx.count((FAM, 'ctor', ta, tb, repr(a), repr(b)), res != 'Ok', 'rotplanar-ctor-' + res)
    out = ctx.model(ENGINE, req)
    for (inp, impl), m in zip(exp, out):
        ctx.cmp('rotplanar.__init__', inp, impl, m)
    kernel_shard(ctx, 'rotplanar', kern)


def check_c08(ctx):
    from qecsim.models.rotatedplanar import RotatedPlanarCode
    hi = ctx.pick(5, 8)
    searched = [(r, c) for (r, c) in _sizes(3, hi) if min(r, c) <= 7]     # thorough: up to 8x7 / 7x8 (8x8 excluded)
    for (r, c) in searched:
        code = RotatedPlanarCode(r, c)
        guard(ctx, FAM, [r, c], lambda: direct_distance_check(ctx, FAM, (r, c), code))
        ctx.count((FAM, 'dist', r, c), r != c or min(r, c) >= 3, 'rotplanar-distance',
                  {'code': repr(code), 'n_k_d': list(code.n_k_d)} if (r, c) == (3, 5) else None)
    # beyond the search budget: supplied logicals not lighter than d, and one of weight exactly d (upper bound)
    for (r, c) in _sizes(3, ctx.pick(11, 17)):
        if (r, c) in searched:
            continue
        def lw():
            code = RotatedPlanarCode(r, c)
            n, k, d = code.n_k_d
            w = [int(np.count_nonzero(v[:n] + v[n:])) for v in np.vstack([code.logical_xs, code.logical_zs])]
            if min(w) != d:
                ctx.violation(FAM + '-logical-weights', 'lightest supplied logical has weight %d, advertised d=%d' % (min(w), d),
                              {'family': FAM, 'size': [r, c]})

        guard(ctx, FAM, [r, c], lw)
        ctx.count((FAM, 'lw', r, c), r != c, 'rotplanar-logical-weight')
